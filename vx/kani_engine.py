"""Kani/CBMC engines.
lemma_base: proves the IEEE axioms used by the World-A Verus units (kani/fltlemmas, independent of /repo).
  Consistency: every axiom of prelude/ieee_axioms.rs names its harness (`kani: <name>`); the engine fails closed
  (undecided) when a named harness is missing, and requires the vacuity probe to be refuted."""
import os, re, json, subprocess, hashlib, shutil, time
ROOT = os.path.dirname(os.path.dirname(os.path.abspath(__file__)))
CACHE = os.path.join(ROOT, "build", "cache")

def kani_version():
    try:
        return subprocess.run(["cargo", "kani", "--version"], capture_output=True, text=True, timeout=60).stdout.strip()
    except Exception:
        return "kani-missing"

def lemma_base(tier):
    src = os.path.join(ROOT, "kani", "fltlemmas", "src", "lib.rs")
    axf = os.path.join(ROOT, "prelude", "ieee_axioms.rs")
    text = open(src).read(); ax = open(axf).read()
    wanted = re.findall(r"kani:\s*(\w+)", ax)
    have = re.findall(r"#\[kani::proof\]\s*fn (\w+)\(", text)
    missing = [w for w in wanted if w not in have]
    if missing:
        return {"name": "kani_fltlemmas", "status": "undecided", "reason": "axioms without a Kani harness: %s" % missing, "backend": "cbmc"}
    key = hashlib.sha256((text + ax + kani_version()).encode()).hexdigest()[:24]
    os.makedirs(CACHE, exist_ok=True)
    cp = os.path.join(CACHE, "kani_fltlemmas.%s.json" % key)
    if tier != "thorough" and os.path.exists(cp):
        r = json.load(open(cp)); r["cached"] = True; return r
    scratch = os.environ.get("VERIF_SCRATCH", "/var/tmp")
    tgt = os.path.join(scratch, "kani-flt-target")
    env = dict(os.environ, CARGO_NET_OFFLINE="true", CARGO_TARGET_DIR=tgt)
    t0 = time.time()
    try:
        p = subprocess.run(["cargo", "kani", "--no-overflow-checks"], cwd=os.path.join(ROOT, "kani", "fltlemmas"), env=env, capture_output=True, text=True, timeout=1800)
    except subprocess.TimeoutExpired:
        return {"name": "kani_fltlemmas", "status": "undecided", "reason": "kani timeout", "backend": "cbmc"}
    out = p.stdout + p.stderr
    res = {}
    cur = None
    for l in out.split("\n"):
        m = re.search(r"Checking harness (?:\w+::)*(\w+)\.\.\.", l)
        if m: cur = m.group(1)
        m = re.search(r"VERIFICATION:- (\w+)", l)
        if m and cur: res[cur] = m.group(1); cur = None
    if not res:
        return {"name": "kani_fltlemmas", "status": "undecided", "reason": "no harness result: " + out[-400:], "backend": "cbmc"}
    if res.get("vacuity_probe_must_fail") != "FAILED":
        return {"name": "kani_fltlemmas", "status": "undecided", "reason": "vacuity probe was not refuted", "backend": "cbmc"}
    names = [h for h in have if h != "vacuity_probe_must_fail"]
    bad = [h for h in names if res.get(h) != "SUCCESSFUL"]
    viol = [{"clause": "ieee." + h, "clauses": ["ieee." + h], "message": "IEEE lemma refuted by CBMC: " + h, "rendered": out[-1500:], "code": [], "tags": []} for h in bad]
    r = {"name": "kani_fltlemmas", "status": "failed" if bad else "ok", "obligations": len(names), "discharged": len(names) - len(bad), "violations": viol,
         "backend": "cbmc (kani %s), loop-free harnesses over kani::any::<f64>(): complete proofs" % kani_version().split("\n")[0], "wall_s": round(time.time() - t0, 1),
         "samples": [{"lemma": h, "result": res.get(h)} for h in names[:4]], "axioms_checked": wanted}
    json.dump(r, open(cp, "w"))
    r["cached"] = False
    return r
