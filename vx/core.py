"""vx core: item extraction from /repo, mechanical rewrites (DESIGN.md §3), weaving and freezing.

A contract file (contracts/<unit>.vspec) is a Verus file in a diff-like layout:

    #unit <name>                         header directives
    #config {json}                       rewrite configuration for this unit
    #include prelude/<file>              a shared prelude file, pasted verbatim
    +<text>                              hand-written Verus text (specs, lemmas, trusted items)
    #take <path> <selector> [| opts]     start of a section of code extracted from /repo
     <code line>                         (leading blank) an extracted line, as it was when the
                                         contract was frozen: used ONLY as the alignment anchor
    +<spec line>                         a contract line woven at this position
    #endtake

`weave` re-extracts every take from the *current* tree, aligns the fresh lines with the frozen
anchor lines and transplants the '+' blocks.  The fresh text is what is verified; the frozen lines
are never emitted.
"""
import difflib, json, os, re, hashlib
from .lexer import lex, Tok, layout, match_close, match_open, OPEN, CLOSE, LexError

class Undecided(Exception):
    """extraction / weaving could not be done mechanically (exit 2, never an alarm)"""

# ------------------------------------------------------------------------------------------------
# item finding

ITEM_KW = {"fn", "const", "struct", "enum", "trait", "impl", "type", "use", "mod", "static", "macro_rules"}

def P(t, s):
    return t.kind == "punct" and t.text == s

def split_items(toks, lo, hi):
    """yield (start, kw_index, end_exclusive) for every item in toks[lo:hi] (one nesting level)."""
    i = lo
    while i < hi:
        start = i
        # attributes
        while i < hi and P(toks[i], "#"):
            j = i + 1
            if j < hi and P(toks[j], "!"): j += 1
            if j < hi and P(toks[j], "["):
                i = match_close(toks, j) + 1
            else:
                break
        # visibility / qualifiers
        while i < hi and toks[i].kind == "id" and toks[i].text in ("pub", "unsafe", "async", "extern", "default"):
            i += 1
            if i < hi and P(toks[i], "(") and toks[i - 1].text == "pub":
                i = match_close(toks, i) + 1
        if i >= hi:
            break
        t = toks[i]
        if not (t.kind == "id" and t.text in ITEM_KW):
            # not an item start (stray token, e.g. macro invocation): skip to next ';' or balanced group
            if t.kind == "punct" and t.text in OPEN:
                i = match_close(toks, i) + 1
            else:
                i += 1
            continue
        kw = i
        if t.text == "const" and i + 1 < hi and toks[i + 1].kind == "id" and toks[i + 1].text == "fn":
            kw = i + 1
        # find the end: first ';' or '{...}' at depth 0 (ignoring (), [])
        j = kw + 1
        end = None
        while j < hi:
            u = toks[j]
            if u.kind == "punct":
                if u.text in ("(", "["):
                    j = match_close(toks, j) + 1; continue
                if u.text == "{":
                    c = match_close(toks, j)
                    if toks[kw].text in ("const", "static", "type", "use"):
                        j = c + 1; continue       # braces inside an initialiser
                    end = c + 1; break
                if u.text == ";":
                    end = j + 1; break
            j += 1
        if end is None:
            raise Undecided("item at line %d has no end" % toks[kw].line)
        yield (start, kw, end)
        i = end

def header_text(toks, kw, end):
    """normalised header: tokens from the keyword up to the body / ';' / '=' / '(' (for fn)."""
    out = []
    for j in range(kw, end):
        u = toks[j]
        if u.kind == "punct" and u.text in ("{", ";"):
            break
        if toks[kw].text in ("fn",) and P(u, "("):
            break
        if toks[kw].text in ("fn",) and P(u, "<"):
            break
        if toks[kw].text in ("const", "static", "type") and u.kind == "punct" and u.text in (":", "="):
            break
        if u.kind == "id" and u.text == "where":
            break
        out.append(u.text)
    return " ".join(out)

def strip_generics(h):
    out = []; d = 0
    for w in h.split():
        if w == "<": d += 1
        elif w == ">": d -= 1
        elif d == 0: out.append(w)
    return " ".join(out)

def norm_sel(s):
    return " ".join(t.text for t in lex(s))

def find_item(toks, lo, hi, selector):
    sel = norm_sel(selector)
    hits = []
    for (s, kw, e) in split_items(toks, lo, hi):
        h = header_text(toks, kw, e)
        if h == sel or strip_generics(h) == sel:
            hits.append((s, kw, e))
    if len(hits) != 1:
        raise Undecided("selector %r matches %d items" % (selector, len(hits)))
    return hits[0]

def body_range(toks, kw, end):
    """(open_brace_index, close_brace_index) of an item with a body"""
    j = kw
    while j < end:
        u = toks[j]
        if u.kind == "punct" and u.text in ("(", "["):
            j = match_close(toks, j) + 1; continue
        if P(u, "{"):
            return j, match_close(toks, j)
        j += 1
    raise Undecided("item at line %d has no body" % toks[kw].line)

# ------------------------------------------------------------------------------------------------
# rewrites (token level).  Each returns the new token list and appends a note to `log`.

def T(kind, text, line):
    return Tok(kind, text, line)

def toks_of(text, line):
    ts = lex(text)
    for t in ts: t.line = line
    return ts

def drop_attributes(toks, log):
    out = []
    i = 0
    while i < len(toks):
        if P(toks[i], "#"):
            j = i + 1
            if j < len(toks) and P(toks[j], "!"): j += 1
            if j < len(toks) and P(toks[j], "["):
                c = match_close(toks, j)
                log.append(("R10", toks[i].line, "dropped attribute " + "".join(t.text for t in toks[i:c + 1])))
                i = c + 1
                continue
        out.append(toks[i]); i += 1
    return out

STMT_BOUND = {";", "{", "}"}

def stmt_start(toks, i):
    """index of the first token of the statement containing toks[i]"""
    j = i - 1
    while j >= 0:
        u = toks[j]
        if u.kind == "punct":
            if u.text in (")", "]", "}"):
                if u.text == "}":
                    return j + 1
                j = match_open(toks, j) - 1; continue
            if u.text in STMT_BOUND or u.text == "=>":
                return j + 1
            if u.text in ("(", "["):
                return j + 1
        j -= 1
    return 0

def stmt_end(toks, i):
    """index of the ';' ending the statement containing toks[i]"""
    j = i
    while j < len(toks):
        u = toks[j]
        if u.kind == "punct":
            if u.text in OPEN:
                j = match_close(toks, j) + 1; continue
            if u.text == ";":
                return j
            if u.text in CLOSE:
                raise Undecided("statement at line %d does not end with ';'" % toks[i].line)
        j += 1
    raise Undecided("statement at line %d does not end" % toks[i].line)

COMPOUND = {"+=": "+", "-=": "-", "*=": "*", "/=": "/"}

def r1_compound(toks, log):
    i = 0
    toks = list(toks)
    while i < len(toks):
        t = toks[i]
        if t.kind == "punct" and t.text in COMPOUND:
            s = stmt_start(toks, i)
            e = stmt_end(toks, i)
            lhs = toks[s:i]
            for u in lhs:
                if P(u, "(") and False:
                    pass
            rhs = toks[i + 1:e]
            ln = t.line
            new = lhs + [T("punct", "=", ln)] + [T(u.kind, u.text, u.line) for u in lhs] + \
                  [T("punct", COMPOUND[t.text], ln), T("punct", "(", ln)] + rhs + [T("punct", ")", ln)]
            log.append(("R1", ln, "compound assignment %s expanded" % t.text))
            toks[s:e] = new
            i = s + len(new)
            continue
        i += 1
    return toks

PREFIX_CTX = {"(", "[", "{", ",", ";", "=", "==", "!=", "+", "-", "*", "/", "<", ">", "<=", ">=", "&&", "||",
              "=>", "!", "|", "+=", "-=", "*=", "/=", "..", "&", "}", ":"}
PREFIX_KW = {"return", "in", "if", "else", "match", "while", "break"}

def postfix_end(toks, i):
    """toks[i] starts a primary expression; return index one past its postfix chain."""
    t = toks[i]
    j = i
    if t.kind == "punct" and t.text in ("(", "["):
        j = match_close(toks, i) + 1
    elif t.kind in ("id", "num", "str", "char"):
        j = i + 1
        # path
        while j + 1 < len(toks) and P(toks[j], "::") and toks[j + 1].kind == "id":
            j += 2
        # macro call
        if j < len(toks) and P(toks[j], "!") and j + 1 < len(toks) and toks[j + 1].kind == "punct" and toks[j + 1].text in OPEN:
            j = match_close(toks, j + 1) + 1
    elif t.kind == "punct" and t.text in ("-", "!", "*", "&"):
        return postfix_end(toks, i + 1)
    else:
        raise Undecided("cannot find operand at line %d (%r)" % (t.line, t.text))
    while j < len(toks):
        u = toks[j]
        if P(u, ".") and j + 1 < len(toks) and toks[j + 1].kind in ("id", "num"):
            j += 2
            # turbofish
            if j + 1 < len(toks) and P(toks[j], "::") and P(toks[j + 1], "<"):
                d = 0
                while j < len(toks):
                    if P(toks[j], "<"): d += 1
                    elif P(toks[j], ">"):
                        d -= 1
                        if d == 0: j += 1; break
                    j += 1
            continue
        if u.kind == "punct" and u.text in ("(", "["):
            j = match_close(toks, j) + 1; continue
        if P(u, "?"):
            j += 1; continue
        break
    return j

def postfix_start(toks, e):
    """toks[e-1] is the last token of a postfix expression; return the index of its first token."""
    j = e - 1
    while True:
        u = toks[j]
        if u.kind == "punct" and u.text in (")", "]"):
            o = match_open(toks, j)
            if o > 0 and (toks[o - 1].kind == "id" and toks[o - 1].text not in PREFIX_KW and toks[o - 1].text not in ("as",)
                          or (toks[o - 1].kind == "punct" and toks[o - 1].text in (")", "]", "?"))):
                j = o - 1; continue
            if o > 1 and P(toks[o - 1], "!") and toks[o - 2].kind == "id":
                j = o - 2; continue
            return o
        if P(u, "?"):
            j -= 1; continue
        if u.kind in ("id", "num", "str", "char"):
            if j > 0 and toks[j - 1].kind == "punct" and toks[j - 1].text in (".", "::"):
                j -= 2; continue
            return j
        raise Undecided("cannot find operand start at line %d" % u.line)

def r2_neg(toks, log, keep_literals=True):
    toks = list(toks)
    i = 0
    while i < len(toks):
        t = toks[i]
        if P(t, "-"):
            prev = toks[i - 1] if i > 0 else None
            prefix = prev is None or (prev.kind == "punct" and prev.text in PREFIX_CTX) or \
                     (prev.kind == "id" and prev.text in PREFIX_KW)
            if prefix:
                nxt = toks[i + 1]
                if nxt.kind == "num" and keep_literals:
                    # negative literal; but `-2.0.sqrt()`-like forms do not occur (checked: no '.' id follows)
                    i += 1; continue
                e = postfix_end(toks, i + 1)
                ln = t.line
                new = [T("id", "vneg", ln), T("punct", "(", ln)] + toks[i + 1:e] + [T("punct", ")", ln)]
                log.append(("R2", ln, "prefix negation -> vneg(...)"))
                toks[i:e] = new
                i += 2
                continue
        i += 1
    return toks

def r12_casts(toks, log, int_types=("usize", "isize", "i32", "u32", "i64", "u64")):
    """`e as Float|f64` -> to_f(e); `e as usize` on a float operand is configured via subst."""
    toks = list(toks)
    i = 0
    while i < len(toks):
        t = toks[i]
        if t.kind == "id" and t.text == "as" and i + 1 < len(toks) and toks[i + 1].kind == "id" and toks[i + 1].text in ("Float", "f64"):
            s = postfix_start(toks, i)
            ln = t.line
            new = [T("id", "to_f", ln), T("punct", "(", ln)] + toks[s:i] + [T("punct", ")", ln)]
            log.append(("R12", ln, "cast to float -> to_f(...)"))
            toks[s:i + 2] = new
            i = s + len(new)
            continue
        i += 1
    return toks

def r25_param_patterns(toks, log):
    """R25: a tuple pattern in a fn parameter `(i, j): T` becomes `p0_: T` plus `let (i, j) = p0_;` as the first
    statement of the body (Verus accepts only identifier patterns there; this is Rust's own meaning of the pattern)"""
    toks = list(toks)
    i = 0
    while i < len(toks):
        t = toks[i]
        if t.kind == "id" and t.text == "fn" and i + 1 < len(toks) and toks[i + 1].kind == "id":
            j = i + 2
            if P(toks[j], "<"):
                d = 0
                while True:
                    if P(toks[j], "<"): d += 1
                    elif P(toks[j], ">"):
                        d -= 1
                        if d == 0: j += 1; break
                    j += 1
            if not P(toks[j], "("):
                i += 1; continue
            c = match_close(toks, j)
            # split params
            params = []; cur = []; d = 0; ang = 0
            for k in range(j + 1, c):
                u = toks[k]
                if u.kind == "punct" and u.text in OPEN: d += 1
                elif u.kind == "punct" and u.text in CLOSE: d -= 1
                elif P(u, "<"): ang += 1
                elif P(u, ">"): ang -= 1
                if d == 0 and ang == 0 and P(u, ","):
                    params.append(cur); cur = []
                else:
                    cur.append((k, u))
            if cur: params.append(cur)
            lets = []
            edits = []
            for n_, prm in enumerate(params):
                if prm and P(prm[0][1], "("):
                    # pattern up to the matching ')' followed by ':'
                    k0 = prm[0][0]
                    kc = match_close(toks, k0)
                    if kc + 1 < len(toks) and P(toks[kc + 1], ":"):
                        name = "p%d_" % n_
                        edits.append((k0, kc, name))
                        lets.append((toks[k0:kc + 1], name))
            if edits:
                # body brace
                try:
                    bo, bc = body_range(toks, i, len(toks))
                except Undecided:
                    i = c; continue
                ln = toks[bo].line
                ins = []
                for (pat, name) in lets:
                    ins += [T("id", "let", ln)] + [T(u.kind, u.text, ln) for u in pat] + [T("punct", "=", ln), T("id", name, ln), T("punct", ";", ln)]
                    log.append(("R25", ln, "tuple pattern parameter -> %s + let" % name))
                toks[bo + 1:bo + 1] = ins
                for (k0, kc, name) in sorted(edits, reverse=True):
                    toks[k0:kc + 1] = [T("id", name, toks[k0].line)]
            i = c
        i += 1
    return toks

def named_return(toks, log, name="r"):
    """`fn f(..) -> T` becomes `fn f(..) -> (r: T)` so that `ensures` can name the result."""
    toks = list(toks)
    i = 0
    while i < len(toks):
        t = toks[i]
        if t.kind == "id" and t.text == "fn" and i + 1 < len(toks) and toks[i + 1].kind == "id":
            j = i + 2
            # generics
            if P(toks[j], "<"):
                d = 0
                while True:
                    if P(toks[j], "<"): d += 1
                    elif P(toks[j], ">"):
                        d -= 1
                        if d == 0: j += 1; break
                    elif P(toks[j], "->") : pass
                    j += 1
            if not P(toks[j], "("):
                i += 1; continue
            c = match_close(toks, j)
            if c + 1 < len(toks) and P(toks[c + 1], "->"):
                k = c + 2
                if P(toks[k], "(") and toks[k + 1].kind == "id" and P(toks[k + 2], ":"):
                    i = k; continue
                e = k
                d = 0
                while e < len(toks):
                    u = toks[e]
                    if u.kind == "punct" and u.text in ("(", "["):
                        e = match_close(toks, e) + 1; continue
                    if P(u, "<"): d += 1
                    elif P(u, ">"): d -= 1
                    elif d == 0 and (P(u, "{") or P(u, ";") or (u.kind == "id" and u.text == "where")):
                        break
                    e += 1
                ln = toks[k].line
                new = [T("punct", "(", ln), T("id", name, ln), T("punct", ":", ln)] + toks[k:e] + [T("punct", ")", ln)]
                toks[k:e] = new
                i = k + len(new)
                continue
            i = c
        i += 1
    return toks

def add_tracked(toks, log, fns, calls, param="Tracked(tr): Tracked<&mut Trace>", arg="Tracked(tr)"):
    """R11: ghost trace parameter on the listed fn definitions and argument on the listed calls."""
    toks = list(toks)
    i = 0
    while i < len(toks):
        t = toks[i]
        if t.kind == "id" and t.text == "fn" and toks[i + 1].kind == "id" and toks[i + 1].text in fns:
            j = i + 2
            if P(toks[j], "<"):
                d = 0
                while True:
                    if P(toks[j], "<"): d += 1
                    elif P(toks[j], ">"):
                        d -= 1
                        if d == 0: j += 1; break
                    j += 1
            c = match_close(toks, j)
            ln = toks[c].line
            ins = []
            if not P(toks[c - 1], ",") and c - 1 > j:
                ins.append(T("punct", ",", ln))
            ins += toks_of(param, ln)
            toks[c:c] = ins
            log.append(("R11", ln, "ghost parameter on fn " + toks[i + 1].text))
            i = c + len(ins)
            continue
        if t.kind == "id" and t.text in calls and i + 1 < len(toks) and P(toks[i + 1], "(") and \
                i > 0 and not (toks[i - 1].kind == "id" and toks[i - 1].text == "fn"):
            want = calls[t.text]
            isdot = i > 0 and P(toks[i - 1], ".")
            if (want == "method" and isdot) or (want == "free" and not isdot) or want == "any":
                c = match_close(toks, i + 1)
                ln = toks[c].line
                ins = []
                if not P(toks[c - 1], ",") and c - 1 > i + 1:
                    ins.append(T("punct", ",", ln))
                ins += toks_of(arg, ln)
                toks[c:c] = ins
                log.append(("R11", ln, "ghost argument on call " + t.text))
                i = c + len(ins)
                continue
        i += 1
    return toks

def r7_slice_copy(toks, log):
    """X[a..b].copy_from_slice(S) -> vslice_copy(&mut X, a, b, S)"""
    toks = list(toks)
    i = 0
    while i < len(toks):
        t = toks[i]
        if t.kind == "id" and t.text == "copy_from_slice" and P(toks[i - 1], ".") and P(toks[i - 2], "]"):
            o = match_open(toks, i - 2)
            inner = toks[o + 1:i - 2]
            # split at '..' depth 0
            d = 0; cut = None
            for k, u in enumerate(inner):
                if u.kind == "punct" and u.text in OPEN: d += 1
                elif u.kind == "punct" and u.text in CLOSE: d -= 1
                elif d == 0 and P(u, ".."): cut = k
            if cut is None:
                i += 1; continue
            s = postfix_start(toks, o)
            base = toks[s:o]
            a = inner[:cut]; b = inner[cut + 1:]
            c = match_close(toks, i + 1)
            argt = toks[i + 2:c]
            ln = t.line
            if not a: a = [T("num", "0", ln)]
            if not b:
                b = [T(u.kind, u.text, ln) for u in base] + toks_of(".len()", ln)
            new = toks_of("vslice_copy(&mut", ln) + base + [T("punct", ",", ln)] + a + [T("punct", ",", ln)] + b + \
                  [T("punct", ",", ln)] + argt + [T("punct", ")", ln)]
            toks[s:c + 1] = new
            log.append(("R7", ln, "range copy_from_slice -> vslice_copy"))
            i = s + len(new)
            continue
        i += 1
    return toks

def r9_index(toks, log, names, tuple_index=False, rule="R9"):
    """NAME[e] -> *NAME.index(e) / *NAME.index_mut(e) for the listed variables (Tolerance, Matrix).
    With tuple_index=True any `X[(a, b)]` is rewritten (Matrix is the only tuple-indexed type)."""
    toks = list(toks)
    i = 0
    while i < len(toks):
        t = toks[i]
        if P(t, "[") and i > 0:
            prev = toks[i - 1]
            is_tuple = P(toks[i + 1], "(") and match_close(toks, i + 1) == match_close(toks, i) - 1
            hit = False
            if tuple_index and is_tuple and (prev.kind == "id" or P(prev, ")") or P(prev, "]")):
                hit = True
            elif prev.kind == "id" and prev.text in names and not (i > 1 and P(toks[i - 2], ".")) :
                hit = True
            elif prev.kind == "id" and ("." + prev.text) in names and i > 1 and P(toks[i - 2], "."):
                hit = True
            if hit:
                c = match_close(toks, i)
                s = postfix_start(toks, i)
                base = toks[s:i]
                nxt = toks[c + 1] if c + 1 < len(toks) else None
                mut = nxt is not None and nxt.kind == "punct" and nxt.text in ("=", "+=", "-=", "*=", "/=")
                amp_mut = s >= 2 and toks[s - 1].kind == "id" and toks[s - 1].text == "mut" and P(toks[s - 2], "&")
                amp = s >= 1 and P(toks[s - 1], "&")
                ln = t.line
                meth = "index_mut" if (mut or amp_mut) else "index"
                call = base + toks_of("." + meth + "(", ln) + toks[i + 1:c] + [T("punct", ")", ln)]
                if amp_mut:
                    toks[s - 2:c + 1] = call; start = s - 2
                elif amp:
                    toks[s - 1:c + 1] = call; start = s - 1
                else:
                    # parenthesised so that a following method call / field access applies to the element
                    call = [T("punct", "(", ln), T("punct", "*", ln)] + call + [T("punct", ")", ln)]
                    toks[s:c + 1] = call; start = s
                log.append((rule, ln, "index -> %s call on %s" % (meth, "".join(u.text for u in base))))
                i = start + 1
                continue
        i += 1
    return toks

def subst(toks, log, rules):
    """token-sequence substitutions listed per unit: [pattern, replacement, (min_count)]"""
    toks = list(toks)
    for rule in rules:
        pat = lex(rule[0]); rep_text = rule[1]
        need = rule[2] if len(rule) > 2 else 1
        n = 0
        i = 0
        while i + len(pat) <= len(toks):
            if all(toks[i + k].text == pat[k].text for k in range(len(pat))):
                ln = toks[i].line
                new = toks_of(rep_text, ln)
                toks[i:i + len(pat)] = new
                n += 1
                log.append(("SUBST", ln, "%s -> %s" % (rule[0], rule[1])))
                i += len(new)
                continue
            i += 1
        SUBST_COUNTS[rule[0]] = SUBST_COUNTS.get(rule[0], 0) + n
        SUBST_NEED[rule[0]] = need
    return toks

SUBST_COUNTS = {}
SUBST_NEED = {}
FLOAT_LITS = set()

ITER_ADAPTERS = {"enumerate", "fold", "max_by", "cloned", "map", "filter", "collect", "take", "copied", "zip", "rev", "any", "all", "sum"}

def r15_unmodelled(toks, log):
    """R15 (havoc rule): `let PAT [: T] = <expression using an iterator adapter>;` becomes
    `let PAT [: T] = vx_unmodelled();` -- an arbitrary value of the declared type.  Over-approximation: what is proved
    holds for every value the statement could produce; the statement is listed in the evidence as unmodelled."""
    toks = list(toks)
    i = 0
    while i < len(toks):
        t = toks[i]
        if t.kind == "id" and t.text == "let":
            try:
                e = stmt_end(toks, i)
            except Undecided:
                i += 1; continue
            # find '=' at depth 0
            d = 0; eq = None
            for k in range(i + 1, e):
                u = toks[k]
                if u.kind == "punct" and u.text in OPEN: d += 1
                elif u.kind == "punct" and u.text in CLOSE: d -= 1
                elif d == 0 and P(u, "=") : eq = k; break
            if eq is not None:
                rhs = toks[eq + 1:e]
                hit = any(rhs[k].kind == "id" and rhs[k].text in ITER_ADAPTERS and k > 0 and P(rhs[k - 1], ".") and k + 1 < len(rhs) and P(rhs[k + 1], "(") for k in range(len(rhs)))
                # only top-level statements whose initialiser is a single method chain (no block bodies of their own)
                if hit and not any(P(u, "{") for u in rhs if True) :
                    ln = t.line
                    log.append(("R15", ln, "unmodelled iterator statement: " + " ".join(u.text for u in toks[i:e])[:160]))
                    toks[eq + 1:e] = toks_of("vx_unmodelled()", ln)
                    i = eq + 4
                    continue
        i += 1
    return toks

def r26_for_pairs(toks, log):
    """R26: `for (A, B) in X.iter().zip(Y.iter()) {`  ->  `for vx_k in 0 .. (min of the two lengths) { let A = &X[vx_k]; let B = &Y[vx_k];`
            `for (I, A) in X.iter().enumerate() {`   ->  `for I in 0 .. X.len() { let A = &X[I];`
    (shared-reference iteration over slices, arrays and vectors: same elements, same order, same bindings)"""
    toks = list(toks)
    i = 0
    n_k = 0
    while i < len(toks):
        t = toks[i]
        if t.kind == "id" and t.text == "for" and i + 1 < len(toks) and P(toks[i + 1], "("):
            pc = match_close(toks, i + 1)
            pat = toks[i + 2:pc]
            names = [u for u in pat if u.kind == "id"]
            if len(names) != 2 or len(pat) != 3 or not (pc + 1 < len(toks) and toks[pc + 1].text == "in"):
                i += 1; continue
            # the iterated expression runs to the `{` at depth 0
            j = pc + 2; d = 0
            while not (d == 0 and P(toks[j], "{")):
                if toks[j].kind == "punct" and toks[j].text in OPEN: d += 1
                elif toks[j].kind == "punct" and toks[j].text in CLOSE: d -= 1
                j += 1
            ex = toks[pc + 2:j]
            txt = [u.text for u in ex]
            ln = t.line
            A, B = names[0].text, names[1].text
            tail_enum = [".", "iter", "(", ")", ".", "enumerate", "(", ")"]
            if txt[-8:] == tail_enum and all(u.text not in ("{", "}") for u in ex[:-8]):
                X = ex[:-8]
                Xs = " ".join(u.text for u in X)
                new = toks_of("for %s in 0 .. %s . len ( ) { let %s = & %s [ %s ] ;" % (A, Xs, B, Xs, A), ln)
                toks[i:j + 1] = new
                log.append(("R26", ln, "for (%s, %s) in %s.iter().enumerate() -> index loop" % (A, B, Xs)))
                i += len(new); continue
            if len(txt) > 10 and txt[-1] == ")" and "zip" in txt:
                z = len(txt) - 1 - txt[::-1].index("zip")
                if txt[z - 5:z] == [".", "iter", "(", ")", "."] and P(ex[z + 1], "(") and match_close(ex, z + 1) == len(ex) - 1 and txt[-5:-1] == [".", "iter", "(", ")"]:
                    X = ex[:z - 5]; Y = ex[z + 2:len(ex) - 5]
                    Xs = " ".join(u.text for u in X); Ys = " ".join(u.text for u in Y)
                    k = "vx_k%d" % n_k; n_k += 1
                    new = toks_of("for %s in 0 .. ( if %s . len ( ) < %s . len ( ) { %s . len ( ) } else { %s . len ( ) } ) { let %s = & %s [ %s ] ; let %s = & %s [ %s ] ;"
                                  % (k, Xs, Ys, Xs, Ys, A, Xs, k, B, Ys, k), ln)
                    toks[i:j + 1] = new
                    log.append(("R26", ln, "for (%s, %s) in %s.iter().zip(%s.iter()) -> index loop" % (A, B, Xs, Ys)))
                    i += len(new); continue
        i += 1
    return toks

def r27_fold_max(toks, log):
    """R27: `let NAME = X.iter().cloned().fold(INIT, Float::max);`  ->
            `let mut NAME = INIT; for vx_f in 0 .. X.len() { NAME = NAME.max(X[vx_f]); }`
    (left fold of max over the elements in order: same operations, same order)"""
    toks = list(toks)
    i = 0
    while i < len(toks):
        t = toks[i]
        if t.kind == "id" and t.text == "let":
            try: e = stmt_end(toks, i)
            except Undecided:
                i += 1; continue
            txt = [u.text for u in toks[i:e + 1]]
            tail = [".", "iter", "(", ")", ".", "cloned", "(", ")", ".", "fold", "("]
            # let NAME = X . iter ( ) . cloned ( ) . fold ( INIT , Float :: max ) ;
            if len(txt) >= 19 and txt[2] == "=" and txt[-6:] == [",", "Float", "::", "max", ")", ";"]:
                k = None
                for j in range(3, len(txt) - len(tail)):
                    if txt[j:j + len(tail)] == tail: k = j; break
                if k is not None:
                    name = txt[1]; X = " ".join(txt[3:k]); init = " ".join(txt[k + len(tail):-6])
                    ln = t.line
                    new = toks_of("let mut %s : Float = %s ; for vx_f in 0 .. %s . len ( ) { %s = %s . max ( %s [ vx_f ] ) ; }" % (name, init, X, name, name, X), ln)
                    toks[i:e + 1] = new
                    log.append(("R27", ln, "fold(%s, Float::max) over %s -> loop" % (init, X)))
                    i += len(new); continue
        i += 1
    return toks

def r28_zip_map_collect(toks, log):
    """R28: `let NAME = A.into_iter().zip(B).map(|(X, Y)| EXPR).collect();`  ->
            `let mut NAME = Vec::new(); for vx_z in 0 .. (min of the two lengths) { let X = A[vx_z]; let Y = B[vx_z]; NAME.push(EXPR); }`
       R26c: `for (X, Y) in A.iter_mut().zip(B.iter()) { ... *X ... *Y ... }`  ->  index loop with `*X` read/written as `A[vx_z]`
    (element-wise traversal of two vectors in order, stopping at the shorter one)"""
    toks = list(toks)
    i = 0
    while i < len(toks):
        t = toks[i]
        if t.kind == "id" and t.text == "let":
            try: e = stmt_end(toks, i)
            except Undecided:
                i += 1; continue
            txt = [u.text for u in toks[i:e + 1]]
            # let NAME = A . into_iter ( ) . zip ( B ) . map ( | ( X , Y ) | EXPR ) . collect ( ) ;
            if len(txt) > 24 and txt[2] == "=" and txt[4:9] == [".", "into_iter", "(", ")", "."] and txt[9:11] == ["zip", "("] and txt[12:16] == [")", ".", "map", "("] \
               and txt[16:18] == ["|", "("] and txt[19] == "," and txt[21:23] == [")", "|"] and txt[-6:] == [")", ".", "collect", "(", ")", ";"]:
                name, A, B, X, Y = txt[1], txt[3], txt[11], txt[18], txt[20]
                expr = " ".join(txt[23:-6])
                ln = t.line
                new = toks_of("let mut %s = Vec :: new ( ) ; for vx_z in 0 .. ( if %s . len ( ) < %s . len ( ) { %s . len ( ) } else { %s . len ( ) } ) { let %s = %s [ vx_z ] ; let %s = %s [ vx_z ] ; %s . push ( %s ) ; }"
                              % (name, A, B, A, B, X, A, Y, B, name, expr), ln)
                toks[i:e + 1] = new
                log.append(("R28", ln, "%s.into_iter().zip(%s).map(..).collect() -> loop with push" % (A, B)))
                i += len(new); continue
            # let NAME = X . into_iter ( ) . map ( | V | EXPR ) . collect ( ) ;      (X: a place expression)
            if len(txt) > 14 and txt[2] == "=" and txt[-6:] == [")", ".", "collect", "(", ")", ";"] and "zip" not in txt:
                k = None
                for q in range(3, len(txt) - 8):
                    if txt[q:q + 8] == [".", "into_iter", "(", ")", ".", "map", "(", "|"] and txt[q + 9] == "|": k = q; break
                if k is not None and all(x not in ("(", "{") for x in txt[3:k]):
                    name, X, V = txt[1], " ".join(txt[3:k]), txt[k + 8]
                    expr = " ".join(txt[k + 10:-6])
                    ln = t.line
                    new = toks_of("let vx_src = %s ; let mut %s = Vec :: new ( ) ; for vx_z in 0 .. vx_src . len ( ) { let %s = vx_src [ vx_z ] ; %s . push ( %s ) ; }" % (X, name, V, name, expr), ln)
                    toks[i:e + 1] = new
                    log.append(("R28", ln, "%s.into_iter().map(..).collect() -> loop with push" % X))
                    i += len(new); continue
        if t.kind == "id" and t.text == "for" and i + 1 < len(toks) and P(toks[i + 1], "("):
            pc = match_close(toks, i + 1)
            pat = [u.text for u in toks[i + 2:pc]]
            j = pc + 1
            hdr = []
            while j < len(toks) and not P(toks[j], "{"):
                hdr.append(toks[j].text); j += 1
            # for ( X , Y ) in A . iter_mut ( ) . zip ( B . iter ( ) ) {
            zi = None
            for q in range(2, len(hdr) - 6):
                if hdr[q:q + 7] == [".", "iter_mut", "(", ")", ".", "zip", "("]: zi = q; break
            if len(pat) == 3 and pat[1] == "," and hdr and hdr[0] == "in" and zi is not None and hdr[-5:] == [".", "iter", "(", ")", ")"] and "{" not in hdr:
                X, Y, A, B = pat[0], pat[2], " ".join(hdr[1:zi]), " ".join(hdr[zi + 7:-5])
                bc = match_close(toks, j)
                body = toks[j + 1:bc]
                nb = []
                k = 0
                while k < len(body):
                    if P(body[k], "*") and k + 1 < len(body) and body[k + 1].kind == "id" and body[k + 1].text in (X, Y) and (k == 0 or not (body[k - 1].kind in ("id", "num") or body[k - 1].text in (")", "]"))):
                        src = A if body[k + 1].text == X else B
                        nb += toks_of("%s [ vx_z ]" % src, body[k].line); k += 2
                    elif body[k].kind == "id" and body[k].text == Y and not (k > 0 and P(body[k - 1], ".")):
                        # the shared reference used as a value (`coeff * y` with y: &f64): the element itself
                        nb += toks_of("%s [ vx_z ]" % B, body[k].line); k += 1
                    else:
                        nb.append(body[k]); k += 1
                ln = t.line
                head = toks_of("for vx_z in 0 .. ( if %s . len ( ) < %s . len ( ) { %s . len ( ) } else { %s . len ( ) } ) {" % (A, B, A, B), ln)
                toks[i:bc] = head + nb
                log.append(("R26", ln, "for (%s, %s) in %s.iter_mut().zip(%s.iter()) -> index loop" % (X, Y, A, B)))
                i += len(head); continue
        i += 1
    return toks

def r29_all_and_ref_for(toks, log):
    """R29: `let NAME = X.iter().all(|&V| EXPR);`  ->  `let mut NAME = true; for vx_a in 0 .. X.len() { let V = X[vx_a]; if !(EXPR) { NAME = false; break; } }`
       R26d: `for &V in X {`  ->  `for vx_r in 0 .. X.len() { let V = X[vx_r];`
    (the same elements in the same order; `all` stops at the first element that fails, as the loop does)"""
    toks = list(toks)
    i = 0
    while i < len(toks):
        t = toks[i]
        if t.kind == "id" and t.text == "let":
            try: e = stmt_end(toks, i)
            except Undecided:
                i += 1; continue
            txt = [u.text for u in toks[i:e + 1]]
            # let NAME = X . iter ( ) . all ( | & V | EXPR ) ;
            if len(txt) > 15 and txt[2] == "=" and txt[4:11] == [".", "iter", "(", ")", ".", "all", "("] and txt[11:13] == ["|", "&"] and txt[14] == "|" and txt[-2:] == [")", ";"]:
                name, X, V = txt[1], txt[3], txt[13]
                expr = " ".join(txt[15:-2])
                ln = t.line
                new = toks_of("let mut %s = true ; for vx_a in 0 .. %s . len ( ) { let %s = %s [ vx_a ] ; if ! ( %s ) { %s = false ; break ; } }" % (name, X, V, X, expr, name), ln)
                toks[i:e + 1] = new
                log.append(("R29", ln, "%s.iter().all(..) -> loop" % X))
                i += len(new); continue
        # for V in & mut X { ... * V ... }   (X: a place expression without braces)
        if t.kind == "id" and t.text == "for" and i + 5 < len(toks) and toks[i + 1].kind == "id" and toks[i + 2].text == "in" and P(toks[i + 3], "&") and toks[i + 4].text == "mut":
            j = i + 5
            while j < len(toks) and not P(toks[j], "{") and toks[j].text not in ("(", ";"): j += 1
            if j < len(toks) and P(toks[j], "{") and j > i + 5:
                V = toks[i + 1].text
                X = " ".join(u.text for u in toks[i + 5:j])
                bc = match_close(toks, j)
                body = toks[j + 1:bc]
                nb = []; k = 0
                while k < len(body):
                    if P(body[k], "*") and k + 1 < len(body) and body[k + 1].kind == "id" and body[k + 1].text == V and (k == 0 or not (body[k - 1].kind in ("id", "num") or body[k - 1].text in (")", "]"))):
                        nb += toks_of("%s [ vx_m ]" % X, body[k].line); k += 2
                    else:
                        nb.append(body[k]); k += 1
                ln = t.line
                head = toks_of("for vx_m in vx_mi : 0 .. %s . len ( ) {" % X, ln)
                toks[i:bc] = head + nb
                log.append(("R26", ln, "for %s in &mut %s -> index loop" % (V, X)))
                i += len(head); continue
        # for & V in & PLACE {   (PLACE: a place expression such as `cols` or `s.col_to_rows[c]`)  ->  index loop with a named iterator
        if t.kind == "id" and t.text == "for" and i + 6 < len(toks) and P(toks[i + 1], "&") and toks[i + 2].kind == "id" and toks[i + 3].text == "in" and P(toks[i + 4], "&") and toks[i + 5].text != "mut":
            j = i + 5
            while j < len(toks) and not P(toks[j], "{") and toks[j].text not in ("(", ";"):
                if toks[j].text == "[": j = match_close(toks, j)
                j += 1
            if j < len(toks) and P(toks[j], "{") and j > i + 5:
                V = toks[i + 2].text
                X = " ".join(u.text for u in toks[i + 5:j])
                ln = t.line
                new = toks_of("for vx_r_%s in vx_it_%s : 0 .. %s . len ( ) { let %s = %s [ vx_r_%s ] ;" % (V, V, X, V, X, V), ln)
                toks[i:j + 1] = new
                log.append(("R26", ln, "for &%s in &%s -> index loop" % (V, X)))
                i += len(new); continue
        if t.kind == "id" and t.text == "for" and i + 4 < len(toks) and P(toks[i + 1], "&") and toks[i + 2].kind == "id" and toks[i + 3].text == "in" and toks[i + 4].kind == "id" and P(toks[i + 5], "{"):
            V, X = toks[i + 2].text, toks[i + 4].text
            ln = t.line
            new = toks_of("for vx_r in 0 .. %s . len ( ) { let %s = %s [ vx_r ] ;" % (X, V, X), ln)
            toks[i:i + 6] = new
            log.append(("R26", ln, "for &%s in %s -> index loop" % (V, X)))
            i += len(new); continue
        i += 1
    return toks

def r30_mut_self(toks, log):
    """R30: `fn f(mut self, ..) { BODY }`  ->  `fn f(self, ..) { let mut vx_self = self; BODY[self := vx_self] }`
    (Verus has no `mut self` parameters; the by-value receiver is moved into a mutable local)"""
    toks = list(toks)
    i = 0
    while i < len(toks) - 4:
        if toks[i].kind == "id" and toks[i].text == "fn" and P(toks[i + 2], "(") and toks[i + 3].text == "mut" and toks[i + 4].text == "self":
            ln = toks[i].line
            del toks[i + 3]
            pc = match_close(toks, i + 2)
            j = pc
            while not P(toks[j], "{"): j += 1
            bc = match_close(toks, j)
            for k in range(j + 1, bc):
                if toks[k].kind == "id" and toks[k].text == "self":
                    toks[k] = T("id", "vx_self", toks[k].line)
            toks[j + 1:j + 1] = toks_of("let mut vx_self = self ;", toks[j].line)
            log.append(("R30", ln, "mut self receiver -> local vx_self"))
        i += 1
    return toks

def r31_enum_take_mut(toks, log):
    """R31: `for (I, ROW) in X.iter_mut().enumerate().take(N) { .. ROW .. }`  ->
            `for I in 0 .. (min of X.len() and N) { .. X[I] .. }`   (ROW is the I-th element, borrowed mutably)"""
    toks = list(toks)
    i = 0
    while i < len(toks):
        t = toks[i]
        if t.kind == "id" and t.text == "for" and i + 1 < len(toks) and P(toks[i + 1], "("):
            pc = match_close(toks, i + 1)
            pat = [u.text for u in toks[i + 2:pc]]
            j = pc + 1; hdr = []
            while j < len(toks) and not P(toks[j], "{"):
                hdr.append(toks[j]); j += 1
            ht = [u.text for u in hdr]
            tail = [".", "iter_mut", "(", ")", ".", "enumerate", "(", ")", ".", "take", "("]
            if len(pat) == 3 and pat[1] == "," and len(ht) > 14 and ht[0] == "in" and ht[2:13] == tail and ht[-1] == ")":
                I, ROW, X = pat[0], pat[2], ht[1]
                N = " ".join(ht[13:-1])
                bc = match_close(toks, j)
                body = toks[j + 1:bc]
                nb = []
                for u in body:
                    if u.kind == "id" and u.text == ROW: nb += toks_of("%s [ %s ]" % (X, I), u.line)
                    else: nb.append(u)
                ln = t.line
                head = toks_of("for %s in 0 .. ( if %s . len ( ) < %s { %s . len ( ) } else { %s } ) {" % (I, X, N, X, N), ln)
                toks[i:bc] = head + nb
                log.append(("R31", ln, "for (%s, %s) in %s.iter_mut().enumerate().take(%s) -> index loop" % (I, ROW, X, N)))
                i += len(head); continue
        i += 1
    return toks

def r32_for_continue(toks, log):
    """R32: inside a `for` body,  `if C { continue; } REST`  ->  `if !(C) { REST }`
    (Verus has no `continue` in for-loops; skipping the rest of the body is the same as guarding it)"""
    toks = list(toks)
    changed = True
    while changed:
        changed = False
        i = 0
        while i < len(toks):
            if toks[i].kind == "id" and toks[i].text == "for":
                j = i + 1
                while j < len(toks) and not P(toks[j], "{"):
                    if toks[j].kind == "punct" and toks[j].text in ("(", "["): j = match_close(toks, j) + 1
                    else: j += 1
                if j >= len(toks): break
                bc = match_close(toks, j)
                k = j + 1
                while k < bc:
                    u = toks[k]
                    if u.kind == "punct" and u.text in OPEN:
                        k = match_close(toks, k) + 1; continue
                    if u.kind == "id" and u.text == "if":
                        # condition up to the `{` at depth 0
                        c = k + 1
                        while not P(toks[c], "{"):
                            if toks[c].kind == "punct" and toks[c].text in ("(", "["): c = match_close(toks, c) + 1
                            else: c += 1
                        ce = match_close(toks, c)
                        inner = [x.text for x in toks[c + 1:ce]]
                        if inner == ["continue", ";"] and not (ce + 1 < len(toks) and toks[ce + 1].text == "else"):
                            ln = u.line
                            cond = toks[k + 1:c]
                            rest = toks[ce + 1:bc]
                            new = [T("id", "if", ln), T("punct", "!", ln), T("punct", "(", ln)] + cond + [T("punct", ")", ln), T("punct", "{", ln)] + rest + [T("punct", "}", ln)]
                            toks[k:bc] = new
                            log.append(("R32", ln, "if .. { continue; } -> guarded rest of the for body"))
                            changed = True
                            break
                        k = ce + 1; continue
                    k += 1
                if changed: break
            i += 1
    return toks

def r5_local_const(toks, log):
    """fn-local `const N: T = e;` -> `let N: T = e;` (applied to fn bodies only)"""
    toks = list(toks)
    depth = 0
    for i, t in enumerate(toks):
        if t.kind == "punct" and t.text == "{": depth += 1
        elif t.kind == "punct" and t.text == "}": depth -= 1
        elif depth >= 1 and t.kind == "id" and t.text == "const" and toks[i + 1].kind == "id" and P(toks[i + 2], ":"):
            t.text = "let"
            log.append(("R5", t.line, "local const %s -> let" % toks[i + 1].text))
    return toks

def r16_assert_eq(toks, log):
    toks = list(toks)
    i = 0
    while i < len(toks):
        t = toks[i]
        if t.kind == "id" and t.text in ("assert_eq", "debug_assert_eq") and P(toks[i + 1], "!"):
            o = i + 2; c = match_close(toks, o)
            args = split_commas(toks[o + 1:c])
            ln = t.line
            new = toks_of("assert!(", ln) + args[0] + [T("punct", "==", ln)] + args[1] + [T("punct", ")", ln)]
            toks[i:c + 1] = new
            log.append(("R16", ln, "assert_eq -> assert(a == b), message dropped"))
            i += len(new); continue
        if t.kind == "id" and t.text == "panic" and P(toks[i + 1], "!"):
            o = i + 2; c = match_close(toks, o)
            if c > o + 1:
                ln = t.line
                new = toks_of("panic!()", ln)
                toks[i:c + 1] = new
                log.append(("R16", ln, "panic message dropped (same panic condition)"))
                i += len(new); continue
        if t.kind == "id" and t.text in ("assert", "debug_assert") and P(toks[i + 1], "!"):
            o = i + 2; c = match_close(toks, o)
            args = split_commas(toks[o + 1:c])
            if len(args) > 1:
                ln = t.line
                new = toks_of("assert!(", ln) + args[0] + [T("punct", ")", ln)]
                toks[i:c + 1] = new
                log.append(("R16", ln, "assert message dropped"))
                i += len(new); continue
        i += 1
    return toks

def split_commas(toks):
    out = [[]]
    d = 0
    for t in toks:
        if t.kind == "punct" and t.text in OPEN: d += 1
        elif t.kind == "punct" and t.text in CLOSE: d -= 1
        if d == 0 and P(t, ","):
            out.append([]); continue
        out[-1].append(t)
    if out and not out[-1]: out.pop()
    return out

# ---- consts --------------------------------------------------------------------------------------

def const_items(toks):
    """-> list of (name, type_text, expr_tokens, line) for module-level `const X: T = e;`"""
    out = []
    for (s, kw, e) in split_items(toks, 0, len(toks)):
        if toks[kw].text == "const" and toks[kw + 1].kind == "id" and P(toks[kw + 2], ":"):
            name = toks[kw + 1].text
            j = kw + 3
            while not P(toks[j], "="): j += 1
            ty = " ".join(u.text for u in toks[kw + 3:j])
            out.append((name, ty, toks[j + 1:e - 1], toks[kw].line))
    return out

def const_lines(consts, world, log, stem="c"):
    """R4: `const X: Float = e;` -> spec handle X_s() (in a module of its own, so that generated axiom
    modules can refer to it) + opaque exec const whose value is that handle"""
    lines = []
    ln0 = consts[0][3] if consts else 0
    lines.append(("pub mod cdefs_%s { use vstd::prelude::*;" % stem, ln0))
    INT = ("usize", "isize", "u8", "u16", "u32", "u64", "i8", "i16", "i32", "i64")
    for (name, ty, expr, ln) in consts:
        if ty in ("Float", "f64"):
            lines.append(("pub uninterp spec fn %s_s() -> %s;" % (name, "f64"), ln))
    lines.append(("}", ln0))
    lines.append(("pub use cdefs_%s::*;" % stem, ln0))
    for (name, ty, expr, ln) in consts:
        etext = " ".join(t for (t, _) in layout(expr)).strip() if expr else ""
        etext = " ".join(etext.split())
        if ty in INT:
            # integer constants are kept verbatim (Verus evaluates them)
            lines.append(("pub const %s: %s = %s;" % (name, ty, etext), ln))
            continue
        if ty not in ("Float", "f64"):
            # any other constant (arrays of floats): opaque value of the declared type
            lines.append(("#[verifier::external_body] exec const %s: %s ensures true { %s }" % (name, ty, etext), ln))
            log.append(("R4", ln, "const %s -> opaque exec const (no spec handle)" % name))
            continue
        lines.append(("#[verifier::external_body] exec const %s: %s ensures %s == %s_s() { %s }" % (name, ty, name, name, etext), ln))
        log.append(("R4", ln, "const %s -> opaque exec const with spec handle %s_s()" % (name, name)))
    return lines

# ------------------------------------------------------------------------------------------------
# extraction of one take

def apply_rewrites(toks, cfg, log):
    toks = drop_attributes(toks, log)
    if cfg.get("subst_pre"):
        toks = subst(toks, log, cfg["subst_pre"])
    toks = r16_assert_eq(toks, log)
    toks = r31_enum_take_mut(toks, log)
    toks = r27_fold_max(toks, log)
    toks = r28_zip_map_collect(toks, log)
    toks = r29_all_and_ref_for(toks, log)
    toks = r30_mut_self(toks, log)
    toks = r32_for_continue(toks, log)
    if cfg.get("unmodelled"):
        toks = r15_unmodelled(toks, log)
    toks = r26_for_pairs(toks, log)
    toks = r7_slice_copy(toks, log)
    if cfg.get("tolerance_vars"):
        toks = r9_index(toks, log, set(cfg["tolerance_vars"]), rule="R9")
    if cfg.get("matrix_index"):
        toks = r9_index(toks, log, set(cfg.get("matrix_vars", [])), tuple_index=True, rule="R8")
    toks = r1_compound(toks, log)
    if cfg.get("tolerance_vars") or cfg.get("matrix_index"):
        # R1 duplicated the place expression: the copy on the right-hand side must read, not write
        toks = fix_rhs_index_mut(toks)
    if cfg.get("neg", True):
        toks = r2_neg(toks, log)
    if cfg.get("casts", True):
        toks = r12_casts(toks, log)
    toks = r5_local_const(toks, log) if cfg.get("local_const", True) else toks
    toks = r25_param_patterns(toks, log)
    toks = named_return(toks, log)
    tr = cfg.get("tracked")
    if tr:
        toks = add_tracked(toks, log, set(tr.get("fns", [])), tr.get("calls", {}))
    if cfg.get("subst"):
        toks = subst(toks, log, cfg["subst"])
    return toks

def fix_rhs_index_mut(toks):
    """after R1, `*a.index_mut(i) = *a.index_mut(i) op (..)`: the right-hand copy becomes index()"""
    i = 0
    while i < len(toks):
        t = toks[i]
        if t.kind == "id" and t.text == "index_mut" and P(toks[i - 1], "."):
            c = match_close(toks, i + 1)
            nxt = toks[c + 1] if c + 1 < len(toks) else None
            nxt2 = toks[c + 2] if c + 2 < len(toks) else None
            assigned = (nxt is not None and P(nxt, "=")) or (nxt is not None and P(nxt, ")") and nxt2 is not None and P(nxt2, "="))
            if not assigned:
                s = postfix_start(toks, i - 1)
                if s > 0 and P(toks[s - 1], "*"):
                    t.text = "index"
        i += 1
    return toks

def read_tokens(repo, path, cache={}):
    full = os.path.join(repo, path)
    key = (full, os.path.getmtime(full), os.path.getsize(full))
    if key not in cache:
        try:
            src = open(full, encoding="utf-8").read()
        except OSError as e:
            raise Undecided("cannot read %s: %s" % (path, e))
        try:
            cache[key] = lex(src)
        except LexError as e:
            raise Undecided("cannot lex %s: %s" % (path, e))
    return [Tok(t.kind, t.text, t.line) for t in cache[key]]

def parse_take(arg):
    """`<path> <selector> [:: fn1 fn2 ...] [| key=val ...]`"""
    opts = {}
    if "|" in arg:
        arg, o = arg.split("|", 1)
        for kv in o.split():
            k, _, v = kv.partition("=")
            opts[k] = v or True
    parts = arg.split(None, 1)
    path = parts[0]
    sel = parts[1].strip()
    members = None
    if " :: " in sel + " ":
        pass
    m = re.match(r"^(.*?)\s+::\s+(.*)$", sel)
    if m:
        sel = m.group(1).strip(); members = m.group(2).split()
    return path, sel, members, opts

def find_seq(toks, pat, lo, hi, occ=0):
    n = 0
    for i in range(lo, hi - len(pat) + 1):
        if all(toks[i + k].text == pat[k].text for k in range(len(pat))):
            if n == occ: return i
            n += 1
    return None

def extract_region(repo, path, spec, cfg, world, log):
    """`#take <file> region {json}`: a run of consecutive statements of a function body, verbatim, wrapped into a
    function of its own whose signature (and optional prologue / result expression) the contract supplies.
    {"in": "impl X :: f", "from": "<tokens of the first statement's start>", "from_occ": k,
     "to": "<tokens ending the last statement>" | "to_before": "<tokens starting the statement after the region>",
     "sig": "fn name(params) -> (r: T)", "pre": "let ...;", "post": "expr"}"""
    toks = read_tokens(repo, path)
    sel = spec["in"]
    m = re.match(r"^(.*?)\s+::\s+(\w+)$", sel)
    if m:
        (s, kw, e) = find_item(toks, 0, len(toks), m.group(1))
        bo, bc = body_range(toks, kw, e)
        (fs, fk, fe) = find_item(toks, bo + 1, bc, "fn " + m.group(2))
    else:
        (fs, fk, fe) = find_item(toks, 0, len(toks), sel)
    fbo, fbc = body_range(toks, fk, fe)
    a = find_seq(toks, lex(spec["from"]), fbo + 1, fbc, spec.get("from_occ", 0))
    if a is None:
        raise Undecided("region start %r not found in %s" % (spec["from"], sel))
    if "to_before" in spec:
        b = find_seq(toks, lex(spec["to_before"]), a, fbc, spec.get("to_occ", 0))
        if b is None: raise Undecided("region end %r not found" % spec["to_before"])
        end = b
    else:
        pat = lex(spec["to"])
        b = find_seq(toks, pat, a, fbc, spec.get("to_occ", 0))
        if b is None: raise Undecided("region end %r not found" % spec["to"])
        end = b + len(pat)
    region = toks[a:end]
    ln = toks[a].line
    item = toks_of(spec["sig"], ln) + [T("punct", "{", ln)] + toks_of(spec.get("pre", ""), ln) + region + toks_of(spec.get("post", ""), toks[end - 1].line) + [T("punct", "}", toks[end - 1].line)]
    log.append(("REGION", ln, "statements %d..%d of %s wrapped into `%s`" % (toks[a].line, toks[end - 1].line, sel, spec["sig"][:80])))
    c = dict(cfg)
    item = apply_rewrites(item, c, log)
    from . import gen as _gen
    for u in item:
        if u.kind == "num" and _gen.is_float_lit(u.text):
            FLOAT_LITS.add(u.text)
    return layout(item)

def extract_take(repo, arg, cfg, world, log):
    """-> list of (text, srcline) canonical lines for one #take directive"""
    mreg = re.match(r"^(\S+)\s+region\s+(\{.*\})\s*$", arg)
    if mreg:
        return extract_region(repo, mreg.group(1), json.loads(mreg.group(2)), cfg, world, log)
    path, sel, members, opts = parse_take(arg)
    toks = read_tokens(repo, path)
    if sel == "consts":
        cs = const_items(toks)
        only = opts.get("only")
        if only:
            names = set(only.split(","))
            cs = [c for c in cs if c[0] in names]
        if not cs:
            raise Undecided("no module-level consts in %s" % path)
        return const_lines(cs, world, log, path.rsplit('/', 1)[-1].rsplit('.', 1)[0])
    (s, kw, e) = find_item(toks, 0, len(toks), sel)
    item = toks[s:e]
    kwrel = kw - s
    if members is not None:
        bo, bc = body_range(item, kwrel, len(item))
        picked = []
        sigonly = set()
        for name in members:
            if name.endswith("!"):
                name = name[:-1]; sigonly.add(name)
            (ms, mk, me) = find_item(item, bo + 1, bc, "fn " + name)
            picked.append((ms, me))
        if sigonly and not opts.get("sigs"):
            segs = []
            for (ms, me), name in zip(picked, [m_.rstrip("!") for m_ in members]):
                seg = item[ms:me]
                if name in sigonly:
                    mk = next(k for k, u in enumerate(seg) if u.kind == "id" and u.text == "fn")
                    try:
                        o, c2 = body_range(seg, mk, len(seg))
                        seg = seg[:o] + [T("punct", ";", seg[o].line)]
                    except Undecided:
                        pass
                segs.append(seg)
            item = item[:bo + 1] + [u for seg in segs for u in seg] + item[bc:]
            picked = None
        if picked is None:
            pass
        elif opts.get("sigs"):
            # signatures only: each picked member's body is replaced by ';'
            segs = []
            for (ms, me) in picked:
                seg = item[ms:me]
                mk = next(k for k, u in enumerate(seg) if u.kind == "id" and u.text == "fn")
                try:
                    o, c2 = body_range(seg, mk, len(seg))
                    seg = seg[:o] + [T("punct", ";", seg[o].line)]
                except Undecided:
                    pass
                segs.append(seg)
            if opts.get("bare"):
                item = [u for seg in segs for u in seg]
            else:
                item = item[:bo + 1] + [u for seg in segs for u in seg] + item[bc:]
        elif opts.get("bare"):
            new = []
            for (ms, me) in picked: new += item[ms:me]
            item = new
        else:
            new = item[:bo + 1]
            for (ms, me) in sorted(picked): new += item[ms:me]
            new += item[bc:]
            item = new
    c = dict(cfg)
    for k, v in opts.items():
        if k in ("neg", "casts", "local_const"):
            c[k] = (v not in ("0", "false", "off"))
    item = apply_rewrites(item, c, log)
    from . import gen as _gen
    for u in item:
        if u.kind == "num" and _gen.is_float_lit(u.text):
            FLOAT_LITS.add(u.text)
    if opts.get("trusted"):
        item = make_trusted(item, log)
    if opts.get("pubfields"):
        item = pub_fields(item, log)
    if opts.get("ghostfield"):
        item = ghost_field(item, log)
    if opts.get("ghostlit"):
        item = ghost_lit(item, log, set(str(opts["ghostlit"]).split(",")))
    if opts.get("as_inherent"):
        # R8/R9: `impl Index<..> for T { type Output = ..; fn index(..) }` -> `impl T { fn index(..) }`
        item = as_inherent(item, log)
    return layout(item)

def make_trusted(toks, log):
    """`| trusted`: the signature of every fn in the item is kept (so it is re-read from /repo on every run) but its body
    is replaced by `unimplemented!()` under #[verifier::external_body]; the woven contract is then an ASSUMED contract
    (proved in the unit that owns the function, or trusted when no unit does) -- listed as such in the evidence."""
    toks = list(toks)
    i = 0
    while i < len(toks):
        t = toks[i]
        if t.kind == "id" and t.text == "fn" and i + 1 < len(toks) and toks[i + 1].kind == "id":
            # start of this fn item: walk back over `pub`, `pub(crate)`, `const`
            s0 = i
            while s0 > 0 and ((toks[s0 - 1].kind == "id" and toks[s0 - 1].text in ("pub", "const", "unsafe")) or P(toks[s0 - 1], ")")):
                if P(toks[s0 - 1], ")"):
                    s0 = match_open(toks, s0 - 1)
                else:
                    s0 -= 1
            try:
                bo, bc = body_range(toks, i, len(toks))
            except Undecided:
                i += 1; continue
            ln = toks[bo].line
            toks[bo:bc + 1] = toks_of("{ unimplemented!() }", ln)
            attr = toks_of("#[verifier::external_body]", toks[s0].line)
            toks[s0:s0] = attr
            log.append(("TRUSTED", ln, "body of fn %s replaced by unimplemented!() (assumed contract)" % toks[i + len(attr) + 1].text))
            i = i + len(attr) + 2
            continue
        i += 1
    return toks

def pub_fields(toks, log):
    """R22: private struct fields are made `pub` (one verification file = one module; Verus treats a
    struct with private fields as opaque in the contracts of pub fns)"""
    toks = list(toks)
    i = next(k for k, u in enumerate(toks) if u.kind == "id" and u.text == "struct")
    # `pub(crate) struct` / private struct -> `pub struct`
    if i >= 1 and P(toks[i - 1], ")"):
        o = match_open(toks, i - 1)
        log.append(("R22", toks[i].line, "pub(crate) struct made pub"))
        toks[o:i] = []
        i = o
    elif i == 0 or not (toks[i - 1].kind == "id" and toks[i - 1].text == "pub"):
        toks[i:i] = [T("id", "pub", toks[i].line)]; i += 1
        log.append(("R22", toks[i].line, "private struct made pub"))
    bo, bc = body_range(toks, i, len(toks))
    j = bo + 1
    first = True
    out = toks[:bo + 1]
    d = 0
    while j < bc:
        u = toks[j]
        if first and u.kind == "id" and u.text != "pub":
            out.append(T("id", "pub", u.line)); log.append(("R22", u.line, "field %s made pub" % u.text))
        first = False
        if u.kind == "punct" and u.text in OPEN: d += 1
        elif u.kind == "punct" and u.text in CLOSE: d -= 1
        elif d == 0 and P(u, "<"): d += 0
        out.append(u)
        if d == 0 and P(u, ","):
            # generic commas inside <...> : track angle depth crudely
            ang = 0
            for v in out[bo + 1:]:
                if P(v, "<"): ang += 1
                elif P(v, ">"): ang -= 1
            if ang == 0: first = True
        j += 1
    return out + toks[bc:]

def ghost_field(toks, log):
    """R19: a struct none of whose fields carries a Verus type invariant gets `pub ty_: Ghost<usize>`
    (Verus quirk: an f64 read out of such a struct lacks its typing fact; the ghost field is erased)"""
    toks = list(toks)
    i = next(k for k, u in enumerate(toks) if u.kind == "id" and u.text == "struct")
    bo, bc = body_range(toks, i, len(toks))
    ln = toks[bc].line
    ins = []
    if not P(toks[bc - 1], ","): ins.append(T("punct", ",", ln))
    ins += toks_of("pub ty_: Ghost<usize>,", ln)
    toks[bc:bc] = ins
    log.append(("R19", ln, "ghost field ty_ added to struct " + toks[i + 1].text))
    return toks

def ghost_lit(toks, log, names):
    """R19: struct literals `Name { .. }` (Name in names; `Self` included when listed) get `ty_: Ghost(0)`"""
    toks = list(toks)
    i = 0
    while i < len(toks):
        t = toks[i]
        if t.kind == "id" and t.text in names and i + 1 < len(toks) and P(toks[i + 1], "{") and \
                not (i > 0 and toks[i - 1].kind == "id" and toks[i - 1].text in ("struct", "impl", "for", "enum", "trait")) and \
                not (i > 0 and P(toks[i - 1], ">")):
            c = match_close(toks, i + 1)
            # a literal has `ident :` or `ident ,` or `ident }` right after the brace; an impl body does not start so
            nxt = toks[i + 2]
            if nxt.kind == "id" and (P(toks[i + 3], ":") or P(toks[i + 3], ",") or P(toks[i + 3], "}")):
                ln = toks[c].line
                ins = []
                if not P(toks[c - 1], ","): ins.append(T("punct", ",", ln))
                ins += toks_of("ty_: Ghost(0),", ln)
                toks[c:c] = ins
                log.append(("R19", ln, "ty_: Ghost(0) added to a %s literal" % t.text))
                i = c + len(ins)
                continue
        i += 1
    return toks

def as_inherent(toks, log):
    # impl <Trait> for <Type> { ... }  ->  impl <Type> { ... } and drop `type X = ..;` members
    i = 0
    while not (toks[i].kind == "id" and toks[i].text == "impl"): i += 1
    j = i + 1
    gen = []
    if P(toks[j], "<"):
        d = 0; g0 = j
        while True:
            if P(toks[j], "<"): d += 1
            elif P(toks[j], ">"):
                d -= 1
                if d == 0: j += 1; break
            j += 1
        gen = toks[g0:j]
    k = j
    while not (toks[k].kind == "id" and toks[k].text == "for"): k += 1
    bo, bc = body_range(toks, i, len(toks))
    ty = toks[k + 1:bo]
    body = toks[bo + 1:bc]
    new_body = []
    for (s, kw, e) in split_items(body, 0, len(body)):
        if body[kw].text == "type":
            log.append(("R8", body[kw].line, "associated type dropped (inherent impl)")); continue
        seg = body[s:e]
        # make fns pub
        a = kw - s          # attributes (e.g. the external_body of a trusted take) stay in front of `pub`
        attrs, rest = seg[:a], seg[a:]
        new_body += attrs + ([T("id", "pub", rest[0].line)] + rest if not (rest[0].kind == "id" and rest[0].text == "pub") else rest)
    log.append(("R8", toks[i].line, "trait impl -> inherent impl (requires on trait impl methods unsupported)"))
    return toks[:i + 1] + gen + ty + [toks[bo]] + new_body + toks[bc:]

# ------------------------------------------------------------------------------------------------
# vspec parsing, weaving, freezing

MARK = " //~"

class Section:
    def __init__(self, kind, arg=None):
        self.kind = kind       # raw | take | include | directive
        self.arg = arg
        self.lines = []        # raw: [text]; take: [(is_spec, text)]

def parse_vspec(path):
    secs = []
    meta = {"config": {}, "unit": os.path.basename(path).rsplit(".", 1)[0], "world": "A"}
    cur = None
    for ln, line in enumerate(open(path, encoding="utf-8").read().split("\n"), 1):
        if line.startswith("#take "):
            cur = Section("take", line[6:].strip()); secs.append(cur); continue
        if line.startswith("#endtake"):
            cur = None; continue
        if line.startswith("#include "):
            secs.append(Section("include", line[9:].strip())); cur = None; continue
        if line.startswith("#unit "):
            meta["unit"] = line[6:].strip(); continue
        if line.startswith("#world "):
            meta["world"] = line[7:].strip(); continue
        if line.startswith("#config "):
            meta["config"].update(json.loads(line[8:])); continue
        if line.startswith("#gen "):
            secs.append(Section("gen", line[5:].strip())); cur = None; continue
        if line.startswith("#use "):
            secs.append(Section("use", line[5:].strip())); cur = None; continue
        if line.startswith("##"):
            continue
        if cur is not None and cur.kind == "take":
            if line.startswith("+"):
                cur.lines.append((True, line[1:]))
            elif line.startswith(" "):
                cur.lines.append((False, line[1:]))
            elif line == "":
                continue
            else:
                raise Undecided("%s:%d: line in take section must start with '+' or ' '" % (path, ln))
        else:
            if line.startswith("+"):
                if not secs or secs[-1].kind != "raw" or cur is not secs[-1]:
                    cur = Section("raw"); secs.append(cur)
                cur.lines.append(line[1:])
            elif line.strip() == "":
                continue
            else:
                raise Undecided("%s:%d: unrecognised line %r" % (path, ln, line[:40]))
    return meta, secs

def norm_line(s):
    return " ".join(s.split())

def transplant(frozen, fresh, where):
    """frozen: [(is_spec, text)], fresh: [(text, srcline)] -> [(kind, text, srcline)] kind in code|spec.
    Spec blocks are re-attached by aligning the frozen anchor lines with the fresh lines."""
    anchors = [norm_line(t) for (sp, t) in frozen if not sp]
    freshn = [norm_line(t) for (t, _) in fresh]
    # blocks[k] = spec lines that sit before anchor k (k == len(anchors): at the end)
    blocks = {}
    k = 0
    for (sp, t) in frozen:
        if sp: blocks.setdefault(k, []).append(t)
        else: k += 1
    if anchors == freshn:
        pos = {k: k for k in blocks}
    else:
        sm = difflib.SequenceMatcher(None, anchors, freshn, autojunk=False)
        a2b = {}
        for tag, i1, i2, j1, j2 in sm.get_opcodes():
            if tag == "equal":
                for d in range(i2 - i1): a2b[i1 + d] = j1 + d
            elif tag == "replace" and (i2 - i1) == (j2 - j1):
                for d in range(i2 - i1): a2b[i1 + d] = j1 + d
        pos = {}
        for k in blocks:
            # a block sits between anchor k-1 and anchor k
            if k - 1 >= 0 and (k - 1) in a2b:
                pos[k] = a2b[k - 1] + 1
            elif k in a2b:
                pos[k] = a2b[k]
            elif k == 0:
                pos[k] = 0
            elif k == len(anchors):
                pos[k] = len(fresh)
            else:
                raise Undecided("lost anchor in %s near frozen line %r" % (where, anchors[min(k, len(anchors) - 1)]))
    out = []
    byidx = {}
    for k, p in pos.items():
        byidx.setdefault(p, []).append(k)
    for j in range(len(fresh) + 1):
        for k in sorted(byidx.get(j, [])):
            for t in blocks[k]:
                out.append(("spec", t, None))
        if j < len(fresh):
            out.append(("code", fresh[j][0], fresh[j][1]))
    return out

def expand_uses(secs, verif_root, depth=0):
    out = []
    for sec in secs:
        if sec.kind == "use":
            p = os.path.join(verif_root, sec.arg)
            m2, s2 = parse_vspec(p)
            b = Section("usebegin", sec.arg); b.cfg = m2["config"]
            out.append(b)
            for s in expand_uses(s2, verif_root, depth + 1):
                s.origin = getattr(s, "origin", None) or sec.arg
                s.cfg = getattr(s, "cfg", None) if getattr(s, "cfg", None) is not None else m2["config"]
                out.append(s)
            out.append(Section("useend", sec.arg))
        else:
            out.append(sec)
    return out

def weave(vspec_path, repo, verif_root):
    """-> (text, linemap, info).  linemap[i] (0-based generated line) = dict(kind, src, line, tags)"""
    meta, secs = parse_vspec(vspec_path)
    secs = expand_uses(secs, verif_root)
    SUBST_COUNTS.clear(); SUBST_NEED.clear(); FLOAT_LITS.clear()
    cfg = meta["config"]
    world = meta["world"]
    out = []
    lmap = []
    log = []
    takes = []
    def emit(text, **kw):
        out.append(text); lmap.append(kw)
    emit("//#unit " + meta["unit"], kind="dir")
    emit("//#world " + world, kind="dir")
    if cfg:
        emit("//#config " + json.dumps(cfg, sort_keys=True), kind="dir")
    # pass 1: extract every take (generated sections may depend on what was extracted)
    for sec in secs:
        if sec.kind == "take":
            sublog = []
            scfg = dict(cfg)
            if getattr(sec, "cfg", None): scfg.update(sec.cfg)
            sec.fresh = extract_take(repo, sec.arg, scfg, world, sublog)
            sec.sublog = sublog
    ctx = {"float_lits": set(FLOAT_LITS)}
    use_depth = 0
    for sec in secs:
        origin = getattr(sec, "origin", None) or os.path.basename(vspec_path)
        if sec.kind == "usebegin":
            if use_depth == 0: emit("//#use " + sec.arg, kind="dir")
            use_depth += 1
        elif sec.kind == "useend":
            use_depth -= 1
            if use_depth == 0: emit("//#enduse", kind="dir")
        elif sec.kind == "raw":
            for t in sec.lines: emit(t, kind="spec", src=origin)
        elif sec.kind == "include":
            p = os.path.join(verif_root, sec.arg)
            emit("//#include " + sec.arg, kind="dir")
            for t in open(p, encoding="utf-8").read().split("\n"):
                emit(t, kind="prelude", src=sec.arg)
            emit("//#endinclude", kind="dir")
        elif sec.kind == "gen":
            from . import gen
            emit("//#gen " + sec.arg, kind="dir")
            for t in gen.generate(sec.arg, repo, meta, log, ctx):
                emit(t, kind="gen", src="gen:" + sec.arg)
            emit("//#endgen", kind="dir")
        elif sec.kind == "take":
            path = sec.arg.split()[0]
            fresh = sec.fresh
            log += [(r, path, ln, msg) for (r, ln, msg) in sec.sublog]
            emit(("//#take " if use_depth == 0 else "//#utake ") + sec.arg, kind="dir")
            woven = transplant(sec.lines, fresh, sec.arg)
            ncode = 0
            for (kind, t, ln) in woven:
                if kind == "code":
                    emit(t + MARK + str(ln), kind="code", src=path, line=ln); ncode += 1
                else:
                    emit(t, kind="spec", src=origin)
            emit("//#endtake" if use_depth == 0 else "//#endutake", kind="dir")
            takes.append({"take": sec.arg, "file": path, "code_lines": ncode,
                          "first_line": min([l for (_, l) in fresh]) if fresh else 0,
                          "last_line": max([l for (_, l) in fresh]) if fresh else 0,
                          "sha": hashlib.sha256("\n".join(t for (t, _) in fresh).encode()).hexdigest()[:16],
                          "spec_lines": sum(1 for (k, _, _) in woven if k == "spec")})
    for k, need in SUBST_NEED.items():
        if SUBST_COUNTS.get(k, 0) < need:
            raise Undecided("substitution %r expected >= %d matches in the unit, found %d" % (k, need, SUBST_COUNTS.get(k, 0)))
    # tags
    assign_tags(out, lmap)
    return "\n".join(out) + "\n", lmap, {"meta": meta, "rewrites": log, "takes": takes}

TAG_RE = re.compile(r"//\s*\[([A-Za-z0-9_ ,]+)\]\s*([A-Za-z0-9_.\-]*)")

def assign_tags(lines, lmap):
    """a contract line may end with `// [C18 C19] clause.id`; the tag belongs to that line only (a
    diagnostic is attributed through every line its spans cover)."""
    for i, (t, m) in enumerate(zip(lines, lmap)):
        if m.get("kind") not in ("spec", "prelude", "gen"):
            continue
        mm = TAG_RE.search(t)
        if mm:
            m["tags"] = mm.group(1).replace(",", " ").split(); m["clause"] = mm.group(2) or None

def freeze(work_path, vspec_path, repo, verif_root, check=True):
    """turn an edited, Verus-runnable work file back into a vspec.  Lines carrying the //~ marker are
    extracted code (they must be exactly what extraction produces now); every other line inside a
    take is contract text."""
    text = open(work_path, encoding="utf-8").read().split("\n")
    old_meta, _ = parse_vspec(vspec_path) if os.path.exists(vspec_path) else ({"config": {}, "unit": "", "world": "A"}, [])
    out = []
    header = []
    i = 0
    mode = None
    n = len(text)
    # header directives survive via comments in the work file
    while i < n:
        line = text[i]
        if line.startswith("//#unit "): out.append("#unit " + line[8:]); i += 1; continue
        if line.startswith("//#world "): out.append("#world " + line[9:]); i += 1; continue
        if line.startswith("//#config "): out.append("#config " + line[10:]); i += 1; continue
        if line.startswith("//#include "):
            out.append("#include " + line[11:])
            i += 1
            while not text[i].startswith("//#endinclude"): i += 1
            i += 1; continue
        if line.startswith("//#use "):
            out.append("#use " + line[7:])
            i += 1
            while not text[i].startswith("//#enduse"): i += 1
            i += 1; continue
        if line.startswith("//#gen "):
            out.append("#gen " + line[7:])
            i += 1
            while not text[i].startswith("//#endgen"): i += 1
            i += 1; continue
        if line.startswith("//#take "):
            arg = line[8:]
            out.append("#take " + arg)
            i += 1
            sec = []
            while not text[i].startswith("//#endtake"):
                sec.append(text[i]); i += 1
            i += 1
            code = []
            for s in sec:
                if MARK in s:
                    body = s[:s.rindex(MARK)]
                    out.append(" " + body); code.append(norm_line(body))
                else:
                    if s.strip() == "" : continue
                    out.append("+" + s)
            out.append("#endtake")
            # check against a fresh extraction
            meta = {"config": {}}
            for o in out:
                if o.startswith("#config "): meta["config"].update(json.loads(o[8:]))
            world = "A"
            for o in out:
                if o.startswith("#world "): world = o[7:].strip()
            fresh = [norm_line(t) for (t, _) in extract_take(repo, arg, meta["config"], world, [])]
            if check and fresh != code:
                d = list(difflib.unified_diff(fresh, code, "extracted-from-repo", "work-file", lineterm="", n=1))
                raise Undecided("work file's code lines differ from the extraction for take %r:\n%s" % (arg, "\n".join(d[:40])))
            continue
        if line.strip() == "":
            i += 1; continue
        out.append("+" + line)
        i += 1
    open(vspec_path, "w", encoding="utf-8").write("\n".join(out) + "\n")
