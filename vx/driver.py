"""check driver: weave -> verus -> obligation map -> verdict per property -> evidence."""
import hashlib, json, os, re, subprocess, sys, time, concurrent.futures, shutil
from . import core

ROOT = os.path.dirname(os.path.dirname(os.path.abspath(__file__)))
REPO = os.environ.get("VERIF_REPO", "/repo")
BUILD = os.path.join(ROOT, "build")
CACHE = os.path.join(BUILD, "cache")

SEMANTIC = [
    "postcondition not satisfied", "invariant not satisfied", "precondition not satisfied",
    "assertion failed", "possible arithmetic underflow/overflow", "possible division by zero",
    "decreases not satisfied", "could not prove termination", "possible bit shift underflow/overflow",
    "unreachable", "cannot show invariant holds", "assertion not satisfied", "panic",
    "constructed value may fail to meet its declared type invariant", "may fail to meet",
]
RESOURCE = ["rlimit", "resource limit", "timed out", "timeout"]

def verus_version():
    try:
        out = subprocess.run(["verus", "--version"], capture_output=True, text=True).stdout
        m = re.search(r"Version: (\S+)", out)
        return m.group(1) if m else out.strip()[:60]
    except OSError:
        return "verus-missing"

_VV = None
def vv():
    global _VV
    if _VV is None: _VV = verus_version()
    return _VV

def registry():
    return json.load(open(os.path.join(ROOT, "registry.json")))

def run_verus(path, rlimit=None, threads=None, timeout=900):
    cmd = ["verus", path, "--multiple-errors", "60", "--error-format=json", "--output-json", "--time"]
    if rlimit: cmd += ["--rlimit", str(rlimit)]
    if threads: cmd += ["--num-threads", str(threads)]
    t0 = time.time()
    try:
        p = subprocess.run(cmd, capture_output=True, text=True, timeout=timeout, cwd=os.path.dirname(path))
        out, err, rc = p.stdout, p.stderr, p.returncode
    except subprocess.TimeoutExpired as e:
        return {"timeout": True, "wall_s": time.time() - t0, "diags": [], "summary": None, "raw_err": "timeout after %ds" % timeout, "rc": -1}
    diags = []
    raw = []
    for l in err.split("\n"):
        l = l.strip()
        if l.startswith("{"):
            try:
                d = json.loads(l)
            except ValueError:
                raw.append(l); continue
            if d.get("level") in ("error", "error: internal compiler error"):
                diags.append({"message": d.get("message", ""), "rendered": d.get("rendered", ""),
                              # spans in other files (vstd's own specifications, e.g. the index precondition of Vec) are not lines of the unit
                              "spans": [{"l0": s["line_start"], "l1": s["line_end"], "primary": s["is_primary"], "label": s.get("label")}
                                        for s in d.get("spans", []) if os.path.basename(s.get("file_name", "")) == os.path.basename(path)],
                              "children": [c.get("message", "") for c in d.get("children", [])]})
        elif l:
            raw.append(l)
    summary = None
    try:
        o = json.loads(out)
        summary = {"results": o.get("verification-results"), "times": {k: v for k, v in o.get("times-ms", {}).items() if not isinstance(v, (dict, list))},
                   "smt_ms": (o.get("times-ms", {}).get("smt") or {}).get("total") if isinstance(o.get("times-ms", {}).get("smt"), dict) else None,
                   "funcs": []}
        for m in (o.get("times-ms", {}).get("smt", {}) or {}).get("smt-run-module-times", []) or []:
            for f in m.get("function-breakdown", []):
                summary["funcs"].append({"function": f.get("function"), "success": f.get("success"), "time_ms": f.get("time"), "rlimit": f.get("rlimit")})
    except ValueError:
        pass
    return {"timeout": False, "wall_s": time.time() - t0, "diags": diags, "summary": summary, "raw_err": "\n".join(raw)[-4000:], "rc": rc}

def classify(msg):
    m = msg.lower()
    if m.startswith("aborting due to"): return "noise"
    for r in RESOURCE:
        if r in m: return "resource"
    for s in SEMANTIC:
        if s in m: return "semantic"
    return "other"

import threading
WEAVE_LOCK = threading.Lock()

def run_unit(name, thorough=False, use_cache=True):
    """-> dict: status ok|failed|undecided, failures [...], tags, info"""
    vspec = os.path.join(ROOT, "contracts", name + ".vspec")
    os.makedirs(CACHE, exist_ok=True)
    try:
        with WEAVE_LOCK:      # vx keeps per-weave counters in module state
            text, lmap, info = core.weave(vspec, REPO, ROOT)
    except core.Undecided as e:
        return {"unit": name, "status": "undecided", "reason": "extraction: " + str(e), "failures": [], "clauses": [], "info": None}
    except Exception as e:   # a bug in vx must never look like a violation
        return {"unit": name, "status": "undecided", "reason": "vx internal error: %r" % (e,), "failures": [], "clauses": [], "info": None}
    reg = {u["name"]: u for u in registry()["units"]}.get(name, {})
    from . import bridges
    bridge_notes, bridge_bad = bridges.check(name)
    if bridge_bad:     # an assumed contract that no longer matches the proved one decides nothing
        return {"unit": name, "status": "undecided", "reason": "; ".join(bridge_bad), "failures": [], "clauses": [], "info": None}
    info = dict(info or {}); info["bridges"] = bridge_notes
    rlimit = reg.get("rlimit")
    if thorough and rlimit: rlimit = rlimit * 4
    if thorough and not rlimit: rlimit = 40
    key = hashlib.sha256((text + "\0" + vv() + "\0" + str(rlimit)).encode()).hexdigest()[:24]
    built = os.path.join(BUILD, name + ".rs")
    open(built, "w").write(text)
    json.dump({"map": lmap, "info": info}, open(built + ".map.json", "w"))
    cpath = os.path.join(CACHE, name + "." + key + ".json")
    res = None
    if use_cache and not thorough and os.path.exists(cpath):
        try:
            res = json.load(open(cpath)); res["cached"] = True
        except ValueError:
            res = None
    if res is None:
        res = run_verus(built, rlimit=rlimit, timeout=reg.get("timeout", 900))
        res["cached"] = False
        if not res["timeout"]:
            json.dump(res, open(cpath, "w"))
    lines = text.split("\n")
    # clause inventory
    clauses = []
    for i, m in enumerate(lmap):
        if m.get("tags"):
            clauses.append({"line": i + 1, "tags": m["tags"], "clause": m.get("clause"), "text": lines[i].strip()[:200], "src": m.get("src")})
    out = {"unit": name, "info": info, "clauses": clauses, "wall_s": res["wall_s"], "cached": res.get("cached", False),
           "summary": res["summary"], "failures": [], "vacuity_expected": 0, "vacuity_seen": 0, "key": key}
    if res["timeout"]:
        out["status"] = "undecided"; out["reason"] = "verus timeout"; return out
    vac_lines = {c["line"] for c in clauses if "vacuity" in c["tags"]}
    out["vacuity_expected"] = len(vac_lines)
    vac_hit = set()
    others = []
    for d in res["diags"]:
        kind = classify(d["message"])
        if kind == "noise": continue
        tags = []; clause_ids = []; spec_span = False; code_refs = []
        # a span that covers a whole block ("at the end of the function body", a loop body) names no clause:
        # only spans of at most three lines take part in the attribution
        for s in d["spans"]:
            # (a multi-line contract clause is a span of spec lines only and does take part)
            if s["l1"] - s["l0"] > 2 and len(d["spans"]) > 1 and (s["l1"] - s["l0"] > 12 or any(1 <= ln <= len(lmap) and lmap[ln - 1].get("kind") == "code" for ln in range(s["l0"], s["l1"] + 1))): continue
            for ln in range(s["l0"], s["l1"] + 1):
                if 1 <= ln <= len(lmap):
                    m = lmap[ln - 1]
                    if m.get("kind") == "code":
                        code_refs.append("%s:%s" % (m.get("src"), m.get("line")))
                    elif m.get("kind") in ("spec", "prelude", "gen"):
                        spec_span = True
                        if m.get("tags"):
                            tags += m["tags"]
                            if m.get("clause"): clause_ids.append(m["clause"])
        # a must-fail probe is hit only by an `assertion failed` whose own (single-line) span is the probe line
        if "vacuity" in tags and d["message"].strip() == "assertion failed" and any(s["l0"] == s["l1"] and s["l0"] in vac_lines for s in d["spans"]):
            for s in d["spans"]:
                if s["l0"] == s["l1"] and s["l0"] in vac_lines: vac_hit.add(s["l0"])
            continue
        if "vacuity" in tags:
            tags = [t for t in tags if t != "vacuity"]
            clause_ids = [c for c in clause_ids if not c.startswith("vac.")]
        if kind == "semantic" and not tags:
            tags = ["support"] if spec_span else ["C04"]
            if not spec_span:
                clause_ids = ["safety.code@" + (sorted(set(code_refs))[0] if code_refs else "?")]
            else:
                first = None
                for s in d["spans"]:
                    if 1 <= s["l0"] <= len(lmap) and lmap[s["l0"] - 1].get("kind") in ("spec", "prelude", "gen"):
                        first = lines[s["l0"] - 1].strip(); break
                clause_ids = ["support:" + (first or "?")[:60]]
        f = {"kind": kind, "message": d["message"], "tags": sorted(set(tags)), "clauses": sorted(set(clause_ids)),
             "code": sorted(set(code_refs))[:6], "spans": d["spans"], "rendered": d["rendered"][-3000:]}
        out["failures"].append(f)
    out["vacuity_seen"] = len(vac_hit)
    nonsem = [f for f in out["failures"] if f["kind"] != "semantic"]
    sem = [f for f in out["failures"] if f["kind"] == "semantic"]
    if nonsem and sem and len(vac_hit) == len(vac_lines):
        # a clause refuted by the solver stays refuted when another query of the same run ran out of resources
        out["failures"] = sem
        out["status"] = "failed"
        out["note"] = "another query of this run hit a resource limit: " + nonsem[0]["message"][:200]
    elif nonsem:
        out["status"] = "undecided"
        out["reason"] = "verifier reported a non-semantic error: " + nonsem[0]["message"][:300]
    elif res["summary"] is None or res["summary"]["results"] is None:
        out["status"] = "undecided"; out["reason"] = "no verification summary (verus crashed?): " + res["raw_err"][-500:]
    elif len(vac_hit) != len(vac_lines):
        out["status"] = "undecided"
        out["reason"] = "vacuity guard: %d of %d must-fail probes verified (contradictory contract or axioms)" % (len(vac_lines) - len(vac_hit), len(vac_lines))
    elif res["summary"]["results"].get("verified", 0) + res["summary"]["results"].get("errors", 0) == 0:
        out["status"] = "undecided"; out["reason"] = "zero functions checked"
    elif out["failures"]:
        out["status"] = "failed"
    else:
        out["status"] = "ok"
    return out

def units_for(prop, tier):
    reg = registry()
    out = []
    for u in reg["units"]:
        if prop in u.get("properties", []) and (tier == "thorough" or u.get("tier", "quick") == "quick"):
            out.append(u["name"])
    return out

def load_known():
    p = os.path.join(ROOT, "known_findings.json")
    if os.path.exists(p):
        return json.load(open(p))
    return {"findings": [], "fixed": []}

def scan_assumptions(unit_results):
    """mechanical scan of the generated files for every trusted construct"""
    found = {}
    pat = re.compile(r"\b(assume_specification|external_body|assume\s*\(|admit\s*\(|axiom fn|external_fn_specification|external_type_specification|uninterp spec fn)")
    for r in unit_results:
        p = os.path.join(BUILD, r["unit"] + ".rs")
        if not os.path.exists(p): continue
        for ln, line in enumerate(open(p).read().split("\n"), 1):
            s = line.strip()
            if s.startswith("//"): continue
            for m in pat.finditer(s):
                k = m.group(1).split("(")[0].strip()
                found.setdefault(k, []).append("%s:%d: %s" % (r["unit"], ln, s[:110]))
    return found

def check_property(prop, tier="quick", seed=0, jobs=4):
    t0 = time.time()
    names = units_for(prop, tier)
    known = load_known()
    results = []
    with concurrent.futures.ThreadPoolExecutor(max_workers=jobs) as ex:
        futs = {ex.submit(run_unit, n, tier == "thorough"): n for n in names}
        for fu in concurrent.futures.as_completed(futs):
            results.append(fu.result())
    results.sort(key=lambda r: names.index(r["unit"]))
    # extra engines (kani lemma base, coefficient lemmas, in-place kani) hook in here
    from . import engines
    extra = engines.run_for(prop, tier, seed)
    violations = []; known_hits = []; undecided = []
    obligations = 0; discharged = 0
    samples = []
    functions = []
    for r in results:
        if r["status"] == "undecided":
            undecided.append("%s: %s" % (r["unit"], r.get("reason")))
            continue
        mine = [c for c in r["clauses"] if prop in c["tags"]]
        failed_lines = set()
        for f in r["failures"]:
            relevant = prop in f["tags"] or ("support" in f["tags"])
            if not relevant: continue
            cid = (f["clauses"] or ["?"])[0]
            kf = [k for k in known["findings"] if k["property"] == prop and k["unit"] == r["unit"] and k["clause"] in f["clauses"]]
            if kf:
                known_hits.append((kf[0], f)); continue
            violations.append((r["unit"], f))
        nfail = len([f for f in r["failures"] if prop in f["tags"] or "support" in f["tags"]])
        # an obligation tagged only for other properties fails in this unit: after a failed assertion the verifier assumes it, so the
        # clauses of this property in the same unit are proved only relative to it -- the unit is undecided for this property
        # (exit 2, and the check falls back to the scenarios mapped to the unit), never reported as OK
        foreign = [f for f in r["failures"] if not (prop in f["tags"] or "support" in f["tags"])]
        if foreign and nfail == 0:
            undecided.append("%s: an obligation of another property fails in this unit (%s): its clauses for %s hold only relative to it" % (r["unit"], ((foreign[0].get("clauses") or ["?"])[0])[:80], prop))
        obligations += len(mine)
        discharged += max(0, len(mine) - nfail)
        if prop == "C04" and r["summary"]:
            # Verus' own per-function safety queries (bounds, overflow, unwrap, panic-freedom, termination)
            fs = r["summary"]["funcs"]
            obligations += len(fs)
            discharged += len(fs) if r["status"] == "ok" else sum(1 for f in fs if f["success"])
        for c in mine[:3]:
            samples.append({"unit": r["unit"], "clause": c["clause"], "text": c["text"]})
        if r["info"]:
            for t in r["info"]["takes"]:
                functions.append({"unit": r["unit"], "take": t["take"], "lines": [t["first_line"], t["last_line"]], "sha": t["sha"], "contract_lines": t["spec_lines"]})
    for e in extra:
        if e["status"] == "undecided": undecided.append("%s: %s" % (e["name"], e.get("reason")))
        obligations += e.get("obligations", 0); discharged += e.get("discharged", 0)
        samples += e.get("samples", [])[:3]
        for v in e.get("violations", []):
            kf = [k for k in known["findings"] if k["property"] == prop and k["unit"] == e["name"] and k["clause"] == v.get("clause")]
            if kf: known_hits.append((kf[0], v))
            else: violations.append((e["name"], v))
    wall = time.time() - t0
    assumptions = scan_assumptions(results)
    return {"prop": prop, "tier": tier, "seed": seed, "units": results, "extra": extra, "violations": violations, "known_hits": known_hits,
            "undecided": undecided, "obligations": obligations, "discharged": discharged, "samples": samples,
            "functions": functions, "wall_s": wall, "assumption_scan": assumptions}
