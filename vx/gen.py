"""generated sections (#gen directives).

world_r <consts-file> ... : World-R axioms that depend on the text of /repo
    - for every module-level `const X: Float = <expr>;` of the listed files: R(X_s()) == <exact rational
      of the expression, literals read as decimal fractions> and the two linear product axioms
    - for every float literal occurring in the code extracted for this unit: R(lit) == <exact rational>
      and the two linear product axioms
  They are regenerated from the current tree on every run, so a changed constant changes its axiom
  (and fails the order-condition lemmas of the coef units, which read the same text).
"""
import re
from fractions import Fraction
from . import core
from .lexer import lex

def lit_value(text):
    t = text.replace("_", "")
    m = re.match(r"^([0-9]*\.?[0-9]*(?:[eE][+-]?[0-9]+)?)(f64|f32)?$", t)
    if not m or not m.group(1) or not re.search(r"[0-9]", m.group(1)):
        return None
    try:
        return Fraction(m.group(1))
    except (ValueError, ZeroDivisionError):
        return None

def is_float_lit(text):
    t = text.replace("_", "")
    if t.endswith("f64") or t.endswith("f32"): return True
    if re.match(r"^[0-9]+$", t): return False
    return bool(re.match(r"^[0-9]*\.[0-9]*([eE][+-]?[0-9]+)?$|^[0-9]+[eE][+-]?[0-9]+$|^[0-9]+\.$", t))

def eval_const(toks):
    """exact rational value of a const initialiser made of literals, + - * / and parentheses"""
    pos = [0]
    def peek(): return toks[pos[0]].text if pos[0] < len(toks) else None
    def take():
        pos[0] += 1; return toks[pos[0] - 1]
    def atom():
        t = take()
        if t.text == "(":
            v = expr()
            if take().text != ")": raise core.Undecided("const expression: missing ')'")
            return v
        if t.text == "-": return -atom()
        if t.kind == "num":
            v = lit_value(t.text)
            if v is None:
                v = Fraction(int(t.text.replace("_", "")))
            return v
        raise core.Undecided("const expression: unsupported token %r" % t.text)
    def term():
        v = atom()
        while peek() in ("*", "/"):
            op = take().text
            w = atom()
            v = v * w if op == "*" else v / w
        return v
    def expr():
        v = term()
        while peek() in ("+", "-"):
            op = take().text
            w = term()
            v = v + w if op == "+" else v - w
        return v
    v = expr()
    if pos[0] != len(toks):
        raise core.Undecided("const expression: trailing tokens")
    return v

def real(fr):
    if fr < 0:
        return "(0real - %dreal / %dreal)" % (-fr.numerator, fr.denominator)
    return "(%dreal / %dreal)" % (fr.numerator, fr.denominator)

def spec_lit(text):
    t = text.replace("_", "")
    if t.endswith("f64"): return t
    if t.endswith("f32"): return t[:-3] + "f64"
    return t + "f64"

def generate(arg, repo, meta, log, ctx):
    parts = arg.split()
    kind = parts[0]
    if kind == "world_r":
        return gen_world_r(parts[1:], repo, ctx, log)
    if kind == "bon_builder":
        return gen_bon_builder(parts[1], parts[2], repo, log)
    raise core.Undecided("unknown generator %r" % kind)

def gen_world_r(files, repo, ctx, log):
    out = []
    names = []
    uses = []
    out.append("pub mod genr { use vstd::prelude::*; use vstd::std_specs::ops::*; use super::fdefs::*;")
    for path in files:
        stem = path.rsplit("/", 1)[-1].rsplit(".", 1)[0]
        out.append("use super::cdefs_%s::*;" % stem)
        toks = core.read_tokens(repo, path)
        divisors = {toks[i + 1].text for i in range(len(toks) - 1) if toks[i].text == "/" and toks[i + 1].kind == "id"}
        for (name, ty, expr, ln) in core.const_items(toks):
            if ty not in ("Float", "f64"): continue
            v = eval_const(expr)
            out.append("pub broadcast axiom fn ax_%s() ensures R(#[trigger] %s_s()) == %s;" % (name, name, real(v)))
            out.append("pub broadcast axiom fn cl_%s(b: f64) ensures R(#[trigger] %s_s().mul_spec(b)) == %s * R(b);" % (name, name, real(v)))
            out.append("pub broadcast axiom fn cr_%s(b: f64) ensures R(#[trigger] b.mul_spec(%s_s())) == R(b) * %s;" % (name, name, real(v)))
            names += ["ax_" + name, "cl_" + name, "cr_" + name]
            if v != 0 and name in divisors:   # only for constants the source divides by (`/ NAME`)
                out.append("pub broadcast axiom fn cd_%s(a: f64) ensures R(#[trigger] a.div_spec(%s_s())) == R(a) / %s;" % (name, name, real(v)))
                names.append("cd_" + name)
            log.append(("GEN", path, ln, "World-R axioms for const %s = %s" % (name, v)))
    lits = sorted(ctx.get("float_lits", set()))
    seen = {}
    k = 0
    for text in lits:
        v0 = lit_value(text)
        if v0 is None: continue
        for neg in (False, True):
            if neg and v0 == 0: continue
            v = -v0 if neg else v0
            sl = ("(-" + spec_lit(text) + ")") if neg else spec_lit(text)
            if sl in seen: continue
            seen[sl] = v
            k += 1
            out.append("pub broadcast axiom fn lit_l_%d(b: f64) ensures R(#[trigger] %s.mul_spec(b)) == %s * R(b);" % (k, sl, real(v)))
            out.append("pub broadcast axiom fn lit_r_%d(b: f64) ensures R(#[trigger] b.mul_spec(%s)) == R(b) * %s;" % (k, sl, real(v)))
            names += ["lit_l_%d" % k, "lit_r_%d" % k]
            if v != 0:
                out.append("pub broadcast axiom fn lit_d_%d(a: f64) ensures R(#[trigger] a.div_spec(%s)) == R(a) / %s;" % (k, sl, real(v)))
                names.append("lit_d_%d" % k)
    # value axioms of literals cannot be triggered on a constant: one ground axiom
    vals = ", ".join("R(%s) == %s" % (sl, real(v)) for sl, v in sorted(seen.items())) or "true"
    out.append("#[verifier::allow(broadcast_without_trigger)]")
    out.append("pub broadcast axiom fn lit_values() ensures %s;" % vals)
    names.append("lit_values")
    out = [l for l in out if not l.startswith("pub broadcast axiom fn lit_v_")]
    out.append("pub broadcast group all { %s }" % ", ".join(names))
    out.append("}")
    return out


def gen_bon_builder(path, sname, repo, log):
    """R10: the `bon` builder of a `#[derive(Builder)]` struct, generated from the struct's own text in /repo:
    one field per struct field, initial value = the `#[builder(default = ...)]` attribute (None for Option fields),
    setters `field(v)` (and `maybe_field(Option<T>)` for Option fields), `build()` copies the fields.
    ASSUMED contract on the external crate `bon` (it is not verified here)."""
    from .lexer import match_close
    toks = core.read_tokens(repo, path)
    (s, kw, e) = core.find_item(toks, 0, len(toks), "struct " + sname)
    bo, bc = core.body_range(toks, kw, e)
    fields = []
    i = bo + 1
    default = None
    while i < bc:
        t = toks[i]
        if t.kind == "punct" and t.text == "#":
            c = match_close(toks, i + 1)
            inner = toks[i + 2:c]
            txt = " ".join(u.text for u in inner)
            m = re.match(r"builder \( default = (.*?)( , into)? \)$", txt)
            if m:
                default = m.group(1).replace(" :: ", "::").replace(" ", "")
            i = c + 1; continue
        if t.kind == "id" and t.text == "pub":
            i += 1; continue
        if t.kind == "id" and i + 1 < bc and toks[i + 1].text == ":":
            name = t.text
            j = i + 2; d = 0; ty = []
            while j < bc and not (d == 0 and toks[j].text == ","):
                if toks[j].text == "<": d += 1
                elif toks[j].text == ">": d -= 1
                ty.append(toks[j].text); j += 1
            tys = "".join(ty).replace(",", ", ")
            fields.append((name, tys, default, t.line))
            default = None
            i = j + 1; continue
        i += 1
    out = []
    b = sname + "Builder"
    out.append("pub struct %s { %s }" % (b, ", ".join("pub %s: %s" % (n, ty) for (n, ty, _, _) in fields)))
    inits = []
    ens = []
    for (n, ty, d, ln) in fields:
        if d is None:
            if not ty.startswith("Option<"):
                raise core.Undecided("builder field %s.%s has no default and is not an Option" % (sname, n))
            inits.append("%s: None" % n); ens.append("b.%s is None" % n)
        else:
            dv = d
            if ty in ("Tolerance",):
                dv = "Tolerance::Scalar(%s)" % d
            inits.append("%s: %s" % (n, dv)); ens.append("b.%s == %s" % (n, dv if not re.match(r"^[0-9.eE_+-]+$", dv) or ty in ("usize", "bool") else dv + "f64"))
        log.append(("GEN", path, ln, "builder field %s.%s default %s" % (sname, n, d)))
    out.append("impl %s { #[verifier::external_body] pub fn builder() -> (b: %s) ensures %s { %s { %s } } }" % (sname, b, ", ".join(ens), b, ", ".join(inits)))
    out.append("impl %s {" % b)
    for (n, ty, d, ln) in fields:
        arg = ty[len("Option<"):-1] if ty.startswith("Option<") else ty
        setv = "Some(v)" if ty.startswith("Option<") else "v"
        others = ", ".join("r.%s == self.%s" % (m_, m_) for (m_, _, _, _) in fields if m_ != n)
        out.append("    #[verifier::external_body] pub fn %s(self, v: %s) -> (r: Self) ensures r.%s == %s%s { let mut s = self; s.%s = %s; s }" % (n, arg, n, setv, (", " + others) if others else "", n, setv))
        if ty.startswith("Option<"):
            out.append("    #[verifier::external_body] pub fn maybe_%s(self, v: %s) -> (r: Self) ensures r.%s == v%s { let mut s = self; s.%s = v; s }" % (n, ty, n, (", " + others) if others else "", n))
    out.append("    #[verifier::external_body] pub fn build(self) -> (r: %s) ensures %s { %s { %s } }" % (sname, ", ".join("r.%s == self.%s" % (n, n) for (n, _, _, _) in fields), sname, ", ".join("%s: self.%s" % (n, n) for (n, _, _, _) in fields)))
    out.append("}")
    return out
