"""generated sections (#gen directives): constant axioms for World R, coefficient lemmas."""
def generate(arg, repo, meta, log):
    raise NotImplementedError(arg)
