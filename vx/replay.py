"""replay: look for a concrete failing input against the REAL crate for a failed obligation.
The scenarios live in replay/src/main.rs (path dependency on /repo, so they run the current working tree).
A scenario that prints `FAIL <name> <input>` gives the failing input; anything else gives none."""
import os, re, subprocess, tempfile, shutil

ROOT = os.path.dirname(os.path.dirname(os.path.abspath(__file__)))
# (property, unit regex, clause regex) -> scenarios to try, in order
TABLE = [
    ("C19", r"radau|bdf", r"scale\.|restart\.", ["modified_solution_doubling"]),
    ("C09", r"solout", r"exact_zero", ["event_function_scale"]),
    ("C08", r"solout", r"exact_zero|event_state|support", ["event_at_step_start_state", "event_function_scale"]),
    ("C08", r"solout", r"events\.|process\.|detect\.", ["events_multi_in_step"]),
    ("C05", r"solout", r"teval\.|support", ["teval_backward_endpoints", "tiny_time_scale", "teval_terminal"]),
    ("C03", r"dispatch_A", r".*", ["default_options_both_directions", "tiny_time_scale", "zero_length_dense", "first_step_rejected_then_success", "first_step_sign_and_overshoot"]),
    ("C06", r"dispatch", r".*", ["zero_length_dense", "sol_at_every_sample"]),
    ("C06", r"method_map", r".*", ["sol_at_every_sample", "zero_length_dense", "dense_midstep_order"]),
    ("C13", r"cont_R", r".*", ["extrapolation_reflection"]),
    ("C20", r"cont_R", r"extrapolat", ["extrapolation_reflection"]),
    ("C06", r"cont_R", r"sol_many|evaluate_many", ["sol_many_range"]),
    ("C06", r"cont_R", r"build\.", ["zero_length_dense", "sol_at_every_sample"]),
    ("C06", r"cont_R", r".*", ["tiny_time_scale", "sol_at_every_sample", "sol_many_range", "zero_length_dense"]),
    ("C06", r"solout", r".*", ["dense_up_to_terminal_event", "sol_at_every_sample", "event_interpolant_right_end"]),
    ("C03", r"dispatch_R", r"first_output|handler", ["first_step_sign_and_overshoot"]),
    ("C11", r"dispatch_R", r"first_output|handler", ["first_step_sign_and_overshoot"]),
    ("C03", r"solout_R", r"steps\.", ["short_steps_reported", "first_step_sign_and_overshoot"]),
    ("C18", r"solout_R", r"steps\.", ["short_steps_reported"]),
    ("C03", r"rk4_R", r"span\.|support", ["rk4_overshoot"]),
    ("C03", r"radau_R|bdf_R|dp5_R|dp8_R|rk23_R", r"span\.|status\.", ["first_step_rejected_then_success", "first_step_reaches_xend"]),
    ("C03", r".*_R", r"span\.|hinit|support", ["span_hinit_probe", "rk4_overshoot"]),
    ("C11", r".*_R", r"step\.|hinit", ["step_bounds"]),
    ("C11", r"dispatch", r".*", ["default_options_both_directions", "step_bounds"]),
    ("C11", r".*", r".*", ["step_bounds", "first_step_reaches_xend"]),
    ("C07", r"bdf", r".*", ["bdf_interpolant_history", "bdf_rescaling_accuracy", "dense_midstep_order"]),
    ("C06", r"bdf_hist", r".*", ["bdf_rescaling_accuracy", "dense_end_points"]),
    ("C06", r"bdf", r"newton|back_value|factor", ["bdf_interpolant_history"]),
    ("C07", r".*", r".*", ["dense_midstep_order"]),
    ("C06", r"rk4|coef_dense", r"dense", ["dense_midstep_order"]),
    ("C06", r"rk4|rk23|dp5|dp8", r"proto\.|interp|support", ["sol_at_every_sample", "dense_end_points"]),
    ("C06", r"radau|bdf", r"dense\.|interp|hist\.", ["dense_end_points", "radau_interpolant_interval"]),
    ("C19", r"radau", r"interpolant_interval|dense\.", ["radau_interpolant_interval"]),
    ("C06", r".*", r"dense\.|interp\.", ["event_interpolant_right_end"]),
    ("C18", r"dispatch", r".*", ["naccpt_equals_intervals", "counters"]),
    ("C18", r".*", r"nfev|naccpt|nstep|njev", ["counters", "modified_solution_counts", "naccpt_equals_intervals"]),
    ("C19", r".*", r"fsal|proto\.|naccpt", ["counters", "modified_solution_doubling"]),
    ("C19", r"radau|bdf", r"proto\.|span\.|dense\.", ["dense_end_points", "radau_interpolant_interval"]),
    ("C19", r"radau|bdf|rk|dp", r".*", ["modified_solution_doubling", "initial_modified_solution"]),
    ("C02", r".*", r"fsal", ["counters"]),
    ("C04", r".*", r"term\.|safety|support|nan", ["termination", "negative_time_blowup"]),
    ("C17", r"matrix_sub|matrix_add", r".*", ["matrix_arith_dense_model"]),
    ("C17", r".*", r".*", ["matrix_dense_model"]),
    ("C16", r"lucx", r"max_tracks|maximal|multipliers", ["complex_multiplier_modulus", "lu_small"]),
    ("C16", r".*", r".*", ["lu_small"]),
    ("C15", r".*", r".*", ["default_mass", "banded_jacobian_storage", "banded_mass_storage", "dae_constraint"]),
    ("C05", r".*", r".*", ["teval_terminal", "teval_backward_endpoints"]),
    ("C08", r"solout", r"brent|events\.time|span\.", ["brent_stays_in_bracket"]),
    ("C03", r"solout", r"brent|event_function|events\.time", ["brent_stays_in_bracket"]),
    ("C09", r".*", r"brent", ["brent_stays_in_bracket"]),
    ("C09", r".*", r".*", ["events_order_independent", "events_with_late_teval", "teval_terminal"]),
    ("C10", r".*", r".*", ["teval_terminal", "events_multi_in_step", "events_with_late_teval"]),
    ("C12", r".*", r".*", ["output_options", "radau_dense_flag_invariance"]),
    ("C13", r".*", r"err\.|norm\.", ["duplication_invariance"]),
    ("C13", r".*", r"step\.|hinit|dir", ["time_reflection", "time_reflection_stiff", "pow2_scaling"]),
    ("C13", r".*", r".*", ["radau_scalar_vector_tol", "duplication_invariance", "time_reflection", "time_reflection_stiff", "pow2_scaling", "event_reflection"]),
    ("C08", r"solout", r"crossed|direction|detect", ["event_reflection"]),
    ("C20", r"cont_R", r".*", ["extrapolate_equals_sol"]),
    ("C20", r"sparsity_A|sparsefd_A", r".*", ["sparsity_groups"]),
    ("C02", r"radau", r".*", ["radau_pade"]),
    ("C02", r"rk23|dopri5|dop853|dp5|dp8", r".*", ["step_count_law"]),
]
_BUILT = {}

def build():
    if "bin" in _BUILT: return _BUILT["bin"]
    scratch = os.environ.get("VERIF_SCRATCH", "/var/tmp")
    tgt = os.path.join(scratch, "ivp-replay-target")
    env = dict(os.environ, CARGO_TARGET_DIR=tgt, CARGO_NET_OFFLINE="true")
    p = subprocess.run(["cargo", "build", "--offline", "--quiet"], cwd=os.path.join(ROOT, "replay"), env=env, capture_output=True, text=True, timeout=900)
    b = os.path.join(tgt, "debug", "replay")
    _BUILT["bin"] = b if p.returncode == 0 and os.path.exists(b) else None
    _BUILT["err"] = p.stderr[-2000:]
    return _BUILT["bin"]

def run_scenario(name, timeout=120):
    b = build()
    if not b: return None, "replay crate does not build: " + _BUILT.get("err", "")
    try:
        p = subprocess.run([b, name], capture_output=True, text=True, timeout=timeout)
    except subprocess.TimeoutExpired:
        return "scenario %s did not return within %ds (hang)" % (name, timeout), None
    out = p.stdout.strip().split("\n")[-1] if p.stdout.strip() else ""
    if out.startswith("FAIL "):
        return out[5:], None
    return None, out

def find_input(prop, unit, clause, failure):
    tried = []
    for (pp, ur, cr, scen) in TABLE:
        if pp != prop or not re.search(ur, unit or "") or not re.search(cr, clause or ""):
            continue
        for s in scen:
            if s in tried: continue
            tried.append(s)
            got, note = run_scenario(s)
            if got:
                return {"scenario": s, "input": got, "how": "replay/src/main.rs scenario run against the real crate built from /repo's working tree"}
    return None
