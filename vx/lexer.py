"""Minimal Rust lexer for vx: enough to find items, match delimiters and re-lay-out code.

Comments are dropped (they never reach the verifier).  Every token remembers its
source line so that the generated file can be mapped back to /repo.
"""
import re

class LexError(Exception):
    pass

class Tok:
    __slots__ = ("kind", "text", "line")
    def __init__(self, kind, text, line):
        self.kind = kind      # id num str char life punct
        self.text = text
        self.line = line
    def __repr__(self):
        return "Tok(%s,%r,%d)" % (self.kind, self.text, self.line)

PUNCT3 = ["<<=", ">>=", "...", "..="]
PUNCT2 = ["::", "->", "=>", "==", "!=", "<=", ">=", "&&", "||", "+=", "-=", "*=", "/=",
          "%=", "^=", "&=", "|=", "<<", ".."]
ID_START = re.compile(r"[A-Za-z_]")
ID_RE = re.compile(r"[A-Za-z_][A-Za-z0-9_]*")
CHAR_RE = re.compile(r"'(\\x[0-9a-fA-F]{2}|\\u\{[0-9a-fA-F_]+\}|\\.|[^'\\])'")
LIFE_RE = re.compile(r"'[A-Za-z_][A-Za-z0-9_]*")
RAWSTR_RE = re.compile(r'b?r(#*)"')

def lex(src):
    toks = []
    i = 0
    n = len(src)
    line = 1
    while i < n:
        c = src[i]
        if c == "\n":
            line += 1; i += 1; continue
        if c in " \t\r":
            i += 1; continue
        if src.startswith("//", i):
            j = src.find("\n", i)
            i = n if j < 0 else j
            continue
        if src.startswith("/*", i):
            depth = 1; j = i + 2
            while j < n and depth:
                if src.startswith("/*", j): depth += 1; j += 2
                elif src.startswith("*/", j): depth -= 1; j += 2
                else:
                    if src[j] == "\n": line += 1
                    j += 1
            i = j
            continue
        m = RAWSTR_RE.match(src, i)
        if m:
            hashes = m.group(1)
            end = src.find('"' + hashes, m.end())
            if end < 0: raise LexError("unterminated raw string at line %d" % line)
            text = src[i:end + 1 + len(hashes)]
            toks.append(Tok("str", text, line)); line += text.count("\n"); i += len(text)
            continue
        if c == '"' or (c == "b" and i + 1 < n and src[i + 1] == '"'):
            j = i + (2 if c == "b" else 1)
            while j < n and src[j] != '"':
                if src[j] == "\\": j += 1
                j += 1
            text = src[i:j + 1]
            toks.append(Tok("str", text, line)); line += text.count("\n"); i = j + 1
            continue
        if c == "'":
            m = CHAR_RE.match(src, i)
            if m:
                toks.append(Tok("char", m.group(0), line)); i = m.end(); continue
            m = LIFE_RE.match(src, i)
            if m:
                toks.append(Tok("life", m.group(0), line)); i = m.end(); continue
            raise LexError("stray quote at line %d" % line)
        if c.isdigit():
            j = i
            if src.startswith("0x", i) or src.startswith("0b", i) or src.startswith("0o", i):
                j = i + 2
                while j < n and (src[j].isalnum() or src[j] == "_"): j += 1
            else:
                while j < n and (src[j].isdigit() or src[j] == "_"): j += 1
                if j < n and src[j] == ".":
                    nxt = src[j + 1] if j + 1 < n else ""
                    if nxt.isdigit():
                        j += 1
                        while j < n and (src[j].isdigit() or src[j] == "_"): j += 1
                    elif nxt != "." and not ID_START.match(nxt or " "):
                        j += 1
                if j < n and src[j] in "eE":
                    k = j + 1
                    if k < n and src[k] in "+-": k += 1
                    if k < n and src[k].isdigit():
                        j = k
                        while j < n and (src[j].isdigit() or src[j] == "_"): j += 1
                while j < n and (src[j].isalnum() or src[j] == "_"): j += 1
            toks.append(Tok("num", src[i:j], line)); i = j
            continue
        m = ID_RE.match(src, i)
        if m:
            toks.append(Tok("id", m.group(0), line)); i = m.end(); continue
        for group in (PUNCT3, PUNCT2):
            hit = None
            for p in group:
                if src.startswith(p, i):
                    hit = p; break
            if hit: break
        if hit:
            toks.append(Tok("punct", hit, line)); i += len(hit); continue
        toks.append(Tok("punct", c, line)); i += 1
    return toks

OPEN = {"(": ")", "[": "]", "{": "}"}
CLOSE = {")": "(", "]": "[", "}": "{"}

def match_close(toks, i):
    """index of the delimiter closing toks[i] (an opener)."""
    depth = 0
    for j in range(i, len(toks)):
        t = toks[j]
        if t.kind == "punct":
            if t.text in OPEN: depth += 1
            elif t.text in CLOSE:
                depth -= 1
                if depth == 0: return j
    raise LexError("unbalanced delimiter opened at line %d" % toks[i].line)

def match_open(toks, i):
    depth = 0
    for j in range(i, -1, -1):
        t = toks[j]
        if t.kind == "punct":
            if t.text in CLOSE: depth += 1
            elif t.text in OPEN:
                depth -= 1
                if depth == 0: return j
    raise LexError("unbalanced delimiter closed at line %d" % toks[i].line)

# ---------------------------------------------------------------------------------------------
# canonical layout: one statement (or brace) per line, so that contracts are pure line insertions

NO_SPACE_BEFORE = {",", ";", ")", "]", ".", "?", "::", ":"}
NO_SPACE_AFTER = {"(", "[", ".", "::", "!", "&", "#"}

def _glue(prev, cur):
    """True if no space should be emitted between prev and cur (readability only; never merges
    two tokens into a different token)."""
    if prev is None: return True
    p, c = prev.text, cur.text
    if cur.kind == "punct" and c in NO_SPACE_BEFORE:
        if c == ":" and False: return False
        return True
    if prev.kind == "punct" and p in NO_SPACE_AFTER:
        if p == "&" and c in ("&", "&&", "="): return False
        if p == "!" and c in ("=", "=="): return False
        if p == "." and c in (".", "..", "..="): return False
        if p == "#": return c in ("[", "!")
        return True
    if cur.kind == "punct" and c in ("(", "["):
        # call / index / macro: glue to identifiers, closers and the macro bang
        if prev.kind == "id" and p not in ("if", "while", "match", "in", "return", "for", "let", "mut",
                                            "as", "else", "move", "where", "impl", "break"):
            return True
        if prev.kind == "punct" and p in (")", "]", "?", ">"):
            return c == "(" or p != ">"
        return False
    if cur.kind == "punct" and c == "!" and prev.kind == "id":
        return True
    return False

def layout(toks, indent0=0):
    """-> list of (text, first_source_line). Breaks after ';' and ',' whose innermost open
    delimiter is a brace, and puts every brace on a line of its own."""
    lines = []
    cur = []          # tokens of the current line
    stack = []
    depth = indent0

    def flush():
        nonlocal cur
        if cur:
            s = ""
            prev = None
            for t in cur:
                if prev is not None and not _glue(prev, t): s += " "
                s += t.text
                prev = t
            lines.append(("    " * depth + s, cur[0].line))
            cur = []

    i = 0
    hdr_kw = None
    header = False    # inside an item header (fn/impl/struct/enum/trait ... up to its '{' or ';')
    while i < len(toks):
        t = toks[i]
        if t.kind == "id" and t.text in ("fn", "impl", "struct", "enum", "trait") and (not stack or stack[-1] == "{"):
            header = True; hdr_kw = t.text
        if t.kind == "punct" and t.text == "{":
            header = False
            flush()
            lines.append(("    " * depth + "{", t.line))
            stack.append("{"); depth += 1
        elif t.kind == "punct" and t.text == "}":
            flush()
            if stack: stack.pop()
            depth -= 1
            lines.append(("    " * depth + "}", t.line))
        else:
            if t.kind == "punct" and t.text in ("(", "["): stack.append(t.text)
            elif t.kind == "punct" and t.text in (")", "]"):
                if stack: stack.pop()
            cur.append(t)
            if t.kind == "punct" and t.text == ";" and (not stack or stack[-1] == "{"):
                if header and hdr_kw == "fn":
                    # bodiless fn (trait method): ';' on its own line so that contracts can precede it
                    cur.pop(); flush(); cur.append(t)
                header = False
                flush()
            elif t.kind == "punct" and t.text == "," and (not stack or stack[-1] == "{") and not header:
                flush()
        i += 1
    flush()
    # a closing brace followed by ';' ',' ')' '.' '?' etc. keeps that punctuation on the brace line
    out = []
    for text, ln in lines:
        st = text.strip()
        if out and out[-1][0].strip().startswith("}") and st and st[0] in ";,).?" and len(st) <= 2:
            out[-1] = (out[-1][0] + st, out[-1][1])
        else:
            out.append((text, ln))
    return out
