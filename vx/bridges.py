"""bridges: a `| trusted` take carries an ASSUMED contract.  Where the function is proved in another unit, that unit
contains `bridge_<fn>`: a wrapper whose contract is the assumed one and whose body is the call, so Verus checks there that
the proved contract implies the assumed one.  This module checks that the two contract texts are identical
(comments and layout aside); a mismatch makes the assuming unit undecided."""
import json, os, re

ROOT = os.path.dirname(os.path.dirname(os.path.abspath(__file__)))

def _norm(lines):
    out = []
    for l in lines:
        l = l[1:] if l.startswith("+") else l
        l = re.sub(r"//.*$", "", l)
        out.append(l)
    return " ".join(" ".join(out).split())

def _after_sig(vspec, pattern):
    L = open(os.path.join(ROOT, "contracts", vspec + ".vspec")).read().split("\n")
    for i, l in enumerate(L):
        if re.search(pattern, l):
            out = []
            j = i + 1
            while j < len(L) and L[j].startswith("+") and not L[j][1:].lstrip().startswith("{"):
                out.append(L[j]); j += 1
            return _norm(out)
    return None

def check(unit):
    """-> (list of notes for the evidence, list of mismatch messages)"""
    reg = json.load(open(os.path.join(ROOT, "registry.json")))
    notes, bad = [], []
    # derived fragment: matrix_min_A must be exactly what tools/mk_matrix_min.py derives from matrix_core_A
    vs = open(os.path.join(ROOT, "contracts", unit + ".vspec")).read()
    if "#use contracts/matrix_min_A.vspec" in vs:
        import importlib.util
        sp = importlib.util.spec_from_file_location("mk_matrix_min", os.path.join(ROOT, "tools", "mk_matrix_min.py"))
        mod = importlib.util.module_from_spec(sp); sp.loader.exec_module(mod)
        if mod.generate() != open(os.path.join(ROOT, "contracts", "matrix_min_A.vspec")).read():
            bad.append("contracts/matrix_min_A.vspec is not the text derived from matrix_core_A.vspec (run tools/mk_matrix_min.py)")
        else:
            notes.append("the Matrix functions are trusted takes whose contracts are copied verbatim from matrix_core_A (proved in unit matrix_A); derivation re-checked on this run")
    for b in reg.get("bridges", []):
        if b["unit"] != unit:
            continue
        fn, src = b["fn"], b["proved_in"]
        assumed = _after_sig(unit, r"external_body\].*\bfn %s\(" % re.escape(fn))
        bname = b.get("bridge", "bridge_" + fn)
        proved = _after_sig(src, r"\bfn %s\(" % re.escape(bname))
        if assumed is None or proved is None:
            bad.append("bridge for %s: contract not found (%s in %s, bridge_%s in %s)" % (fn, fn, unit, fn, src))
        elif assumed != proved:
            bad.append("assumed contract of trusted take `%s` in %s differs from the contract of %s proved in %s" % (fn, unit, bname, src))
        else:
            notes.append("trusted take `%s`: its assumed contract is the contract of %s, proved in unit %s (texts identical)" % (fn, bname, src))
    return notes, bad
