"""non-Verus-unit engines attached to properties: coefficient lemmas (verus by(compute)), Kani lemma base,
in-place Kani contracts, bounded stand-ins.  Each returns a dict
{name, status ok|failed|undecided, obligations, discharged, violations[], samples[], backend, bounded?}"""
import os, sys, json, hashlib, concurrent.futures
ROOT = os.path.dirname(os.path.dirname(os.path.abspath(__file__)))
REPO = os.environ.get("VERIF_REPO", "/repo")
CACHE = os.path.join(ROOT, "build", "cache")

def _sha(*paths):
    h = hashlib.sha256()
    for p in paths:
        try: h.update(open(p, "rb").read())
        except OSError: h.update(b"?")
    return h.hexdigest()[:24]

def cached(name, key, fn, use_cache=True):
    os.makedirs(CACHE, exist_ok=True)
    p = os.path.join(CACHE, "%s.%s.json" % (name, key))
    if use_cache and os.path.exists(p):
        try:
            r = json.load(open(p)); r["cached"] = True; return r
        except ValueError:
            pass
    r = fn()
    r["cached"] = False
    if r.get("status") in ("ok", "failed"):
        json.dump(r, open(p, "w"))
    return r

def coef_engine(method, tier, kind="order"):
    from coef import orderconds
    src = os.path.join(REPO, orderconds.FILES[method])
    key = _sha(src, os.path.join(ROOT, "coef", "orderconds.py"), os.path.join(ROOT, "coef", "symstep.py"), os.path.join(ROOT, "vx", "gen.py"), os.path.join(ROOT, "vx", "core.py"))
    name = ("coef_" if kind == "order" else "coef_dense_") + method
    return cached(name, key, lambda: orderconds.run(method, REPO, kind=kind), use_cache=(tier != "thorough"))

def coef_radau_engine(tier):
    from coef import radau
    src = os.path.join(REPO, radau.FILE)
    key = _sha(src, os.path.join(ROOT, "coef", "radau.py"), os.path.join(ROOT, "coef", "symstep.py"), os.path.join(ROOT, "vx", "gen.py"), os.path.join(ROOT, "vx", "core.py"))
    return cached("coef_radau", key, lambda: radau.run(REPO), use_cache=(tier != "thorough"))

def run_for(prop, tier, seed):
    jobs = []
    reg = json.load(open(os.path.join(ROOT, "registry.json")))
    for e in reg.get("engines", []):
        if prop not in e.get("properties", []): continue
        if tier != "thorough" and e.get("tier", "quick") != "quick": continue
        jobs.append(e)
    out = []
    def run(e):
        try:
            if e["kind"] == "coef":
                return coef_engine(e["method"], tier)
            if e["kind"] == "coef_dense":
                return coef_engine(e["method"], tier, kind="dense")
            if e["kind"] == "coef_radau":
                return coef_radau_engine(tier)
            if e["kind"] == "kani_lemmas":
                from . import kani_engine
                return kani_engine.lemma_base(tier)
            if e["kind"] == "kani_inplace":
                from . import kani_engine
                return kani_engine.inplace(e, tier)
        except Exception as ex:
            return {"name": e["name"], "status": "undecided", "reason": "engine error: %r" % (ex,)}
        return {"name": e["name"], "status": "undecided", "reason": "unknown engine kind"}
    with concurrent.futures.ThreadPoolExecutor(max_workers=4) as ex:
        out = list(ex.map(run, jobs))
    return out
