"""non-Verus engines attached to properties: Kani lemma base, in-place Kani contracts, coefficient
lemmas (verus by(compute)), bounded stand-ins.  Each returns a dict
{name, status ok|failed|undecided, obligations, discharged, violations[], samples[], bounded?}"""
def run_for(prop, tier, seed):
    return []
