#!/bin/sh
# offline setup: nothing is fetched or compiled ahead of time; create scratch dirs and check the tools
set -e
cd "$(dirname "$0")"
mkdir -p build/cache evidence replay/out
command -v verus >/dev/null || { echo "verus not on PATH"; exit 1; }
python3 -c "import sys; sys.path.insert(0,'.'); from vx import core, driver; print('vx ok, verus', driver.vv())"
