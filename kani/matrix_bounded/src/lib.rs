//! BOUNDED stand-in (never counted as proved): Matrix + Matrix and Matrix - Matrix against the dense model, on the REAL
//! crate (path dependency on /repo), for n x n operands with n <= 3, every storage scheme and every band width, and
//! symbolic finite entries.  Bound: n in {1, 2, 3} (one harness per n), loops unwound n*(2n-1)+2 times.
#![allow(unused)]
#[cfg(kani)]
mod bounded {
    use ivp::matrix::Matrix;
    fn any_entry() -> f64 { let v: f64 = kani::any(); kani::assume(v.is_finite() && v.abs() < 1e6); v }
    fn any_matrix(n: usize) -> Matrix {
        let kind: u8 = kani::any();
        kani::assume(kind < 3);
        if kind == 0 { return Matrix::identity(n); }
        if kind == 1 {
            let mut m = Matrix::full(n, n);
            for i in 0..n { for j in 0..n { m[(i, j)] = any_entry(); } }
            return m;
        }
        let ml: usize = kani::any(); let mu: usize = kani::any();
        kani::assume(ml < n && mu < n);
        let mut m = Matrix::banded(n, ml, mu);
        for i in 0..n { for j in 0..n { if i <= j + ml && j <= i + mu { m[(i, j)] = any_entry(); } } }
        m
    }
    fn check(n: usize, plus: bool) {
        let a = any_matrix(n); let b = any_matrix(n);
        let c = if plus { a.clone() + b.clone() } else { a.clone() - b.clone() };
        assert!(c.dims() == (n, n));
        for i in 0..n { for j in 0..n {
            let want = if plus { a[(i, j)] + b[(i, j)] } else { a[(i, j)] - b[(i, j)] };
            assert!(c[(i, j)] == want);
        } }
    }
    #[kani::proof] #[kani::unwind(5)] fn sub_dense_model_n1() { check(1, false); }
    #[kani::proof] #[kani::unwind(8)] fn sub_dense_model_n2() { check(2, false); }
    #[kani::proof] #[kani::unwind(5)] fn add_dense_model_n1() { check(1, true); }
    #[kani::proof] #[kani::unwind(8)] fn add_dense_model_n2() { check(2, true); }
}
