//! IEEE-754 lemma base: every axiom of /verif/prelude/ieee_axioms.rs is proved here, bit-precisely and for ALL
//! f64 bit patterns, by a loop-free Kani/CBMC harness of the same name (complete proofs: no unwinding, no bound).
//! The spec-level predicates of the axioms are the Rust operators themselves:
//!   f_gt(a, b) = a > b      f_le(a, b) = a <= b      a.eq_spec(&b) = a == b      s_abs(a) = a.abs()
//!   finite(x) = x.is_finite()
#![allow(unused)]

#[cfg(kani)]
mod lemmas {
    /// finite x: |x - x| <= 1e-12
    #[kani::proof]
    fn finite_self_diff() {
        let x: f64 = kani::any();
        kani::assume(x.is_finite());
        assert!((x - x).abs() <= 1e-12);
    }
    /// finite x: x == x
    #[kani::proof]
    fn finite_eq_refl() {
        let x: f64 = kani::any();
        kani::assume(x.is_finite());
        assert!(x == x);
    }
    /// 1.0 == 1.0, 0.0 == 0.0, 1.0 != 0.0
    #[kani::proof]
    fn eq_refl_literals() {
        assert!(1.0f64 == 1.0f64 && 0.0f64 == 0.0f64 && !(1.0f64 == 0.0f64) && !(0.0f64 == 1.0f64));
    }
    /// x > x never holds
    #[kani::proof]
    fn gt_irrefl() {
        let x: f64 = kani::any();
        assert!(!(x > x));
    }
    /// !(x > m) and i > m imply !(x > i)
    #[kani::proof]
    fn ngt_trans() {
        let x: f64 = kani::any(); let m: f64 = kani::any(); let i: f64 = kani::any();
        kani::assume(!(x > m) && i > m);
        assert!(!(x > i));
    }
    #[kani::proof]
    fn nan_add() { let a: f64 = kani::any(); let b: f64 = kani::any(); kani::assume(a.is_nan() || b.is_nan()); assert!((a + b).is_nan()); }
    #[kani::proof]
    fn nan_mul() { let a: f64 = kani::any(); let b: f64 = kani::any(); kani::assume(a.is_nan() || b.is_nan()); assert!((a * b).is_nan()); }
    #[kani::proof]
    fn nan_div() { let a: f64 = kani::any(); let b: f64 = kani::any(); kani::assume(a.is_nan() || b.is_nan()); assert!((a / b).is_nan()); }
    #[kani::proof]
    fn nan_sqrt() { let a: f64 = kani::any(); kani::assume(a.is_nan()); assert!(a.sqrt().is_nan()); }
    #[kani::proof]
    fn nan_not_le() { let a: f64 = kani::any(); let b: f64 = kani::any(); kani::assume(a.is_nan()); assert!(!(a <= b)); }
    #[kani::proof]
    fn inf_not_le_one() { assert!(!(f64::INFINITY <= 1.0)); }
    /// s_to_usize(x) = x as usize, s_clamp = f64::clamp, s_of_usize(5) = 5usize as f64
    #[kani::proof]
    fn clamp_cast_le5() { let x: f64 = kani::any(); assert!((x.clamp(1.0, 5usize as f64) as usize) <= 5); }
    /// s_neg(a) = -a
    #[kani::proof]
    fn abs_ge_zero() { let x: f64 = kani::any(); kani::assume(!x.is_nan()); assert!(x.abs() >= 0.0); }
    #[kani::proof]
    fn neg_le_self() { let a: f64 = kani::any(); kani::assume(a >= 0.0); assert!(-a <= a && 0.0 <= a); }
    #[kani::proof]
    fn one_le_five() { assert!(1.0f64 <= 5usize as f64); }
    /// vacuity guard: a false float claim must be refuted (the engine requires this harness to FAIL)
    #[kani::proof]
    fn vacuity_probe_must_fail() {
        let x: f64 = kani::any();
        assert!(x == x);
    }
}
