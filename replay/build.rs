// Extracts, on every build, the pure function `group_columns` from /repo/src/python/sparsity.rs (a file compiled only with the
// `python` feature, whose other items need pyo3) so that the replay scenarios can run the real text of it.
// The function is located by its `fn group_columns(` header and copied up to its matching closing brace; nothing else is taken.
use std::{env, fs, path::Path};
fn main() {
    let src_path = "/repo/src/python/sparsity.rs";
    println!("cargo:rerun-if-changed={}", src_path);
    let out = Path::new(&env::var("OUT_DIR").unwrap()).join("sparsity_fns.rs");
    let text = fs::read_to_string(src_path).unwrap_or_default();
    let mut body = String::from("pub fn group_columns(_c: &[Vec<usize>], _n: usize) -> (Vec<usize>, usize) { panic!(\"group_columns not found in src/python/sparsity.rs\") }\n");
    if let Some(start) = text.find("fn group_columns(") {
        let bytes = text.as_bytes();
        let mut depth = 0i32; let mut end = None; let mut seen = false;
        for (i, b) in bytes.iter().enumerate().skip(start) {
            if *b == b'{' { depth += 1; seen = true; }
            if *b == b'}' { depth -= 1; if seen && depth == 0 { end = Some(i + 1); break; } }
        }
        if let Some(e) = end { body = format!("pub {}\n", &text[start..e]); }
    }
    fs::write(out, body).unwrap();
}
