//! Replay routines: concrete inputs run against the REAL crate (path dependency on /repo).
//! They are witnesses for a failed obligation, never deciders.  usage: replay <scenario>
//! Each scenario prints `FAIL <scenario> <what>` (and exits 1) when the real code shows the defect the
//! obligation describes, `PASS <scenario>` otherwise.
use ivp::prelude::*;
use std::cell::Cell;

struct Lin { calls: Cell<usize>, tmin: Cell<f64>, tmax: Cell<f64> }
impl Lin { fn new() -> Self { Lin { calls: Cell::new(0), tmin: Cell::new(f64::MAX), tmax: Cell::new(f64::MIN) } } }
impl IVP for Lin {
    fn ode(&self, t: f64, y: &[f64], d: &mut [f64]) {
        self.calls.set(self.calls.get() + 1);
        if t > self.tmax.get() { self.tmax.set(t); }
        if t < self.tmin.get() { self.tmin.set(t); }
        for i in 0..y.len() { d[i] = -y[i]; }
    }
}
const ADAPTIVE: [Method; 5] = [Method::RK23, Method::DOPRI5, Method::DOP853, Method::RADAU, Method::BDF];

/// C03: the right-hand side is never evaluated outside [x0, xend] -- short span with a larger max_step
fn span_hinit_probe() -> Option<String> {
    for m in ADAPTIVE {
        for (x0, xend) in [(0.0, 1e-9), (0.0, -1e-9), (1.0, 1.0 + 1e-7)] {
            let f = Lin::new();
            let s = solve_ivp(&f, x0, xend, &[1.0, 2.0], Options::builder().method(m.clone()).max_step(1.0).build());
            if s.is_err() { continue; }
            let (lo, hi) = if x0 < xend { (x0, xend) } else { (xend, x0) };
            if std::env::var("REPLAY_ALL").is_ok() && (f.tmax.get() > hi || f.tmin.get() < lo) {
                println!("  {:?} [{}, {}]: ode on [{:e}, {:e}]", m, x0, xend, f.tmin.get(), f.tmax.get()); continue;
            }
            if f.tmax.get() > hi || f.tmin.get() < lo {
                return Some(format!("{:?} on [{}, {}] with max_step=1.0: ode evaluated on [{:e}, {:e}]", m, x0, xend, f.tmin.get(), f.tmax.get()));
            }
        }
    }
    None
}

/// C06: the per-step interpolant handed to a SolOut callback reproduces the state at the right end of its step,
/// also when the solver runs with dense_output(false) and the callback asked for it through XOut
fn event_interpolant_right_end() -> Option<String> {
    use ivp::methods::{RK23, RK4, DOPRI5, DOP853};
    use ivp::solout::SolOut;
    struct Probe { worst: f64, seen: usize }
    impl SolOut for Probe {
        fn solout(&mut self, _xold: f64, x: &mut f64, y: &mut [f64], interp: Option<&StepInterpolant<'_>>) -> ControlFlag {
            if let Some(ip) = interp {
                let mut yi = vec![0.0; y.len()];
                ip.interpolate(*x, &mut yi);
                for i in 0..y.len() { let e = (yi[i] - y[i]).abs(); if e > self.worst { self.worst = e; } }
                self.seen += 1;
            }
            ControlFlag::XOut(*x + 1e-3)
        }
    }
    let f = Lin::new();
    let mut p = Probe { worst: 0.0, seen: 0 };
    let _ = RK23::builder().dense_output(false).build().solve(&f, 0.0, &[1.0, 2.0], 1.0, 1e-6.into(), 1e-9.into(), Some(&mut p));
    if p.seen > 0 && p.worst > 1e-9 { return Some(format!("RK23 dense_output(false)+XOut: interpolant at the step end differs from the state by {:e} ({} interpolants)", p.worst, p.seen)); }
    let mut p = Probe { worst: 0.0, seen: 0 };
    let _ = DOPRI5::builder().dense_output(false).build().solve(&f, 0.0, &[1.0, 2.0], 1.0, 1e-6.into(), 1e-9.into(), Some(&mut p));
    if p.seen > 0 && p.worst > 1e-9 { return Some(format!("DOPRI5 dense_output(false)+XOut: {:e}", p.worst)); }
    let mut p = Probe { worst: 0.0, seen: 0 };
    let _ = DOP853::builder().dense_output(false).build().solve(&f, 0.0, &[1.0, 2.0], 1.0, 1e-6.into(), 1e-9.into(), Some(&mut p));
    if p.seen > 0 && p.worst > 1e-9 { return Some(format!("DOP853 dense_output(false)+XOut: {:e}", p.worst)); }
    let mut p = Probe { worst: 0.0, seen: 0 };
    let _ = RK4::builder().dense_output(false).build().solve(&f, 0.0, &[1.0, 2.0], 1.0, 0.1, Some(&mut p));
    if p.seen > 0 && p.worst > 1e-9 { return Some(format!("RK4 dense_output(false)+XOut: {:e}", p.worst)); }
    None
}

/// C03: fixed-step RK4 never passes xend and never evaluates the right-hand side beyond it
fn rk4_overshoot() -> Option<String> {
    for (x0, xend, h) in [(0.0, 1.0, 0.3), (0.0, -1.0, -0.3), (0.0, 1.0, 0.7), (2.0, 3.0, 0.4)] {
        let f = Lin::new();
        let s = solve_ivp(&f, x0, xend, &[1.0], Options::builder().method(Method::RK4).first_step(h).build()).unwrap();
        let last = *s.t.last().unwrap();
        let (lo, hi) = if x0 < xend { (x0, xend) } else { (xend, x0) };
        if last > hi + 1e-12 || last < lo - 1e-12 || f.tmax.get() > hi + 1e-12 || f.tmin.get() < lo - 1e-12 {
            return Some(format!("RK4 [{}, {}] h={}: last t={} status={:?} ode evaluated on [{}, {}]", x0, xend, h, last, s.status, f.tmin.get(), f.tmax.get()));
        }
    }
    None
}

/// C15: with no mass matrix supplied the problem is y' = f whatever mass storage is selected (low-level RADAU builder defaults)
fn default_mass() -> Option<String> {
    use ivp::methods::RADAU;
    use ivp::solout::SolOut;
    struct Last(Vec<f64>);
    impl SolOut for Last { fn solout(&mut self, _: f64, _: &mut f64, y: &mut [f64], _: Option<&StepInterpolant<'_>>) -> ControlFlag { self.0 = y.to_vec(); ControlFlag::Continue } }
    let f = Lin::new();
    let mut l = Last(vec![]);
    let r = RADAU::builder().build().solve(&f, 0.0, &[1.0], 1.0, 1e-6.into(), 1e-9.into(), Some(&mut l));
    match r {
        Ok(res) => {
            let y1 = l.0.get(0).copied().unwrap_or(f64::NAN);
            if (y1 - (-1.0f64).exp()).abs() > 1e-3 { return Some(format!("RADAU::builder().build() (default mass storage) on y'=-y, y(0)=1: status {:?}, y(1) = {} instead of {}", res.status, y1, (-1.0f64).exp())); }
            None
        }
        Err(e) => Some(format!("RADAU default builder returned Err({:?})", e)),
    }
}
/// C17: every public constructor yields a matrix all of whose entries can be read
fn matrix_dense_model() -> Option<String> {
    let r = std::panic::catch_unwind(|| { let m = Matrix::square(2); m[(0, 0)] + m[(1, 1)] });
    if r.is_err() { return Some("Matrix::square(2)[(0,0)] panics".to_string()); }
    // every banded shape, also with ml + mu + 1 > n: every entry readable, in-band writes land exactly where addressed
    for n in 1..=6usize { for ml in 0..n { for mu in 0..n {
        let r = std::panic::catch_unwind(|| {
            let mut m = Matrix::banded(n, ml, mu);
            let mut dense = vec![vec![0.0f64; n]; n];
            for i in 0..n { for j in 0..n { if j + ml >= i && i + mu >= j { let v = (1 + i * n + j) as f64; m[(i, j)] = v; dense[i][j] = v; } } }
            for i in 0..n { for j in 0..n { if m[(i, j)] != dense[i][j] { return Some((i, j, m[(i, j)], dense[i][j])); } } }
            let id = { let mut q = Matrix::banded(n, ml, mu); for i in 0..n { q[(i, i)] = 1.0; } q };
            if !id.is_identity() { return Some((usize::MAX, 0, 0.0, 1.0)); }
            None
        });
        match r {
            Err(_) => return Some(format!("Matrix::banded({}, {}, {}): reading or writing an entry inside the band panics", n, ml, mu)),
            Ok(Some((i, j, got, want))) => return Some(if i == usize::MAX { format!("Matrix::banded({}, {}, {}) holding the identity: is_identity() is false", n, ml, mu) } else { format!("Matrix::banded({}, {}, {}): entry ({}, {}) reads {} after writing the dense model's {}", n, ml, mu, i, j, got, want) }),
            Ok(None) => {}
        }
    } } }
    None
}

/// C05: when a terminal event stops the run, every requested time not beyond the event is still reported
fn teval_terminal() -> Option<String> {
    struct Ramp;   // y' = 1, terminal event at y = 0.55
    impl IVP for Ramp {
        fn ode(&self, _t: f64, _y: &[f64], d: &mut [f64]) { d[0] = 1.0; }
        fn n_events(&self) -> usize { 1 }
        fn events(&self, _t: f64, y: &[f64], out: &mut [f64]) { out[0] = y[0] - 0.55; }
        fn event_config(&self, _i: usize) -> EventConfig { let mut c = EventConfig::new(); c.terminal(); c }
    }
    let te: Vec<f64> = (1..=9).map(|i| i as f64 * 0.1).collect();
    for m in [Method::DOPRI5, Method::RK23, Method::DOP853, Method::RADAU, Method::BDF, Method::RK4] {
        let s = solve_ivp(&Ramp, 0.0, 1.0, &[0.0], Options::builder().method(m.clone()).t_eval(te.clone()).build()).unwrap();
        let t_e = s.t_events[0].get(0).copied().unwrap_or(f64::NAN);
        let want: Vec<f64> = te.iter().copied().filter(|&t| t <= t_e).collect();
        let got: Vec<f64> = s.t.iter().copied().filter(|&t| t != t_e || want.contains(&t)).collect();
        let missing: Vec<f64> = want.iter().copied().filter(|t| !s.t.contains(t)).collect();
        if !missing.is_empty() {
            return Some(format!("{:?}: t_eval=0.1..0.9, terminal event at t={}: reported t={:?}, requested times {:?} before the event are missing", m, t_e, s.t, missing));
        }
        let _ = got;
    }
    None
}

/// C13: a scalar tolerance and the constant vector give the same trajectory (Radau transforms tolerances internally)
fn radau_scalar_vector_tol() -> Option<String> {
    for m in [Method::RADAU, Method::RK23, Method::DOPRI5, Method::DOP853, Method::BDF] {
        for n in [1usize, 4, 7] {
            for &(x0, xe) in &[(0.0f64, 1.0f64), (1.0, -0.5)] {
                let y0 = vec![1.0; n];
                let f = Lin::new();
                let a = solve_ivp(&f, x0, xe, &y0, Options::builder().method(m.clone()).rtol(1e-6).atol(1e-9).build()).unwrap();
                let b = solve_ivp(&f, x0, xe, &y0, Options::builder().method(m.clone()).rtol(vec![1e-6; n]).atol(vec![1e-9; n]).build()).unwrap();
                if a.t != b.t || a.y != b.y {
                    return Some(format!("{:?} n={} on [{}, {}]: scalar tolerances give {} accepted steps, the same tolerances as constant vectors {} (trajectories differ)", m, n, x0, xe, a.naccpt, b.naccpt));
                }
            }
        }
    }
    None
}
/// C04: an error-controlled method never reports Success with non-finite states (right-hand side turns NaN part-way)
fn nan_rhs_not_success() -> Option<String> {
    struct NanAfter;
    impl IVP for NanAfter { fn ode(&self, t: f64, y: &[f64], d: &mut [f64]) { d[0] = if t > 0.5 { f64::NAN } else { -y[0] }; } }
    for m in ADAPTIVE {
        let (tx, rx) = std::sync::mpsc::channel();
        let mm = m.clone();
        std::thread::spawn(move || {
            let s = solve_ivp(&NanAfter, 0.0, 1.0, &[1.0], Options::builder().method(mm).max_steps(20000).build());
            let _ = tx.send(s.map(|s| (s.status, s.y.last().cloned().unwrap_or_default())));
        });
        match rx.recv_timeout(std::time::Duration::from_secs(20)) {
            Err(_) => return Some(format!("{:?}: NaN right-hand side after t=0.5: the run did not return within 20 s", m)),
            Ok(Ok((st, y))) => { if st == Status::Success && y.iter().any(|v| !v.is_finite()) { return Some(format!("{:?}: NaN right-hand side after t=0.5: status Success with y={:?}", m, y)); } }
            Ok(Err(_)) => {}
        }
    }
    None
}


/// C06/C19: the per-step interpolant handed to a callback spans exactly the accepted step [xold, x]
/// (Radau: also after a step size reduction decided inside the Newton iteration)
fn radau_interpolant_interval() -> Option<String> {
    use ivp::methods::RADAU;
    use ivp::solout::SolOut;
    struct Vdp { mu: f64 }
    impl IVP for Vdp {
        fn ode(&self, _t: f64, y: &[f64], d: &mut [f64]) { d[0] = y[1]; d[1] = self.mu * ((1.0 - y[0] * y[0]) * y[1]) - y[0]; }
    }
    struct Probe { bad: Option<String>, steps: usize }
    impl SolOut for Probe {
        fn solout(&mut self, xold: f64, x: &mut f64, y: &mut [f64], interp: Option<&StepInterpolant<'_>>) -> ControlFlag {
            if let Some(ip) = interp {
                self.steps += 1;
                let (xo, h) = ip.step_params();
                let right = xo + h;
                if self.bad.is_none() && (xo != xold || (right - *x).abs() > 1e-12 * (1.0 + x.abs())) {
                    let mut yi = vec![0.0; y.len()];
                    ip.interpolate(*x, &mut yi);
                    self.bad = Some(format!("step {}: callback for the step [{:e}, {:e}] got an interpolant for [{:e}, {:e}] (h = {:e}, x - xold = {:e}); interpolant at x = {:?}, state = {:?}",
                        self.steps, xold, *x, xo, right, h, *x - xold, yi, y.to_vec()));
                }
            }
            ControlFlag::Continue
        }
    }
    for mu in [1.0, 10.0, 100.0, 1000.0, 1e4] {
        for (rt, at) in [(1e-3, 1e-6), (1e-6, 1e-9), (1e-9, 1e-12)] {
            for nit in [7usize, 5, 4, 3] {
                let f = Vdp { mu };
                let mut p = Probe { bad: None, steps: 0 };
                let _ = RADAU::builder().dense_output(true).newton_maxiter(nit).build().solve(&f, 0.0, &[2.0, 0.0], 3.0 * mu.max(2.0), rt.into(), at.into(), Some(&mut p));
                if let Some(b) = p.bad { return Some(format!("RADAU van der Pol mu={} rtol={:e} atol={:e} newton_maxiter={}: {}", mu, rt, at, nit, b)); }
            }
        }
    }
    None
}


/// C18: nfev is the number of right-hand-side evaluations made by the stepper, njev the number of Jacobian
/// evaluations (analytic Jacobian, so no finite-difference evaluations are involved)
fn counters() -> Option<String> {
    struct Cnt { ode: Cell<usize>, jac: Cell<usize> }
    impl IVP for Cnt {
        fn ode(&self, _t: f64, y: &[f64], d: &mut [f64]) { self.ode.set(self.ode.get() + 1); d[0] = -2.0 * y[0] + y[1]; d[1] = y[0] - 3.0 * y[1]; }
        fn jac(&self, _t: f64, _y: &[f64], j: &mut ivp::matrix::Matrix) { self.jac.set(self.jac.get() + 1); j[(0, 0)] = -2.0; j[(0, 1)] = 1.0; j[(1, 0)] = 1.0; j[(1, 1)] = -3.0; }
    }
    for m in [Method::RK4, Method::RK23, Method::DOPRI5, Method::DOP853, Method::RADAU, Method::BDF] {
        for first in [None, Some(0.01)] {
            let f = Cnt { ode: Cell::new(0), jac: Cell::new(0) };
            let mut o = Options::builder().method(m.clone()).build();
            o.first_step = first;
            let s = match solve_ivp(&f, 0.0, 1.0, &[1.0, 0.5], o) { Ok(s) => s, Err(_) => continue };
            if s.nfev != f.ode.get() || s.njev != f.jac.get() {
                return Some(format!("{:?} first_step={:?} on y'=Ay, [0,1]: nfev={} but the right-hand side was called {} times; njev={} but jac was called {} times", m, first, s.nfev, f.ode.get(), s.njev, f.jac.get()));
            }
        }
    }
    None
}


/// C03/C18: without t_eval every accepted step is reported, so the last sample of a successful run is xend and
/// the number of reported intervals is naccpt -- also when the steps are shorter than 1e-12
fn short_steps_reported() -> Option<String> {
    for span in [1e-11, 1e-12, -5e-13] {
        for m in [Method::RK4, Method::RK23, Method::DOPRI5, Method::DOP853, Method::BDF] {
            let f = Lin::new();
            let s = match solve_ivp(&f, 0.0, span, &[1.0, 2.0], Options::builder().method(m.clone()).build()) { Ok(s) => s, Err(_) => continue };
            if s.status == Status::Success && (s.t.last().copied() != Some(span) || s.t.len() != s.naccpt + 1) {
                return Some(format!("{:?} on [0, {:e}]: status Success, naccpt={} but {} samples are reported and the last one is t={:?}", m, span, s.naccpt, s.t.len(), s.t.last()));
            }
        }
    }
    None
}

/// C03/C11: a first_step of either sign, or larger than the interval, never puts a sample outside [x0, xend],
/// keeps the samples monotone and still reports xend
fn first_step_sign_and_overshoot() -> Option<String> {
    for (x0, xend, fs) in [(0.0, 1.0, -0.1), (0.0, -1.0, -0.1), (0.0, 1.0, 2.0), (0.0, 1e-4, 1.0), (0.0, -1.0, 3.0)] {
        for m in [Method::RK23, Method::DOPRI5, Method::DOP853, Method::RADAU, Method::BDF] {
            let f = Lin::new();
            let mut o = Options::builder().method(m.clone()).build();
            o.first_step = Some(fs);
            let s = match solve_ivp(&f, x0, xend, &[1.0, 2.0], o) { Ok(s) => s, Err(_) => continue };
            let (lo, hi) = if x0 < xend { (x0, xend) } else { (xend, x0) };
            let outside = s.t.iter().any(|t| *t < lo || *t > hi);
            let monotone = s.t.windows(2).all(|w| if xend > x0 { w[1] > w[0] } else { w[1] < w[0] });
            if outside || !monotone || (s.status == Status::Success && s.t.last().copied() != Some(xend)) {
                let head: Vec<f64> = s.t.iter().take(4).copied().collect();
                return Some(format!("{:?} on [{}, {}] with first_step={}: status {:?}, t starts {:?}, ends {:?} ({} samples)", m, x0, xend, fs, s.status, head, s.t.last(), s.t.len()));
            }
        }
    }
    None
}


/// C03: status Success exactly when the whole interval was covered -- also when the very first step reaches xend
fn first_step_reaches_xend() -> Option<String> {
    for (x0, xend, fs) in [(0.0, 1e-3, 1e-3), (0.0, -1e-3, 1e-3), (0.0, 1e-4, 1.0), (1.0, 1.0 + 1e-7, 1.0)] {
        for m in [Method::RK23, Method::DOPRI5, Method::DOP853, Method::RADAU, Method::BDF] {
            let f = Lin::new();
            let mut o = Options::builder().method(m.clone()).rtol(1e-3).atol(1e-6).build();
            o.first_step = Some(fs);
            let s = match solve_ivp(&f, x0, xend, &[1.0, 2.0], o) { Ok(s) => s, Err(_) => continue };
            if s.t.last().copied() == Some(xend) && s.status != Status::Success {
                return Some(format!("{:?} on [{}, {}] with first_step={}: the last sample is xend (naccpt={}) but the status is {:?}", m, x0, xend, fs, s.naccpt, s.status));
            }
        }
    }
    None
}


/// C07/C06: inside a step the dense output is accurate to the interpolant's order (RK4: cubic Hermite, error O(h^4)):
/// halving h must reduce the mid-step error of sol(t) by about 16, and the error must be of the size of h^4
fn dense_midstep_order() -> Option<String> {
    let mut errs = Vec::new();
    for h in [0.1, 0.05, 0.025] {
        let f = Lin::new();
        let mut o = Options::builder().method(Method::RK4).dense_output(true).build();
        o.first_step = Some(h);
        let s = match solve_ivp(&f, 0.0, 1.0, &[1.0, 2.0], o) { Ok(s) => s, Err(e) => return Some(format!("RK4 h={}: {:?}", h, e)) };
        let mut worst: f64 = 0.0;
        for w in s.t.windows(2) {
            let tm = 0.5 * (w[0] + w[1]);
            if let Ok(y) = s.sol(tm) { worst = worst.max((y[0] - (-tm).exp()).abs()); }
        }
        errs.push((h, worst));
    }
    let r1 = errs[0].1 / errs[1].1; let r2 = errs[1].1 / errs[2].1;
    if r1 < 8.0 || r2 < 8.0 || errs[0].1 > 1e-5 {
        return Some(format!("RK4 dense output on y'=-y, mid-step error of sol(t): {:?}; ratios {:.2}, {:.2} (a cubic Hermite interpolant gives about 16 and an error near 1e-7 at h=0.1)", errs, r1, r2));
    }
    None
}


/// C17: a + b and a - b have the shape of the operands and, entry by entry, the sum / difference of their dense views,
/// whatever the storage schemes (also for rectangular Full matrices)
fn matrix_arith_dense_model() -> Option<String> {
    use ivp::matrix::Matrix;
    fn fill(mut m: Matrix, seed: f64) -> Matrix {
        let (n, mm) = m.dims();
        for i in 0..n { for j in 0..mm {
            let ok = std::panic::catch_unwind(std::panic::AssertUnwindSafe(|| { let mut c = m.clone(); c[(i, j)] = 1.0; })).is_ok();
            if ok { m[(i, j)] = seed + (3 * i + j) as f64; }
        } }
        m
    }
    let prev = std::panic::take_hook(); std::panic::set_hook(Box::new(|_| {}));
    let mut res = None;
    'outer: for (n, mm) in [(2usize, 3usize), (3, 3), (3, 2)] {
        let mut cands: Vec<(String, Matrix)> = vec![("full".into(), fill(Matrix::full(n, mm), 1.0))];
        if n == mm { cands.push(("identity".into(), Matrix::identity(n))); cands.push(("banded(1,0)".into(), fill(Matrix::banded(n, 1, 0), 2.0))); cands.push(("banded(0,2)".into(), fill(Matrix::banded(n, 0, 2), 5.0))); }
        for (na, a) in &cands { for (nb, b) in &cands {
            for op in ["+", "-"] {
                let (a2, b2) = (a.clone(), b.clone());
                let r = std::panic::catch_unwind(move || if op == "+" { a2 + b2 } else { a2 - b2 });
                let c = match r { Ok(c) => c, Err(_) => { res = Some(format!("{}x{} {} {} {}: panicked", n, mm, na, op, nb)); break 'outer; } };
                if c.dims() != (n, mm) { res = Some(format!("{}x{} {} {} {}: the result has dims {:?}", n, mm, na, op, nb, c.dims())); break 'outer; }
                for i in 0..n { for j in 0..mm {
                    let want = if op == "+" { a[(i, j)] + b[(i, j)] } else { a[(i, j)] - b[(i, j)] };
                    if c[(i, j)] != want { res = Some(format!("{}x{} {} {} {}: entry ({},{}) is {} instead of {}", n, mm, na, op, nb, i, j, c[(i, j)], want)); break 'outer; }
                } }
            }
        } }
    }
    std::panic::set_hook(prev);
    res
}

/// C16: factorise + solve on small-integer matrices (exhaustive 2x2 with entries -2..2, a deterministic sample of 3x3 and
/// 4x4, real and complex): residual, multiplier magnitudes, SingularMatrix only for singular input
fn lu_small() -> Option<String> {
    use ivp::matrix::{lin_solve, lin_solve_complex, lu_decomp, lu_decomp_complex, Matrix};
    fn det(n: usize, a: &[f64]) -> f64 {
        // exact for small integers: cofactor expansion
        if n == 1 { return a[0]; }
        let mut d = 0.0;
        for c in 0..n {
            let mut sub = Vec::new();
            for i in 1..n { for j in 0..n { if j != c { sub.push(a[i * n + j]); } } }
            d += (if c % 2 == 0 { 1.0 } else { -1.0 }) * a[c] * det(n - 1, &sub);
        }
        d
    }
    let mut seed: u64 = 0x2545F4914F6CDD1D;
    let mut next = move || { seed ^= seed << 13; seed ^= seed >> 7; seed ^= seed << 17; ((seed >> 11) % 5) as f64 - 2.0 };
    let mut cases: Vec<(usize, Vec<f64>)> = Vec::new();
    for code in 0..625u32 { let mut c = code; let mut v = vec![0.0; 4]; for e in v.iter_mut() { *e = (c % 5) as f64 - 2.0; c /= 5; } cases.push((2, v)); }
    for _ in 0..4000 { let v: Vec<f64> = (0..9).map(|_| next()).collect(); cases.push((3, v)); }
    for _ in 0..2000 { let v: Vec<f64> = (0..16).map(|_| next()).collect(); cases.push((4, v)); }
    for (n, av) in cases.iter() {
        let n = *n;
        let b: Vec<f64> = (0..n).map(|i| (i as f64) - 1.0 + if i == 0 { 3.0 } else { 0.0 }).collect();
        let mut a = Matrix::from_vec(n, n, av.clone());
        let mut ip = vec![0usize; n];
        let d = det(n, av);
        match lu_decomp(&mut a, &mut ip) {
            Err(_) => { if d != 0.0 { return Some(format!("lu_decomp rejects the nonsingular {}x{} matrix {:?} (det {})", n, n, av, d)); } }
            Ok(()) => {
                if d == 0.0 { continue; }   // a singular matrix whose last pivot is a rounding residue is accepted: the property speaks of exactly zero pivot columns
                for k in 0..n { for i in k + 1..n { if a[(i, k)].abs() > 1.0 { return Some(format!("multiplier {} at ({},{}) for {:?}", a[(i, k)], i, k, av)); } } }
                let mut x = b.clone();
                lin_solve(&a, &mut x, &ip);
                for i in 0..n {
                    let r: f64 = (0..n).map(|j| av[i * n + j] * x[j]).sum::<f64>() - b[i];
                    if !(r.abs() <= 1e-9) { return Some(format!("A={:?} ({}x{}), b={:?}: lu_decomp+lin_solve give x={:?}, residual row {} = {:e}", av, n, n, b, x, i, r)); }
                }
            }
        }
    }
    // complex: (AR + i AI) z = (br + i bi)
    for t in 0..3000 {
        let n = 2 + (t % 3);
        let arv: Vec<f64> = (0..n * n).map(|_| next()).collect();
        let aiv: Vec<f64> = (0..n * n).map(|_| next()).collect();
        let br: Vec<f64> = (0..n).map(|_| next()).collect();
        let bi: Vec<f64> = (0..n).map(|_| next()).collect();
        let mut ar = Matrix::from_vec(n, n, arv.clone());
        let mut ai = Matrix::from_vec(n, n, aiv.clone());
        let mut ip = vec![0usize; n];
        if lu_decomp_complex(&mut ar, &mut ai, &mut ip).is_err() { continue; }
        let (mut xr, mut xi) = (br.clone(), bi.clone());
        lin_solve_complex(&ar, &ai, &mut xr, &mut xi, &ip);
        let scale: f64 = xr.iter().chain(xi.iter()).fold(1.0, |m: f64, v| m.max(v.abs()));
        for i in 0..n {
            let rr: f64 = (0..n).map(|j| arv[i * n + j] * xr[j] - aiv[i * n + j] * xi[j]).sum::<f64>() - br[i];
            let ri: f64 = (0..n).map(|j| arv[i * n + j] * xi[j] + aiv[i * n + j] * xr[j]).sum::<f64>() - bi[i];
            if !(rr.abs() <= 1e-9 * scale && ri.abs() <= 1e-9 * scale) {
                return Some(format!("complex {}x{}: AR={:?} AI={:?} b=({:?},{:?}): x=({:?},{:?}), residual row {} = ({:e},{:e})", n, n, arv, aiv, br, bi, xr, xi, i, rr, ri));
            }
        }
    }
    None
}

/// C16 (finding F23): DECC's pivot search compares |re| + |im|, so the modulus of a stored complex multiplier can exceed 1
fn complex_multiplier_modulus() -> Option<String> {
    use ivp::matrix::{lu_decomp_complex, Matrix};
    let mut ar = Matrix::from_vec(2, 2, vec![1.0, 1.0, 2.0, 1.0]);
    let mut ai = Matrix::from_vec(2, 2, vec![1.0, 0.0, 0.0, 0.0]);
    let mut ip = vec![0usize; 2];
    if lu_decomp_complex(&mut ar, &mut ai, &mut ip).is_err() { return None; }
    let m = (ar[(1, 0)] * ar[(1, 0)] + ai[(1, 0)] * ai[(1, 0)]).sqrt();
    if m > 1.0 + 1e-12 {
        return Some(format!("A = [[1+i, 1],[2, 1]]: lu_decomp_complex keeps row 0 as pivot row (|1|+|1| = |2|+|0|) and stores the multiplier ({}, {}) of modulus {}", ar[(1, 0)], ai[(1, 0)], m));
    }
    None
}

/// C06: the interpolant handed to each callback meets the previous sample at its left end and this sample at its right end
/// (Radau and BDF through their low-level solve(); tolerance 1e-9 relative: the identities are exact up to rounding)
fn dense_end_points() -> Option<String> {
    use ivp::methods::{BDF, RADAU};
    use ivp::solout::SolOut;
    struct Osc;
    impl IVP for Osc { fn ode(&self, t: f64, y: &[f64], d: &mut [f64]) { d[0] = y[1]; d[1] = -y[0] + 0.1 * t.sin(); } }
    struct Probe { prev: Option<Vec<f64>>, bad: Option<String>, steps: usize, prev_x: Option<f64> }
    impl SolOut for Probe {
        fn solout(&mut self, xold: f64, x: &mut f64, y: &mut [f64], interp: Option<&StepInterpolant<'_>>) -> ControlFlag {
            // C19: contiguous intervals: xold is the previous x (to rounding); the first call has xold == x
            match self.prev_x { None => { if self.bad.is_none() && xold != *x { self.bad = Some(format!("initial callback with xold = {:e}, x = {:e}", xold, *x)); } }
                Some(px) => { if self.bad.is_none() && !((xold - px).abs() <= 8.0 * f64::EPSILON * (px.abs() + (*x - px).abs())) { self.bad = Some(format!("callback for the step ending at x = {:e} is given xold = {:e}; the previous callback ended at {:e}", *x, xold, px)); } } }
            self.prev_x = Some(*x);
            if let (Some(ip), Some(prev)) = (interp, self.prev.as_ref()) {
                self.steps += 1;
                let mut l = vec![0.0; y.len()]; let mut r = vec![0.0; y.len()];
                ip.interpolate(xold, &mut l); ip.interpolate(*x, &mut r);
                for j in 0..y.len() {
                    let sc = 1.0 + y[j].abs() + prev[j].abs();
                    if self.bad.is_none() && !((l[j] - prev[j]).abs() <= 1e-9 * sc && (r[j] - y[j]).abs() <= 1e-9 * sc) {
                        self.bad = Some(format!("step {} [{:e}, {:e}] component {}: interpolant({:e}) = {:e} but the previous sample is {:e}; interpolant({:e}) = {:e}, this sample is {:e}", self.steps, xold, *x, j, xold, l[j], prev[j], *x, r[j], y[j]));
                    }
                }
            }
            self.prev = Some(y.to_vec());
            ControlFlag::Continue
        }
    }
    for (x0, xe) in [(0.0, 6.0), (6.0, 0.0)] {
        let mut p = Probe { prev: None, bad: None, steps: 0, prev_x: None };
        let _ = RADAU::builder().dense_output(true).build().solve(&Osc, x0, &[1.0, 0.0], xe, 1e-6.into(), 1e-9.into(), Some(&mut p));
        if let Some(b) = p.bad { return Some(format!("RADAU y''=-y+0.1 sin t on [{}, {}]: {}", x0, xe, b)); }
        let mut p = Probe { prev: None, bad: None, steps: 0, prev_x: None };
        let _ = BDF::builder().build().solve(&Osc, x0, &[1.0, 0.0], xe, 1e-6.into(), 1e-9.into(), Some(&mut p));
        if let Some(b) = p.bad { return Some(format!("BDF y''=-y+0.1 sin t on [{}, {}]: {}", x0, xe, b)); }
    }
    None
}

/// C08 / C03: the root finder never leaves the step: one RK4 step over the whole span, event functions that depend on t only;
/// every time at which the event function is evaluated must lie in [x0, xend], and so must every reported event time
fn brent_stays_in_bracket() -> Option<String> {
    struct G { kind: usize, c: f64, al: f64, lo: Cell<f64>, hi: Cell<f64> }
    impl G { fn g(&self, t: f64) -> f64 { match self.kind {
        0 => (self.al * (t - self.c)).atan() + 0.3,
        1 => (self.al * t).exp() - (self.al * self.c).exp(),
        2 => (t - self.c).powi(3) + 1e-3 * (t - self.c),
        3 => (self.al * (t - self.c)).tanh() - 0.5,
        4 => 1.0 / (1.0 + (-(self.al) * (t - self.c)).exp()) - 0.2,
        _ => (t - self.c) * (1.0 + self.al * (t - self.c) * (t - self.c)),
    } } }
    impl IVP for G {
        fn ode(&self, _t: f64, _y: &[f64], d: &mut [f64]) { d[0] = 0.0; }
        fn n_events(&self) -> usize { 1 }
        fn events(&self, t: f64, _y: &[f64], out: &mut [f64]) {
            if t < self.lo.get() { self.lo.set(t); }
            if t > self.hi.get() { self.hi.set(t); }
            out[0] = self.g(t);
        }
    }
    for kind in 0..6 {
        for ci in 1..40 {
            for al in [0.5, 2.0, 5.0, 20.0, 80.0, 300.0] {
                for (x0, xe) in [(0.0, 1.0), (1.0, 0.0)] {
                    let c = ci as f64 / 40.0;
                    let f = G { kind, c, al, lo: Cell::new(f64::MAX), hi: Cell::new(f64::MIN) };
                    let r = solve_ivp(&f, x0, xe, &[0.0], Options::builder().method(Method::RK4).first_step(1.0).build());
                    let (lo, hi) = (f.lo.get(), f.hi.get());
                    if lo < -1e-12 || hi > 1.0 + 1e-12 {
                        return Some(format!("event function kind {} (c={}, alpha={}) on [{}, {}], one RK4 step: the event function was evaluated at times in [{:e}, {:e}], outside the step", kind, c, al, x0, xe, lo, hi));
                    }
                    if let Ok(sol) = r { for te in sol.t_events[0].iter() { if *te < -1e-12 || *te > 1.0 + 1e-12 {
                        return Some(format!("event function kind {} (c={}, alpha={}) on [{}, {}]: reported event time {:e} outside the step", kind, c, al, x0, xe, te)); } } }
                }
            }
        }
    }
    None
}

/// C03 / C06: problems whose time scale is tiny (femtoseconds in SI units): absolute thresholds must not decide anything
fn tiny_time_scale() -> Option<String> {
    struct Osc { w: f64 }
    impl IVP for Osc { fn ode(&self, t: f64, _y: &[f64], d: &mut [f64]) { d[0] = self.w * (self.w * t).cos(); } }
    // (a) a span shorter than 1e-15 is still an interval to cover
    for m in [Method::RK4, Method::RK23, Method::DOPRI5, Method::DOP853, Method::RADAU, Method::BDF] {
        let f = Osc { w: 1e15 };
        let xe = 5e-16;
        if let Ok(s) = solve_ivp(&f, 0.0, xe, &[0.0], Options::builder().method(m.clone()).build()) {
            let last = *s.t.last().unwrap();
            if s.status == Status::Success && last != xe {
                return Some(format!("{:?} on [0, {:e}] (y' = w cos(w t), w = 1e15): status Success but the last sample is t = {:e}, y = {:?}; y(xend) = {:e}", m, xe, last, s.y.last().unwrap(), (1e15f64 * xe).sin()));
            }
        }
    }
    // (b) sol(t_i) reproduces every stored sample, whatever the step length
    for m in [Method::RK4, Method::DOPRI5, Method::RADAU, Method::BDF] {
        let f = Osc { w: 1e12 };
        let xe = 6e-12;
        if let Ok(s) = solve_ivp(&f, 0.0, xe, &[0.0], Options::builder().method(m.clone()).dense_output(true).rtol(1e-8).atol(1e-10).build()) {
            for (i, ti) in s.t.iter().enumerate() {
                if let Ok(v) = s.sol(*ti) {
                    if (v[0] - s.y[i][0]).abs() > 1e-6 {
                        return Some(format!("{:?} on [0, {:e}] (y = sin(w t), w = 1e12), dense output: sample {} is (t, y) = ({:e}, {:e}) but sol(t) = {:e}", m, xe, i, ti, s.y[i][0], v[0]));
                    }
                } else { return Some(format!("{:?}: sol({:e}) is an error although the time is a stored sample", m, ti)); }
            }
        }
    }
    // (c) requested output times are answered by the step that contains them, whatever the time scale
    for m in [Method::RK4, Method::DOPRI5, Method::RADAU, Method::BDF] {
        let w = 1e12; let xe = 6e-12;
        let te: Vec<f64> = (1..=40).map(|i| xe * (i as f64) / 40.0).collect();
        if let Ok(s) = solve_ivp(&Osc { w }, 0.0, xe, &[0.0], Options::builder().method(m.clone()).t_eval(te.clone()).rtol(1e-8).atol(1e-10).build()) {
            for (t, y) in s.t.iter().zip(s.y.iter()) {
                let e = (y[0] - (w * t).sin()).abs();
                if s.status == Status::Success && e > 1e-5 {
                    return Some(format!("{:?} on [0, {:e}] (y = sin(w t), w = 1e12) with 40 requested times: status Success, but the value reported at t = {:e} is {:e}, y(t) = {:e}", m, xe, t, y[0], (w * t).sin()));
                }
            }
        }
    }
    None
}

/// C09 / C08: multiplying an event function by a positive constant does not move its roots: the reported event time must not
/// depend on the magnitude of the event function
fn event_function_scale() -> Option<String> {
    struct Ramp { scale: f64 }   // y' = 1; event: scale * (y - 0.505)
    impl IVP for Ramp {
        fn ode(&self, _t: f64, _y: &[f64], d: &mut [f64]) { d[0] = 1.0; }
        fn n_events(&self) -> usize { 1 }
        fn events(&self, _t: f64, y: &[f64], out: &mut [f64]) { out[0] = self.scale * (y[0] - 0.505); }
    }
    for m in [Method::RK4, Method::DOPRI5, Method::RADAU] {
        for scale in [1.0, 1e-6, 1e-10, 1e-13, 1e-16] {
            if let Ok(s) = solve_ivp(&Ramp { scale }, 0.0, 1.0, &[0.0], Options::builder().method(m.clone()).build()) {
                let te = s.t_events[0].clone();
                if te.len() != 1 || (te[0] - 0.505).abs() > 1e-9 {
                    return Some(format!("{:?}, y' = 1 on [0, 1], event function {:e} * (y - 0.505): reported event times {:?} (the root is t = 0.505)", m, scale, te));
                }
            }
        }
    }
    None
}

/// C19: for a linear homogeneous problem (atol = 0), a callback that doubles the state at one accepted step and returns
/// ModifiedSolution doubles everything that follows: the same step sequence, states exactly twice those of the plain run
fn modified_solution_doubling() -> Option<String> {
    use ivp::methods::{BDF, DOP853, DOPRI5, RADAU, RK23};
    use ivp::solout::SolOut;
    struct Lin;
    impl IVP for Lin {
        fn ode(&self, _t: f64, y: &[f64], d: &mut [f64]) { d[0] = -y[0] + 0.5 * y[1]; d[1] = 0.25 * y[0] - 2.0 * y[1]; }
        fn jac(&self, _t: f64, _y: &[f64], j: &mut ivp::matrix::Matrix) { j[(0, 0)] = -1.0; j[(0, 1)] = 0.5; j[(1, 0)] = 0.25; j[(1, 1)] = -2.0; }
    }
    struct Rec { at: usize, fac: f64, n: usize, log: Vec<(f64, f64, Vec<f64>)> }
    impl SolOut for Rec {
        fn solout(&mut self, xold: f64, x: &mut f64, y: &mut [f64], _i: Option<&StepInterpolant<'_>>) -> ControlFlag {
            self.n += 1;
            if self.n == self.at { for v in y.iter_mut() { *v *= self.fac; } self.log.push((xold, *x, y.to_vec())); return ControlFlag::ModifiedSolution; }
            self.log.push((xold, *x, y.to_vec()));
            ControlFlag::Continue
        }
    }
    let run = |name: &str, at: usize, fac: f64| -> Vec<(f64, f64, Vec<f64>)> {
        let mut r = Rec { at, fac, n: 0, log: Vec::new() };
        let (rt, at0): (ivp::methods::Tolerance, ivp::methods::Tolerance) = (1e-6.into(), 0.0.into());
        match name {
            "RADAU" => { let _ = RADAU::builder().build().solve(&Lin, 0.0, &[1.0, 1.0], 2.0, rt, at0, Some(&mut r)); }
            "BDF" => { let _ = BDF::builder().build().solve(&Lin, 0.0, &[1.0, 1.0], 2.0, rt, at0, Some(&mut r)); }
            "DOPRI5" => { let _ = DOPRI5::builder().build().solve(&Lin, 0.0, &[1.0, 1.0], 2.0, rt, at0, Some(&mut r)); }
            "DOP853" => { let _ = DOP853::builder().build().solve(&Lin, 0.0, &[1.0, 1.0], 2.0, rt, at0, Some(&mut r)); }
            _ => { let _ = RK23::builder().build().solve(&Lin, 0.0, &[1.0, 1.0], 2.0, rt, at0, Some(&mut r)); }
        }
        r.log
    };
    for name in ["RK23", "DOPRI5", "DOP853", "RADAU", "BDF"] {
        let base = run(name, usize::MAX, 1.0);
        for at in [3usize, 6] {
            if at >= base.len() { continue; }
            // an unchanged state handed back with ModifiedSolution is a no-op
            let same = run(name, at, 1.0);
            if same.len() != base.len() || (0..base.len()).any(|k| same[k] != base[k]) {
                let k = (0..base.len().min(same.len())).find(|&k| same[k] != base[k]).unwrap_or(0);
                return Some(format!("{}: callback {} returns ModifiedSolution without changing the state; the run then has {} accepted steps instead of {}, first difference at callback {}: step [{:e}, {:e}] against [{:e}, {:e}]", name, at, same.len() - 1, base.len() - 1, k + 1, same[k].0, same[k].1, base[k].0, base[k].1));
            }
            if name == "BDF" { continue; }
            if name == "RADAU" {
                // Radau's Newton starting values are extrapolated from the previous step and do not scale with the state, so the
                // continuation is not bit-for-bit twice the plain run; but the error scale must be that of the modified state:
                // scaling the state by 2^20 must not change the number of steps taken (a stale scale makes the error norm 10^6 times
                // too large and the following steps 30 times too short)
                let big = run(name, at, 1048576.0);
                let (nb, np) = (big.len() as i64, base.len() as i64);
                if (nb - np).abs() > 2 {
                    return Some(format!("RADAU: the state is scaled by 2^20 in callback {} (ModifiedSolution, atol = 0, linear homogeneous problem): the run then takes {} accepted steps, the plain run {}; step after the callback: [{:e}, {:e}] against [{:e}, {:e}]", at, nb - 1, np - 1, big[at].0, big[at].1, base[at].0, base[at].1));
                }
                continue;
            }
            let dbl = run(name, at, 2.0);
            if dbl.len() != base.len() { return Some(format!("{}: doubling the state in callback {} changes the number of accepted steps from {} to {}", name, at, base.len() - 1, dbl.len() - 1)); }
            for k in 0..base.len() {
                let f = if k + 1 >= at { 2.0 } else { 1.0 };
                // explicit methods: exactly; Radau: up to the accuracy of its Newton iteration (the starting values of the iteration
                // are extrapolated from the previous step and do not scale with the state)
                let tol = if name == "RADAU" { 1e-6 } else { 0.0 };
                let same_t = (dbl[k].0 - base[k].0).abs() <= tol * (1.0 + base[k].0.abs()) && (dbl[k].1 - base[k].1).abs() <= tol * (1.0 + base[k].1.abs());
                let same_y = (0..2).all(|j| (dbl[k].2[j] - f * base[k].2[j]).abs() <= tol * (f * base[k].2[j]).abs());
                if !(same_t && same_y) {
                    return Some(format!("{}: the state is doubled in callback {} (ModifiedSolution); callback {} then reports step [{:e}, {:e}] with y = {:?}, the plain run has [{:e}, {:e}] with y = {:?} (expected exactly {} times that)", name, at, k + 1, dbl[k].0, dbl[k].1, dbl[k].2, base[k].0, base[k].1, base[k].2, f));
                }
            }
        }
    }
    None
}

/// C13: duplicating the system into independent identical copies leaves the step sequence unchanged (the error norm is a root
/// mean square over the components) up to rounding in the norm
fn duplication_invariance() -> Option<String> {
    struct Copies { k: usize }   // k copies of a linear 3x3 system with analytic Jacobian
    impl IVP for Copies {
        fn ode(&self, _t: f64, y: &[f64], d: &mut [f64]) {
            for c in 0..self.k { let (a, b, e) = (y[3 * c], y[3 * c + 1], y[3 * c + 2]);
                d[3 * c] = -0.5 * a + 2.0 * b; d[3 * c + 1] = -2.0 * a - 0.5 * b + 0.3 * e; d[3 * c + 2] = -3.0 * e + 0.1 * a; }
        }
        fn jac(&self, _t: f64, _y: &[f64], j: &mut ivp::matrix::Matrix) {
            for c in 0..self.k { let o = 3 * c;
                j[(o, o)] = -0.5; j[(o, o + 1)] = 2.0; j[(o + 1, o)] = -2.0; j[(o + 1, o + 1)] = -0.5; j[(o + 1, o + 2)] = 0.3; j[(o + 2, o + 2)] = -3.0; j[(o + 2, o)] = 0.1; }
        }
    }
    for m in [Method::RK23, Method::DOPRI5, Method::DOP853, Method::RADAU, Method::BDF] {
        let run = |k: usize| { let y0: Vec<f64> = (0..3 * k).map(|i| [1.0, 0.5, -0.25][i % 3]).collect();
            solve_ivp(&Copies { k }, 0.0, 6.0, &y0, Options::builder().method(m.clone()).rtol(1e-6).atol(1e-9).first_step(1e-3).build()).unwrap() };
        let base = run(1);
        for k in [2usize, 5] {
            let s = run(k);
            if (s.nstep, s.naccpt, s.nrejct) != (base.nstep, base.naccpt, base.nrejct) {
                return Some(format!("{:?}: {} identical copies of a 3x3 linear system: (nstep, naccpt, nrejct) = {:?}, one copy gives {:?}", m, k, (s.nstep, s.naccpt, s.nrejct), (base.nstep, base.naccpt, base.nrejct)));
            }
        }
    }
    None
}

/// C06: sol(t) succeeds at every reported sample, in particular at the last one (xend), and reproduces it
fn sol_at_every_sample() -> Option<String> {
    struct Osc;
    impl IVP for Osc { fn ode(&self, _t: f64, y: &[f64], d: &mut [f64]) { d[0] = y[1]; d[1] = -4.0 * y[0] - 0.1 * y[1]; } }
    let mut seed = 777u64;
    let mut rnd = move || { seed = seed.wrapping_mul(6364136223846793005).wrapping_add(1442695040888963407); ((seed >> 11) as f64) / ((1u64 << 53) as f64) };
    for trial in 0..300 {
        let x0 = -2.0 + 4.0 * rnd(); let span = 0.2 + 8.0 * rnd(); let xe = if rnd() < 0.5 { x0 - span } else { x0 + span };
        let m = [Method::RK4, Method::RK23, Method::DOPRI5, Method::DOP853, Method::RADAU, Method::BDF][trial % 6].clone();
        let rt = 10f64.powf(-3.0 - 6.0 * rnd());
        let mut o = Options::builder().method(m.clone()).rtol(rt).atol(rt * 1e-3).dense_output(true).build();
        if m == Method::RK4 && trial % 12 == 0 { o.first_step = Some(0.3 * (xe - x0).signum()); }   // a step that does not divide the interval: the last one is clipped
        if let Ok(s) = solve_ivp(&Osc, x0, xe, &[1.0, 0.0], o) {
            if s.status != Status::Success { continue; }
            if let Some((_, b)) = s.sol_span() { let last = *s.t.last().unwrap(); if (b - last).abs() > 1e-9 * (1.0 + last.abs()) { return Some(format!("{:?} on [{:e}, {:e}]: the last reported time is {:e}, sol_span ends at {:e}", m, x0, xe, last, b)); } }
            for (i, t) in s.t.iter().enumerate() {
                match s.sol(*t) {
                    Err(e) => return Some(format!("{:?} on [{:e}, {:e}], rtol {:.1e}: sol(t) at the reported sample {} of {} (t = {:e}) fails with {:?}; sol_span = {:?}", m, x0, xe, rt, i, s.t.len() - 1, t, e, s.sol_span())),
                    Ok(v) => { if (v[0] - s.y[i][0]).abs() > 1e-9 * (1.0 + s.y[i][0].abs()) { return Some(format!("{:?} on [{:e}, {:e}]: sol({:e}) = {:e} but the stored sample is {:e}", m, x0, xe, t, v[0], s.y[i][0])); } }
                }
            }
        }
    }
    None
}

/// C08 / C10: several event functions crossing in one accepted step (forward and backward): every (t_e, y_e) is a root with the
/// continuous state; with a terminal event, events of the same step earlier than the stop are kept and none later is reported
fn events_multi_in_step() -> Option<String> {
    struct Sho { levels: Vec<f64>, terminal: Option<usize> }
    impl IVP for Sho {
        fn ode(&self, _t: f64, y: &[f64], d: &mut [f64]) { d[0] = y[1]; d[1] = -y[0]; }
        fn n_events(&self) -> usize { self.levels.len() }
        fn events(&self, _t: f64, y: &[f64], out: &mut [f64]) { for (i, l) in self.levels.iter().enumerate() { out[i] = y[0] - l; } }
        fn event_config(&self, i: usize) -> EventConfig { let mut c = EventConfig::new(); if self.terminal == Some(i) { c.terminal(); } c }
    }
    for m in [Method::DOPRI5, Method::DOP853, Method::RK23, Method::RADAU, Method::BDF] {
        for (x0, xe) in [(0.0, 3.0), (0.0, -3.0)] {
            for levels in [vec![0.30, 0.31], vec![0.31, 0.30], vec![0.30, 0.32, 0.31]] {
                let f = Sho { levels: levels.clone(), terminal: None };
                let s = solve_ivp(&f, x0, xe, &[1.0, 0.0], Options::builder().method(m.clone()).rtol(1e-8).atol(1e-10).dense_output(true).build()).ok()?;
                for i in 0..levels.len() { for (te, ye) in s.t_events[i].iter().zip(s.y_events[i].iter()) {
                    if (ye[0] - levels[i]).abs() > 1e-7 { return Some(format!("{:?} on [{}, {}], levels {:?}: event {} at t = {:e} is stored with y0 = {:e}, the level is {}", m, x0, xe, levels, i, te, ye[0], levels[i])); }
                    if let Ok(v) = s.sol(*te) { if (v[0] - ye[0]).abs() > 1e-7 { return Some(format!("{:?} on [{}, {}], levels {:?}: event {} at t = {:e}: stored state {:e}, sol(t_e) = {:e}", m, x0, xe, levels, i, te, ye[0], v[0])); } }
                } }
                // the same run with function 0 terminal: events of the other functions not later than the stop are those of the plain run
                let ft = Sho { levels: levels.clone(), terminal: Some(0) };
                let st = solve_ivp(&ft, x0, xe, &[1.0, 0.0], Options::builder().method(m.clone()).rtol(1e-8).atol(1e-10).build()).ok()?;
                if st.status != Status::UserInterrupt || st.t_events[0].is_empty() { continue; }
                let stop = st.t_events[0][0]; let sg = if xe > x0 { 1.0 } else { -1.0 };
                for i in 1..levels.len() {
                    let want: Vec<f64> = s.t_events[i].iter().copied().filter(|t| (t - stop) * sg <= 0.0).collect();
                    if st.t_events[i].len() != want.len() || st.t_events[i].iter().zip(want.iter()).any(|(a, b)| (a - b).abs() > 1e-9) {
                        return Some(format!("{:?} on [{}, {}], levels {:?}, function 0 terminal (stop at t = {:e}): events of function {} are {:?}, the plain run has {:?} up to the stop", m, x0, xe, levels, stop, i, st.t_events[i], want));
                    }
                }
            }
        }
    }
    None
}

/// C15: a Jacobian supplied in Full or in Banded storage (asymmetric band) gives bit-identical BDF and Radau runs
fn banded_jacobian_storage() -> Option<String> {
    use ivp::matrix::{Matrix, MatrixStorage};
    struct Chain;   // y_i' = -(i+1) y_i + 0.5 y_{i+1} - 0.3 y_{i-1} + 0.1 y_{i-2}^2   (band ml = 2, mu = 1)
    impl IVP for Chain {
        fn ode(&self, _t: f64, y: &[f64], d: &mut [f64]) { let n = y.len(); for i in 0..n { let mut v = -((i + 1) as f64) * y[i]; if i + 1 < n { v += 0.5 * y[i + 1]; } if i >= 1 { v -= 0.3 * y[i - 1]; } if i >= 2 { v += 0.1 * y[i - 2] * y[i - 2]; } d[i] = v; } }
        fn jac(&self, _t: f64, y: &[f64], j: &mut Matrix) { let n = y.len(); for i in 0..n { j[(i, i)] = -((i + 1) as f64); if i + 1 < n { j[(i, i + 1)] = 0.5; } if i >= 1 { j[(i, i - 1)] = -0.3; } if i >= 2 { j[(i, i - 2)] = 0.2 * y[i - 2]; } } }
    }
    let y0 = [1.0, 0.8, 0.6, 0.4, 0.2, 0.1];
    for m in [Method::BDF, Method::RADAU] {
        let run = |st: MatrixStorage| solve_ivp(&Chain, 0.0, 2.0, &y0, Options::builder().method(m.clone()).rtol(1e-7).atol(1e-9).jac_storage(st).build()).unwrap();
        let a = run(MatrixStorage::Full); let b = run(MatrixStorage::Banded { ml: 2, mu: 1 });
        if a.t != b.t || a.y != b.y { return Some(format!("{:?}: Jacobian in Banded {{ ml: 2, mu: 1 }} storage: {} accepted steps, in Full storage {} (the trajectories are not bit-identical)", m, b.naccpt, a.naccpt)); }
    }
    None
}

/// C06 (degenerate run): x0 == xend with dense output: Success, one sample, sol(x0) is the initial state for every method
fn zero_length_dense() -> Option<String> {
    struct F;
    impl IVP for F { fn ode(&self, _t: f64, y: &[f64], d: &mut [f64]) { d[0] = y[1]; d[1] = -y[0]; } }
    for m in [Method::RK4, Method::RK23, Method::DOPRI5, Method::DOP853, Method::RADAU, Method::BDF] {
        for x0 in [0.0, 1.0, -3.5, 1e-13, 1e9] {
            let y0 = [0.25, -2.0];
            match solve_ivp(&F, x0, x0, &y0, Options::builder().method(m.clone()).dense_output(true).build()) {
                Err(e) => return Some(format!("{:?}: x0 == xend == {}: Err {:?}", m, x0, e)),
                Ok(s) => {
                    if s.status != Status::Success || s.t != vec![x0] || s.y.len() != 1 || s.y[0] != y0.to_vec() { return Some(format!("{:?}: x0 == xend == {}: status {:?}, t = {:?}, y = {:?}", m, x0, s.status, s.t, s.y)); }
                    match s.sol(x0) { Ok(v) => { if v != y0.to_vec() { return Some(format!("{:?}: x0 == xend == {}: sol(x0) = {:?}, the initial state is {:?}", m, x0, v, y0)); } }
                        Err(e) => return Some(format!("{:?}: x0 == xend == {}: sol(x0) fails with {:?} (sol_span = {:?})", m, x0, e, s.sol_span())) }
                }
            }
        }
    }
    None
}

/// C07 (BDF): the interpolant of order q is the polynomial through the q+1 back values its difference table encodes:
/// fed the backward differences of a polynomial of degree q on a uniform grid it must reproduce that polynomial everywhere in the step
fn bdf_interpolant_history() -> Option<String> {
    use ivp::methods::BDF;
    for q in 1..=5usize {
        for &(xn, h) in &[(1.0f64, 0.25f64), (-2.0, 0.5), (3.0, -0.125)] {
            let poly = |t: f64| -> f64 { let u = t - xn; (0..=q).fold(0.0, |acc, e| acc + (1.0 + e as f64) * u.powi(e as i32)) };
            // back values y(xn - j h), j = 0..q, and their backward differences
            let mut tab: Vec<f64> = (0..=q).map(|j| poly(xn - j as f64 * h)).collect();
            let mut d = vec![tab[0]];
            for _ in 1..=q { tab = (0..tab.len() - 1).map(|j| tab[j] - tab[j + 1]).collect(); d.push(tab[0]); }
            let mut cont = vec![0.0; 7];
            for (k, v) in d.iter().enumerate() { cont[k] = *v; }
            cont[6] = q as f64;
            for theta in [0.0, 0.125, 0.25, 0.5, 0.75, 0.875, 1.0] {
                let xi = (xn - h) + theta * h;
                let mut yi = [0.0];
                BDF::interpolate(xi, &mut yi, &cont, xn - h, h);
                let want = poly(xi);
                if !((yi[0] - want).abs() <= 1e-9 * (1.0 + want.abs())) {
                    return Some(format!("BDF::interpolate with the order-{} difference table of a degree-{} polynomial on the grid x = {} - j*{}: at theta = {} it returns {:e}, the polynomial is {:e}", q, q, xn, h, theta, yi[0], want));
                }
            }
        }
    }
    None
}

/// C13: time reflection. z'(s) = -f(-s, z) from -x0 to -xend must give the mirrored trajectory, bit for bit, for the explicit
/// methods and for the implicit ones with a user Jacobian (negation and |.| are exact in IEEE arithmetic)
fn time_reflection() -> Option<String> {
    struct Vdp { mu: f64, refl: bool }
    impl Vdp { fn f(&self, t: f64, y: &[f64], d: &mut [f64]) { d[0] = y[1]; d[1] = self.mu * (1.0 - y[0] * y[0]) * y[1] - y[0] + 0.3 * t.sin(); } }
    impl IVP for Vdp {
        fn ode(&self, t: f64, y: &[f64], d: &mut [f64]) {
            if self.refl { self.f(-t, y, d); for v in d.iter_mut() { *v = -*v; } } else { self.f(t, y, d); }
        }
        fn jac(&self, _t: f64, y: &[f64], j: &mut ivp::matrix::Matrix) {
            let sg = if self.refl { -1.0 } else { 1.0 };
            j[(0, 0)] = 0.0; j[(0, 1)] = sg * 1.0; j[(1, 0)] = sg * (-2.0 * self.mu * y[0] * y[1] - 1.0); j[(1, 1)] = sg * (self.mu * (1.0 - y[0] * y[0]));
        }
    }
    for m in [Method::RK4, Method::RK23, Method::DOPRI5, Method::DOP853, Method::RADAU, Method::BDF] {
        for &(mu, x0, xe, rtol) in &[(5.0f64, 0.3f64, 7.0f64, 1e-5f64), (1.0, -1.0, 4.0, 1e-7), (5.0, 6.0, 0.5, 1e-4)] {
            let y0 = [2.0, 0.0];
            let o = || Options::builder().method(m.clone()).rtol(rtol).atol(1e-8).build();
            let a = solve_ivp(&Vdp { mu, refl: false }, x0, xe, &y0, o());
            let b = solve_ivp(&Vdp { mu, refl: true }, -x0, -xe, &y0, o());
            let (a, b) = match (a, b) { (Ok(a), Ok(b)) => (a, b), (a, b) => return Some(format!("{:?} mu={} [{}, {}]: Ok/Err differ or both fail: {:?} / {:?}", m, mu, x0, xe, a.is_ok(), b.is_ok())) };
            if (a.nstep, a.naccpt, a.nrejct, a.nfev) != (b.nstep, b.naccpt, b.nrejct, b.nfev) || a.status != b.status {
                return Some(format!("{:?}: forced van der Pol mu={} on [{}, {}], rtol {:e}: (nstep, naccpt, nrejct, nfev) = {:?}, the time-reflected problem on [{}, {}] gives {:?}", m, mu, x0, xe, rtol, (a.nstep, a.naccpt, a.nrejct, a.nfev), -x0, -xe, (b.nstep, b.naccpt, b.nrejct, b.nfev)));
            }
            for i in 0..a.t.len() {
                if a.t[i] != -b.t[i] || a.y[i] != b.y[i] {
                    return Some(format!("{:?}: forced van der Pol mu={} on [{}, {}], rtol {:e}: sample {}: t = {:e}, y = {:?}; the time-reflected run has t = {:e}, y = {:?}", m, mu, x0, xe, rtol, i, a.t[i], a.y[i], b.t[i], b.y[i]));
                }
            }
        }
    }
    None
}

/// C13: time reflection of a mildly stiff problem: the stiffness detector of DOPRI5 / DOP853 must answer alike in both directions
fn time_reflection_stiff() -> Option<String> {
    struct St { refl: bool }
    impl IVP for St { fn ode(&self, t: f64, y: &[f64], d: &mut [f64]) { let tt = if self.refl { -t } else { t }; let v = -1e4 * (y[0] - tt.cos()); d[0] = if self.refl { -v } else { v }; } }
    for m in [Method::DOPRI5, Method::DOP853, Method::RK23] {
        for &(x0, xe) in &[(0.5f64, 1.5f64), (1.5, 0.5)] {
            let o = || Options::builder().method(m.clone()).rtol(1e-4).atol(1e-7).build();
            let (a, b) = match (solve_ivp(&St { refl: false }, x0, xe, &[x0.cos()], o()), solve_ivp(&St { refl: true }, -x0, -xe, &[x0.cos()], o())) { (Ok(a), Ok(b)) => (a, b), _ => return Some(format!("{:?}: stiff test problem fails in one direction only", m)) };
            if a.status != b.status || a.t.len() != b.t.len() || (a.nstep, a.naccpt, a.nrejct) != (b.nstep, b.naccpt, b.nrejct) {
                return Some(format!("{:?}: y' = -1e4 (y - cos x) on [{}, {}]: status {:?} after {} accepted steps; the time-reflected problem: status {:?} after {} accepted steps", m, x0, xe, a.status, a.naccpt, b.status, b.naccpt));
            }
        }
    }
    None
}

/// C13: scaling the state and atol of a linear homogeneous system by a power of two scales the trajectory by the same power, bit for bit
fn pow2_scaling() -> Option<String> {
    struct LinT;
    impl IVP for LinT {
        fn ode(&self, t: f64, y: &[f64], d: &mut [f64]) { d[0] = -0.5 * y[0] + (2.0 + t.cos()) * y[1]; d[1] = -(2.0 + t.cos()) * y[0] - 0.1 * y[1] + 0.3 * y[2]; d[2] = -3.0 * y[2] + 0.1 * t * y[0]; }
        fn jac(&self, t: f64, _y: &[f64], j: &mut ivp::matrix::Matrix) {
            j[(0, 0)] = -0.5; j[(0, 1)] = 2.0 + t.cos(); j[(0, 2)] = 0.0; j[(1, 0)] = -(2.0 + t.cos()); j[(1, 1)] = -0.1; j[(1, 2)] = 0.3; j[(2, 0)] = 0.1 * t; j[(2, 1)] = 0.0; j[(2, 2)] = -3.0;
        }
    }
    for m in [Method::RK4, Method::RK23, Method::DOPRI5, Method::DOP853, Method::RADAU, Method::BDF] {
        for &(x0, xe) in &[(0.0f64, 5.0f64), (3.0, -1.0)] {
            let run = |k: i32| { let sc = (2.0f64).powi(k); let y0 = [1.0 * sc, 0.5 * sc, -0.25 * sc];
                solve_ivp(&LinT, x0, xe, &y0, Options::builder().method(m.clone()).rtol(1e-6).atol(1e-9 * sc).build()) };
            let base = match run(0) { Ok(s) => s, Err(e) => return Some(format!("{:?}: base run fails: {:?}", m, e)) };
            for k in [10i32, -7, 40] {
                let sc = (2.0f64).powi(k);
                let s = match run(k) { Ok(s) => s, Err(e) => return Some(format!("{:?}: run scaled by 2^{} fails: {:?}", m, k, e)) };
                if s.t != base.t || (s.nstep, s.naccpt, s.nrejct, s.nfev) != (base.nstep, base.naccpt, base.nrejct, base.nfev) {
                    return Some(format!("{:?}: linear system on [{}, {}] with state and atol scaled by 2^{}: {} samples, (nstep, naccpt, nrejct, nfev) = {:?}; unscaled: {} samples, {:?}", m, x0, xe, k, s.t.len(), (s.nstep, s.naccpt, s.nrejct, s.nfev), base.t.len(), (base.nstep, base.naccpt, base.nrejct, base.nfev)));
                }
                for i in 0..s.t.len() { for c in 0..3 {
                    if s.y[i][c] != base.y[i][c] * sc { return Some(format!("{:?}: linear system on [{}, {}] scaled by 2^{}: sample {} component {}: {:e}, 2^{} times the unscaled value is {:e}", m, x0, xe, k, i, c, s.y[i][c], k, base.y[i][c] * sc)); }
                } }
            }
        }
    }
    None
}

/// C12: dense_output, t_eval and a non-terminal event change only what is reported: steps, states and statistics are those of the plain run
fn output_options() -> Option<String> {
    struct Osc { ev: bool }
    impl IVP for Osc {
        fn ode(&self, t: f64, y: &[f64], d: &mut [f64]) { d[0] = y[1]; d[1] = -y[0] + 0.1 * t.sin(); }
        fn n_events(&self) -> usize { if self.ev { 1 } else { 0 } }
        fn events(&self, _t: f64, y: &[f64], out: &mut [f64]) { if self.ev { out[0] = y[0]; } }
    }
    for m in [Method::RK4, Method::RK23, Method::DOPRI5, Method::DOP853, Method::RADAU, Method::BDF] {
        for &(x0, xe) in &[(0.0f64, 10.0f64), (4.0, -3.0)] {
            let y0 = [1.0, 0.0];
            let o = || Options::builder().method(m.clone()).rtol(1e-7).atol(1e-9);
            let plain = match solve_ivp(&Osc { ev: false }, x0, xe, &y0, o().build()) { Ok(s) => s, Err(e) => return Some(format!("{:?}: plain run fails: {:?}", m, e)) };
            let te: Vec<f64> = (0..=20).map(|i| x0 + (xe - x0) * i as f64 / 20.0).collect();
            let variants: Vec<(&str, Result<Solution, ivp::error::Error>)> = vec![
                ("dense_output", solve_ivp(&Osc { ev: false }, x0, xe, &y0, o().dense_output(true).build())),
                ("t_eval", solve_ivp(&Osc { ev: false }, x0, xe, &y0, o().t_eval(te.clone()).build())),
                ("a non-terminal event", solve_ivp(&Osc { ev: true }, x0, xe, &y0, o().build())),
            ];
            for (name, r) in variants {
                let s = match r { Ok(s) => s, Err(e) => return Some(format!("{:?}: run with {} fails: {:?}", m, name, e)) };
                let st = |s: &Solution| (s.nfev, s.njev, s.nlu, s.nstep, s.naccpt, s.nrejct);
                if st(&s) != st(&plain) || s.status != plain.status {
                    return Some(format!("{:?}: oscillator on [{}, {}] with {}: (nfev, njev, nlu, nstep, naccpt, nrejct) = {:?}, the plain run has {:?}", m, x0, xe, name, st(&s), st(&plain)));
                }
                if name != "t_eval" && (s.t != plain.t || s.y != plain.y) {
                    return Some(format!("{:?}: oscillator on [{}, {}] with {}: the accepted steps or states differ from the plain run ({} vs {} samples)", m, x0, xe, name, s.t.len(), plain.t.len()));
                }
                // with t_eval the value at xend is the step interpolant evaluated there: equal to the final state to rounding (C05/C06)
                let close = |a: &Vec<f64>, b: &Vec<f64>| a.len() == b.len() && a.iter().zip(b.iter()).all(|(p, q)| (p - q).abs() <= 1e-13 * (1.0 + q.abs()));
                if name == "t_eval" && !(s.y.last().is_some() && close(s.y.last().unwrap(), plain.y.last().unwrap())) {
                    return Some(format!("{:?}: oscillator on [{}, {}] with t_eval ending at xend: final state {:?}, the plain run ends with {:?}", m, x0, xe, s.y.last(), plain.y.last()));
                }
            }
        }
    }
    None
}

/// C20: the binding's callable `sol` (ContinuousOutput::evaluate_extrapolate) returns, inside the span, the numbers Solution::sol returns
fn extrapolate_equals_sol() -> Option<String> {
    struct Osc;
    impl IVP for Osc { fn ode(&self, _t: f64, y: &[f64], d: &mut [f64]) { d[0] = y[1]; d[1] = -y[0]; } }
    for m in [Method::RK4, Method::RK23, Method::DOPRI5, Method::DOP853, Method::RADAU, Method::BDF] {
        for &(x0, xe) in &[(0.0f64, 10.0f64), (10.0, 0.0), (-2.0, -9.0)] {
            let s = match solve_ivp(&Osc, x0, xe, &[1.0, 0.0], Options::builder().method(m.clone()).dense_output(true).build()) { Ok(s) => s, Err(e) => return Some(format!("{:?}: {:?}", m, e)) };
            let dense = match s.continuous_sol.as_ref() { Some(d) => d, None => return Some(format!("{:?}: dense output requested, none returned", m)) };
            let mut ts: Vec<f64> = (1..40).map(|i| x0 + (xe - x0) * i as f64 / 40.0).collect();
            ts.extend(s.t.iter().cloned());
            for t in ts {
                let a = s.sol(t).ok(); let b = dense.evaluate_extrapolate(t);
                if a.is_none() || a != b { return Some(format!("{:?} on [{}, {}]: at t = {:e} Solution::sol gives {:?}, evaluate_extrapolate (the Python callable) gives {:?}", m, x0, xe, t, a, b)); }
            }
        }
    }
    None
}

/// C04: a blow-up or a NaN right-hand side at negative times must end the run (watchdog: 20 s)
fn negative_time_blowup() -> Option<String> {
    use std::sync::mpsc; use std::time::Duration;
    struct Blow; impl IVP for Blow { fn ode(&self, _t: f64, y: &[f64], d: &mut [f64]) { d[0] = y[0] * y[0]; } }
    struct Nan; impl IVP for Nan { fn ode(&self, t: f64, _y: &[f64], d: &mut [f64]) { d[0] = (-1.0 - t).sqrt(); } }
    struct Circle; impl IVP for Circle { fn ode(&self, t: f64, _y: &[f64], d: &mut [f64]) { d[0] = (1.0 - t * t).sqrt(); } }
    struct LogY; impl IVP for LogY { fn ode(&self, _t: f64, y: &[f64], d: &mut [f64]) { d[0] = y[0].ln() - 1.0; } }
    for m in [Method::RK23, Method::DOPRI5, Method::DOP853, Method::RADAU, Method::BDF] {
        for which in 0..4 {
            let (tx, rx) = mpsc::channel(); let mm = m.clone();
            std::thread::spawn(move || {
                let r = match which { 0 => solve_ivp(&Blow, -2.0, 0.0, &[1.0], Options::builder().method(mm).build()), 1 => solve_ivp(&Nan, -2.0, 0.0, &[0.0], Options::builder().method(mm).build()),
                    2 => solve_ivp(&Circle, 0.0, 2.0, &[0.0], Options::builder().method(mm).build()), _ => solve_ivp(&LogY, 0.0, 5.0, &[1.0], Options::builder().method(mm).build()) };
                let _ = tx.send(r.map(|s| (s.status, s.y.iter().all(|v| v.iter().all(|c| c.is_finite())))));
            });
            let what = match which { 0 => "y' = y^2, y(-2) = 1 on [-2, 0] (blow-up at t = -1)", 1 => "y' = sqrt(-1 - t) on [-2, 0] (NaN for t > -1)", 2 => "y' = sqrt(1 - t^2) on [0, 2] (NaN for t > 1)", _ => "y' = ln(y) - 1, y(0) = 1 on [0, 5] (NaN once y < 0)" };
            match rx.recv_timeout(Duration::from_secs(20)) {
                Err(_) => return Some(format!("{:?}: {}: solve_ivp did not return within 20 s", m, what)),
                Ok(Ok((st, finite))) => { if st == Status::Success && !finite { return Some(format!("{:?}: {}: Success with non-finite states", m, what)); } }
                Ok(Err(_)) => {}
            }
        }
    }
    None
}

/// C02: one Radau step on y' = lambda y reproduces the (2,3) Pade approximant of exp(h lambda)
fn radau_pade() -> Option<String> {
    use ivp::methods::RADAU;
    use ivp::solout::SolOut;
    struct Lam(f64);
    impl IVP for Lam {
        fn ode(&self, _t: f64, y: &[f64], d: &mut [f64]) { d[0] = self.0 * y[0]; }
        fn jac(&self, _t: f64, _y: &[f64], j: &mut ivp::matrix::Matrix) { j[(0, 0)] = self.0; }
    }
    struct Grab { ys: Vec<(f64, f64)> }
    impl SolOut for Grab {
        fn solout(&mut self, _xold: f64, x: &mut f64, y: &mut [f64], _i: Option<&StepInterpolant<'_>>) -> ControlFlag { self.ys.push((*x, y[0])); ControlFlag::Continue }
    }
    for &(lam, h) in &[(-1.0f64, 0.1f64), (-3.0, 0.05), (2.0, 0.125), (-1.0, -0.1), (-50.0, 0.01)] {
        let mut g = Grab { ys: vec![] };
        let r = RADAU::builder().first_step(h.abs()).max_step(h.abs()).newton_tol(1e-14).build().solve(&Lam(lam), 0.0, &[1.0], h, 1e-2.into(), 1e-2.into(), Some(&mut g));
        if r.is_err() { return Some(format!("RADAU single step fails: lambda = {}, h = {}", lam, h)); }
        if g.ys.len() != 2 { continue; }   // not a single accepted step: nothing to compare
        let z = lam * h;
        let pade = (1.0 + 0.4 * z + 0.05 * z * z) / (1.0 - 0.6 * z + 0.15 * z * z - z * z * z / 60.0);
        let got = g.ys[1].1;
        if !((got - pade).abs() <= 2e-12 * pade.abs()) {
            return Some(format!("RADAU: one step of y' = {} y with h = {}: y1 = {:.16e}, the (2,3) Pade approximant of exp(h lambda) is {:.16e} (relative difference {:.2e})", lam, h, got, pade, ((got - pade) / pade).abs()));
        }
    }
    None
}

/// C11: no reported interval longer than max_step (the final one may stretch by 1%), automatic first steps included, both directions;
/// a first_step not larger than max_step or the span is the first reported interval when accepted; the budget bounds the step count
fn step_bounds() -> Option<String> {
    struct Slow; impl IVP for Slow { fn ode(&self, t: f64, y: &[f64], d: &mut [f64]) { d[0] = -0.01 * y[0] + 1e-3 * t; d[1] = 0.02 * y[0] - 0.01 * y[1]; } }
    for m in [Method::RK23, Method::DOPRI5, Method::DOP853, Method::RADAU, Method::BDF] {
        for &(x0, xe) in &[(0.0f64, 40.0f64), (5.0, -35.0)] {
            for &hmax in &[0.7f64, 3.0] {
                let s = match solve_ivp(&Slow, x0, xe, &[1.0, 0.5], Options::builder().method(m.clone()).rtol(1e-3).atol(1e-6).max_step(hmax).build()) { Ok(s) => s, Err(e) => return Some(format!("{:?}: {:?}", m, e)) };
                let k = s.t.len();
                for i in 1..k {
                    let len = (s.t[i] - s.t[i - 1]).abs();
                    let allow = if i == k - 1 { hmax * 1.01 } else { hmax } + 4.0 * f64::EPSILON * (s.t[i].abs() + s.t[i - 1].abs() + hmax);   // t[i] = t[i-1] + h is rounded
                    if len > allow { return Some(format!("{:?} on [{}, {}] with max_step = {}: reported interval {} of {} is [{:e}, {:e}], length {:e}", m, x0, xe, hmax, i, k - 1, s.t[i - 1], s.t[i], len)); }
                }
                if s.status != Status::Success { return Some(format!("{:?} on [{}, {}] with max_step = {}: status {:?}", m, x0, xe, hmax, s.status)); }
            }
            for &fs in &[0.01f64, 0.25] {
                let s = match solve_ivp(&Slow, x0, xe, &[1.0, 0.5], Options::builder().method(m.clone()).rtol(1e-3).atol(1e-6).first_step(fs).build()) { Ok(s) => s, Err(e) => return Some(format!("{:?}: {:?}", m, e)) };
                if s.nrejct == 0 && s.t.len() >= 2 && !(((s.t[1] - s.t[0]).abs() - fs).abs() <= 4.0 * f64::EPSILON * (x0.abs() + fs)) {
                    return Some(format!("{:?} on [{}, {}] with first_step = {} and no rejected step: the first reported interval is [{:e}, {:e}]", m, x0, xe, fs, s.t[0], s.t[1]));
                }
            }
            for &b in &[3usize, 10] {
                let s = match solve_ivp(&Slow, x0, xe, &[1.0, 0.5], Options::builder().method(m.clone()).rtol(1e-8).atol(1e-10).max_steps(b).build()) { Ok(s) => s, Err(e) => return Some(format!("{:?}: {:?}", m, e)) };
                let plain = match solve_ivp(&Slow, x0, xe, &[1.0, 0.5], Options::builder().method(m.clone()).rtol(1e-8).atol(1e-10).build()) { Ok(s) => s, Err(e) => return Some(format!("{:?}: {:?}", m, e)) };
                if s.nstep > b + 1 || (plain.nstep > b && s.status != Status::NeedLargerNMax) || (plain.nstep <= b && s.status != Status::Success) { return Some(format!("{:?} on [{}, {}] with max_steps = {}: nstep = {}, status {:?}", m, x0, xe, b, s.nstep, s.status)); }
            }
        }
    }
    None
}

/// C19: ModifiedSolution in the INITIAL callback: the run continues from the written state with everything refreshed -- for a linear
/// homogeneous problem with atol = 0, scaling the state by 2^20 there gives the run started from the scaled state
fn initial_modified_solution() -> Option<String> {
    use ivp::methods::{BDF, DOP853, DOPRI5, RADAU, RK23};
    use ivp::solout::SolOut;
    struct Lin;
    impl IVP for Lin {
        fn ode(&self, _t: f64, y: &[f64], d: &mut [f64]) { d[0] = -y[0] + 0.5 * y[1]; d[1] = 0.25 * y[0] - 2.0 * y[1]; }
        fn jac(&self, _t: f64, _y: &[f64], j: &mut ivp::matrix::Matrix) { j[(0, 0)] = -1.0; j[(0, 1)] = 0.5; j[(1, 0)] = 0.25; j[(1, 1)] = -2.0; }
    }
    struct Rec { fac: f64, n: usize, log: Vec<(f64, f64, Vec<f64>)> }
    impl SolOut for Rec {
        fn solout(&mut self, xold: f64, x: &mut f64, y: &mut [f64], _i: Option<&StepInterpolant<'_>>) -> ControlFlag {
            self.n += 1;
            if self.n == 1 && self.fac != 1.0 { for v in y.iter_mut() { *v *= self.fac; } self.log.push((xold, *x, y.to_vec())); return ControlFlag::ModifiedSolution; }
            self.log.push((xold, *x, y.to_vec()));
            ControlFlag::Continue
        }
    }
    let big = 1048576.0;
    let run = |name: &str, y0: [f64; 2], fac: f64, fs: f64| -> Vec<(f64, f64, Vec<f64>)> {
        let mut r = Rec { fac, n: 0, log: Vec::new() };
        let (rt, at0): (ivp::methods::Tolerance, ivp::methods::Tolerance) = (1e-6.into(), 0.0.into());
        match name {
            "RADAU" => { let _ = RADAU::builder().first_step(fs).build().solve(&Lin, 0.0, &y0, 2.0, rt, at0, Some(&mut r)); }
            "BDF" => { let _ = BDF::builder().first_step(fs).build().solve(&Lin, 0.0, &y0, 2.0, rt, at0, Some(&mut r)); }
            "DOPRI5" => { let _ = DOPRI5::builder().first_step(fs).build().solve(&Lin, 0.0, &y0, 2.0, rt, at0, Some(&mut r)); }
            "DOP853" => { let _ = DOP853::builder().first_step(fs).build().solve(&Lin, 0.0, &y0, 2.0, rt, at0, Some(&mut r)); }
            _ => { let _ = RK23::builder().first_step(fs).build().solve(&Lin, 0.0, &y0, 2.0, rt, at0, Some(&mut r)); }
        }
        r.log
    };
    for name in ["RK23", "DOPRI5", "DOP853", "RADAU", "BDF"] {
        for fs in [0.05, 0.2] {
            let a = run(name, [1.0, 1.0], big, fs);
            let b = run(name, [big, big], 1.0, fs);
            let implicit = name == "RADAU" || name == "BDF";
            if implicit {
                // the Newton iteration and its stopping test are not exactly scale-invariant: compare the step counts
                if (a.len() as i64 - b.len() as i64).abs() > 2 {
                    return Some(format!("{}: the initial callback scales the state by 2^20 (ModifiedSolution, atol = 0, linear homogeneous problem, first_step {}): {} accepted steps; started from the scaled state: {}; second callback reports [{:e}, {:e}] against [{:e}, {:e}]", name, fs, a.len() - 1, b.len() - 1, a.get(1).map_or(0.0, |r| r.0), a.get(1).map_or(0.0, |r| r.1), b.get(1).map_or(0.0, |r| r.0), b.get(1).map_or(0.0, |r| r.1)));
                }
            } else if a != b {
                let k = (0..a.len().min(b.len())).find(|&k| a[k] != b[k]).unwrap_or(a.len().min(b.len()));
                return Some(format!("{}: the initial callback scales the state by 2^20 (ModifiedSolution, atol = 0, first_step {}): the run differs from the run started at the scaled state at callback {} ({} vs {} callbacks)", name, fs, k + 1, a.len(), b.len()));
            }
        }
    }
    None
}

/// C09: several event functions crossing inside one accepted step, the higher-indexed one first: each sign change is reported exactly once
fn events_order_independent() -> Option<String> {
    struct Ev { cs: Vec<f64> }
    impl IVP for Ev {
        fn ode(&self, _t: f64, y: &[f64], d: &mut [f64]) { d[0] = -0.5 * y[0]; }
        fn n_events(&self) -> usize { self.cs.len() }
        fn events(&self, t: f64, _y: &[f64], out: &mut [f64]) { for (k, c) in self.cs.iter().enumerate() { out[k] = t - c; } }
    }
    for m in [Method::RK4, Method::RK23, Method::DOPRI5, Method::DOP853, Method::RADAU, Method::BDF] {
        for &(x0, xe) in &[(0.0f64, 3.0f64), (3.0, 0.0)] {
            for cs in [vec![1.2345, 1.2335], vec![1.2335, 1.2345], vec![2.0, 1.9, 1.95]] {
                let s = match solve_ivp(&Ev { cs: cs.clone() }, x0, xe, &[1.0], Options::builder().method(m.clone()).first_step(0.3 * (xe - x0).signum()).build()) { Ok(s) => s, Err(e) => return Some(format!("{:?}: {:?}", m, e)) };
                for (k, c) in cs.iter().enumerate() {
                    let te = &s.t_events[k];
                    if te.len() != 1 || (te[0] - c).abs() > 1e-8 {
                        return Some(format!("{:?} on [{}, {}] with event functions t - c, c = {:?}: event {} (root {}) is reported at {:?}", m, x0, xe, cs, k, c, te));
                    }
                }
            }
        }
    }
    None
}

mod sparsity_fns { #![allow(dead_code, unused)] include!(concat!(env!("OUT_DIR"), "/sparsity_fns.rs")); }

/// C20 (sparsity clause): the column grouping used for grouped finite differences never puts two columns that share a row into one
/// group, and numbers the groups 0..n_groups. `group_columns` is extracted textually from src/python/sparsity.rs by build.rs.
fn sparsity_groups() -> Option<String> {
    let mut seed = 0x2545F4914F6CDD1Du64;
    let mut rnd = move || { seed ^= seed << 13; seed ^= seed >> 7; seed ^= seed << 17; seed };
    let mut cases: Vec<(usize, Vec<Vec<usize>>)> = Vec::new();
    for n in [3usize, 5, 8] {   // banded patterns
        for bw in 1..3usize { cases.push((n, (0..n).map(|c| (c.saturating_sub(bw)..(c + bw + 1).min(n)).collect()).collect())); }
    }
    // a founder plus two later columns that are row-disjoint from it but share a row with each other
    cases.push((4, vec![vec![0], vec![1, 2], vec![2, 3], vec![3]]));
    for _ in 0..300 { let n = 2 + (rnd() % 7) as usize; cases.push((n, (0..n).map(|_| (0..n).filter(|_| rnd() % 3 == 0).collect()).collect())); }
    for (n, c2r) in cases {
        let (groups, ng) = sparsity_fns::group_columns(&c2r, n);
        if groups.len() != n || groups.iter().any(|g| *g >= ng) { return Some(format!("group_columns on the pattern (columns -> rows) {:?}: groups = {:?}, n_groups = {}", c2r, groups, ng)); }
        for a in 0..n { for b in a + 1..n {
            if groups[a] == groups[b] && c2r[a].iter().any(|r| c2r[b].contains(r)) {
                return Some(format!("group_columns on the pattern (columns -> rows) {:?}: columns {} and {} share a row and are both in group {} (groups = {:?})", c2r, a, b, groups[a], groups));
            }
        } }
    }
    None
}

/// C13 / C08: under time reflection the events mirror: same number per function, times mirrored to root-finder accuracy, a
/// crossing keeps its direction, which is stated in the order of integration
fn event_reflection() -> Option<String> {
    use ivp::solve::event::Direction;
    struct Osc { refl: bool, dir: i32 }
    impl IVP for Osc {
        fn ode(&self, t: f64, y: &[f64], d: &mut [f64]) {
            let tt = if self.refl { -t } else { t };
            d[0] = y[1]; d[1] = -y[0] + 0.2 * (1.3 * tt).sin();
            if self.refl { d[0] = -d[0]; d[1] = -d[1]; }
        }
        fn n_events(&self) -> usize { 2 }
        fn events(&self, _t: f64, y: &[f64], out: &mut [f64]) { out[0] = y[0] - 0.3; out[1] = y[1] + 0.1; }
        fn event_config(&self, _i: usize) -> EventConfig {
            let mut c = EventConfig::new();
            // the direction filter is stated in the order of integration (C08): the reflected run meets the same crossing the same way
            let d = self.dir;
            if d > 0 { c.direction(Direction::Positive); } else if d < 0 { c.direction(Direction::Negative); }
            c
        }
    }
    for m in [Method::RK23, Method::DOPRI5, Method::DOP853, Method::RADAU, Method::BDF] {
        for dir in [0, 1, -1] {
            for &(x0, xe) in &[(0.0f64, 12.0f64), (9.0, -4.0)] {
                let o = || Options::builder().method(m.clone()).rtol(1e-8).atol(1e-10).build();
                let a = match solve_ivp(&Osc { refl: false, dir }, x0, xe, &[1.0, 0.0], o()) { Ok(s) => s, Err(e) => return Some(format!("{:?}: {:?}", m, e)) };
                let b = match solve_ivp(&Osc { refl: true, dir }, -x0, -xe, &[1.0, 0.0], o()) { Ok(s) => s, Err(e) => return Some(format!("{:?}: {:?}", m, e)) };
                for k in 0..2 {
                    if a.t_events[k].len() != b.t_events[k].len() {
                        return Some(format!("{:?}: forced oscillator on [{}, {}], direction filter {}: event {} fires {} times, {} times in the time-reflected problem", m, x0, xe, dir, k, a.t_events[k].len(), b.t_events[k].len()));
                    }
                    if a.t_events[k].is_empty() && dir == 0 { return Some(format!("{:?}: forced oscillator on [{}, {}]: event {} never fires", m, x0, xe, k)); }
                    for i in 0..a.t_events[k].len() {
                        if (a.t_events[k][i] + b.t_events[k][i]).abs() > 1e-6 {
                            return Some(format!("{:?}: forced oscillator on [{}, {}], direction filter {}: occurrence {} of event {} at t = {:e}, in the time-reflected problem at s = {:e}", m, x0, xe, dir, i, k, a.t_events[k][i], b.t_events[k][i]));
                        }
                    }
                }
            }
        }
    }
    None
}

/// C03: a first step that reaches xend and is then rejected must not end the run at the next accepted step: Success only at xend
fn first_step_rejected_then_success() -> Option<String> {
    struct Forced; impl IVP for Forced { fn ode(&self, t: f64, y: &[f64], d: &mut [f64]) { d[0] = y[1]; d[1] = -25.0 * y[0] + (7.0 * t).sin(); } }
    for m in [Method::RK4, Method::RK23, Method::DOPRI5, Method::DOP853, Method::RADAU, Method::BDF] {
        for &(x0, xe, fs) in &[(0.0f64, 5.0f64, 8.0f64), (0.0, 5.0, 5.0), (5.0, 0.0, 8.0), (5.0, 0.0, -8.0), (0.0, 2.0, 2.5), (0.0, 1.0, 0.25)] {
            if m == Method::RK4 && fs * (xe - x0) < 0.0 { continue; }   // RK4 takes a signed first_step
            for dense in [false, true] {
                let mut o = Options::builder().method(m.clone()).rtol(1e-6).atol(1e-9).dense_output(dense).build();
                o.first_step = Some(fs);
                let s = match solve_ivp(&Forced, x0, xe, &[1.0, 0.0], o) { Ok(s) => s, Err(_) => continue };
                if s.status == Status::Success && s.t.last().copied() != Some(xe) {
                    return Some(format!("{:?}: forced oscillator on [{}, {}] with first_step = {} (dense_output {}): status Success, the last sample is {:?} ({} samples)", m, x0, xe, fs, dense, s.t.last(), s.t.len()));
                }
                if dense && s.status == Status::Success { if let Some((a, b)) = s.sol_span() { if (a - x0).abs() > 1e-12 || (b - xe).abs() > 1e-9 { return Some(format!("{:?}: forced oscillator on [{}, {}] with first_step = {}: Success, sol_span = ({:e}, {:e})", m, x0, xe, fs, a, b)); } } }
            }
        }
    }
    None
}

/// C05: requested times in a backward run, the end points x0 and xend included, several per step: exactly those times, in order
fn teval_backward_endpoints() -> Option<String> {
    struct Osc; impl IVP for Osc { fn ode(&self, _t: f64, y: &[f64], d: &mut [f64]) { d[0] = y[1]; d[1] = -y[0]; } }
    for m in [Method::RK4, Method::RK23, Method::DOPRI5, Method::DOP853, Method::RADAU, Method::BDF] {
        for &(x0, xe) in &[(2.0f64, 0.0f64), (0.0, 2.0), (1.5, -3.0), (-1.0, 4.0), (0.1 + 0.2, 0.0)] {
            let grids: Vec<Vec<f64>> = vec![vec![0.3, 0.2, 0.1, 0.0].into_iter().filter(|_| x0 == 0.1 + 0.2).collect(), (0..=8).map(|i| x0 + (xe - x0) * i as f64 / 8.0).collect(), vec![xe], vec![x0], vec![x0, xe], (1..=40).map(|i| x0 + (xe - x0) * i as f64 / 40.0).collect()];
            for te in grids {
                for dense in [false, true] {
                    if te.is_empty() { continue; }
                    let s = match solve_ivp(&Osc, x0, xe, &[1.0, 0.0], Options::builder().method(m.clone()).t_eval(te.clone()).dense_output(dense).build()) { Ok(s) => s, Err(e) => return Some(format!("{:?}: t_eval {:?} on [{}, {}]: {:?}", m, te, x0, xe, e)) };
                    if s.status != Status::Success || s.t != te || s.y.len() != te.len() {
                        return Some(format!("{:?} on [{}, {}] (dense_output {}): requested {} times ending with {:?}, status {:?}, reported {} times ending with {:?}", m, x0, xe, dense, te.len(), te.last(), s.status, s.t.len(), s.t.last()));
                    }
                    for (i, t) in te.iter().enumerate() { let ex = (t - x0).cos(); if (s.y[i][0] - ex).abs() > 1e-2 { return Some(format!("{:?} on [{}, {}]: value reported at t = {} is {:e}, the solution is {:e}", m, x0, xe, t, s.y[i][0], ex)); } }
                }
            }
        }
    }
    None
}

/// C09 / C10: events together with requested output times that start late (or an empty list): every sign change is still reported once,
/// a terminal event still stops the run
fn events_with_late_teval() -> Option<String> {
    struct Osc { term: bool }
    impl IVP for Osc {
        fn ode(&self, _t: f64, y: &[f64], d: &mut [f64]) { d[0] = y[1]; d[1] = -y[0]; }
        fn n_events(&self) -> usize { 1 }
        fn events(&self, _t: f64, y: &[f64], out: &mut [f64]) { out[0] = y[0]; }   // roots of cos(t - x0)
        fn event_config(&self, _i: usize) -> EventConfig { let mut c = EventConfig::new(); if self.term { c.terminal(); } c }
    }
    for m in [Method::RK4, Method::RK23, Method::DOPRI5, Method::DOP853, Method::RADAU, Method::BDF] {
        for &(x0, xe) in &[(0.0f64, 10.0f64), (10.0, 0.0)] {
            let plain = match solve_ivp(&Osc { term: false }, x0, xe, &[1.0, 0.0], Options::builder().method(m.clone()).rtol(1e-6).build()) { Ok(s) => s, Err(e) => return Some(format!("{:?}: {:?}", m, e)) };
            let late: Vec<f64> = (0..=4).map(|i| x0 + (xe - x0) * (0.6 + 0.1 * i as f64)).collect();
            for te in [late.clone(), vec![], vec![xe]] {
                let s = match solve_ivp(&Osc { term: false }, x0, xe, &[1.0, 0.0], Options::builder().method(m.clone()).rtol(1e-6).t_eval(te.clone()).build()) { Ok(s) => s, Err(e) => return Some(format!("{:?}: {:?}", m, e)) };
                if s.t_events[0].len() != plain.t_events[0].len() || plain.t_events[0].len() != 3 {
                    return Some(format!("{:?}: oscillator on [{}, {}] with t_eval = {:?}: {} events reported ({:?}), the run without t_eval reports {} ({:?})", m, x0, xe, te, s.t_events[0].len(), s.t_events[0], plain.t_events[0].len(), plain.t_events[0]));
                }
                let st = match solve_ivp(&Osc { term: true }, x0, xe, &[1.0, 0.0], Options::builder().method(m.clone()).rtol(1e-6).t_eval(te.clone()).build()) { Ok(s) => s, Err(e) => return Some(format!("{:?}: {:?}", m, e)) };
                if st.status != Status::UserInterrupt || st.t_events[0].len() != 1 || st.t.last().copied() != Some(st.t_events[0][0]) {
                    return Some(format!("{:?}: oscillator on [{}, {}] with a terminal event and t_eval = {:?}: status {:?}, events {:?}, last sample {:?}", m, x0, xe, te, st.status, st.t_events[0], st.t.last()));
                }
            }
        }
    }
    None
}

/// C06: dense output of a run stopped by a terminal event covers everything up to the event point
fn dense_up_to_terminal_event() -> Option<String> {
    struct Ball;
    impl IVP for Ball {
        fn ode(&self, _t: f64, y: &[f64], d: &mut [f64]) { d[0] = y[1]; d[1] = -9.81; }
        fn n_events(&self) -> usize { 1 }
        fn events(&self, _t: f64, y: &[f64], out: &mut [f64]) { out[0] = y[0]; }
        fn event_config(&self, _i: usize) -> EventConfig { let mut c = EventConfig::new(); c.terminal(); c }
    }
    for m in [Method::RK4, Method::RK23, Method::DOPRI5, Method::DOP853, Method::RADAU, Method::BDF] {
        for &(h0, fs) in &[(10.0f64, None), (10.0, Some(0.01)), (0.5, Some(2.0))] {
            let mut o = Options::builder().method(m.clone()).dense_output(true).build();
            if m == Method::RK4 { o.first_step = Some(fs.unwrap_or(0.05)); } else { o.first_step = fs; }
            let s = match solve_ivp(&Ball, 0.0, 10.0, &[h0, 0.0], o) { Ok(s) => s, Err(e) => return Some(format!("{:?}: {:?}", m, e)) };
            if s.status != Status::UserInterrupt { return Some(format!("{:?}: falling ball from {}: status {:?}", m, h0, s.status)); }
            let last = *s.t.last().unwrap();
            match s.sol_span() { Some((a, b)) if a == 0.0 && b >= last => {}, sp => return Some(format!("{:?}: falling ball from {} m with a terminal ground event: the last reported time is {:e}, sol_span = {:?}", m, h0, last, sp)) }
            for (i, t) in s.t.iter().enumerate() {
                match s.sol(*t) { Ok(v) => { if (v[0] - s.y[i][0]).abs() > 1e-9 * (1.0 + s.y[i][0].abs()) { return Some(format!("{:?}: falling ball: sol({:e}) = {:e}, the stored sample is {:e}", m, t, v[0], s.y[i][0])); } }
                    Err(e) => return Some(format!("{:?}: falling ball from {} m: sol at the reported time {:e} fails with {:?} (sol_span = {:?})", m, h0, t, e, s.sol_span())) }
            }
            if s.sol_many(&s.t).is_err() { return Some(format!("{:?}: falling ball: sol_many over the reported times fails", m)); }
        }
    }
    None
}

/// C15: a mass matrix stored Banded (with ml != mu) or Full with the same entries gives bit-identical Radau trajectories, and
/// M y' = A y agrees with y' = M^-1 A y
fn banded_mass_storage() -> Option<String> {
    use ivp::matrix::{Matrix, MatrixStorage};
    struct Sys { upper: bool, explicit: bool }
    // M = I + 0.5 * (super- or sub-diagonal), A = -diag(1..n) + 0.2 * (other off-diagonal)
    impl Sys { fn a_times(&self, y: &[f64], out: &mut [f64]) { let n = y.len(); for i in 0..n { out[i] = -((i + 1) as f64) * y[i]; if self.upper { if i >= 1 { out[i] += 0.2 * y[i - 1]; } } else if i + 1 < n { out[i] += 0.2 * y[i + 1]; } } } }
    impl IVP for Sys {
        fn ode(&self, _t: f64, y: &[f64], d: &mut [f64]) {
            let n = y.len(); let mut r = vec![0.0; n]; self.a_times(y, &mut r);
            if !self.explicit { d.copy_from_slice(&r); return; }
            // solve M d = r: M bidiagonal with unit diagonal
            if self.upper { for i in (0..n).rev() { d[i] = r[i] - if i + 1 < n { 0.5 * d[i + 1] } else { 0.0 }; } } else { for i in 0..n { d[i] = r[i] - if i >= 1 { 0.5 * d[i - 1] } else { 0.0 }; } }
        }
        fn mass(&self, m: &mut Matrix) {
            if self.explicit { *m = Matrix::identity(m.nrows()); return; }
            let n = m.nrows(); for i in 0..n { m[(i, i)] = 1.0; if self.upper { if i + 1 < n { m[(i, i + 1)] = 0.5; } } else if i >= 1 { m[(i, i - 1)] = 0.5; } }
        }
    }
    let y0 = [1.0, 0.5, -0.25, 0.75];
    for upper in [true, false] {
        let band = if upper { MatrixStorage::Banded { ml: 0, mu: 1 } } else { MatrixStorage::Banded { ml: 1, mu: 0 } };
        let run = |st: MatrixStorage, explicit: bool| solve_ivp(&Sys { upper, explicit }, 0.0, 1.5, &y0, Options::builder().method(Method::RADAU).rtol(1e-8).atol(1e-10).mass_storage(st).build());
        let (f, b) = match (run(MatrixStorage::Full, false), run(band.clone(), false)) { (Ok(f), Ok(b)) => (f, b), _ => return Some(format!("RADAU with a bidiagonal mass matrix (upper = {}) fails in Full or Banded storage", upper)) };
        if f.t != b.t || f.y != b.y { return Some(format!("RADAU: mass matrix I + 0.5 * ({}-diagonal), n = 4: stored as {:?} the run takes {} steps and ends with {:?}; stored Full: {} steps, {:?}", if upper { "super" } else { "sub" }, band, b.naccpt, b.y.last(), f.naccpt, f.y.last())); }
        let e = match run(MatrixStorage::Identity, true) { Ok(e) => e, Err(_) => return Some("RADAU: explicit form fails".to_string()) };
        let (yf, ye) = (f.y.last().unwrap(), e.y.last().unwrap());
        if (0..4).any(|i| (yf[i] - ye[i]).abs() > 1e-6 * (1.0 + ye[i].abs())) { return Some(format!("RADAU: M y' = A y with M = I + 0.5 * ({}-diagonal) ends with {:?}, y' = M^-1 A y with {:?}", if upper { "super" } else { "sub" }, yf, ye)); }
    }
    None
}

/// C08: an event function that is exactly zero at a step start (e.g. at the initial point) is reported with the state of THAT point
fn event_at_step_start_state() -> Option<String> {
    struct Proj;
    impl IVP for Proj {
        fn ode(&self, _t: f64, y: &[f64], d: &mut [f64]) { d[0] = y[1]; d[1] = -9.81; }
        fn n_events(&self) -> usize { 1 }
        fn events(&self, _t: f64, y: &[f64], out: &mut [f64]) { out[0] = y[0]; }
    }
    for m in [Method::RK4, Method::RK23, Method::DOPRI5, Method::DOP853, Method::RADAU, Method::BDF] {
        for &(x0, xe) in &[(0.0f64, 3.0f64), (0.0, -3.0)] {
            let mut o = Options::builder().method(m.clone()).dense_output(true).build();
            if m == Method::RK4 { o.first_step = Some(0.05 * (xe - x0).signum()); }
            let s = match solve_ivp(&Proj, x0, xe, &[0.0, 10.0 * (xe - x0).signum()], o) { Ok(s) => s, Err(e) => return Some(format!("{:?}: {:?}", m, e)) };
            for (k, te) in s.t_events[0].iter().enumerate() {
                let ye = &s.y_events[0][k];
                let want = match s.sol(*te) { Ok(v) => v, Err(_) => continue };
                if (0..2).any(|c| (ye[c] - want[c]).abs() > 1e-8 * (1.0 + want[c].abs())) {
                    return Some(format!("{:?}: projectile launched from the ground at t = {} toward {}: event {} at t = {:e} is stored with the state {:?}; the continuous solution there is {:?}", m, x0, xe, k, te, ye, want));
                }
            }
        }
    }
    None
}

/// C12 / C19: Radau driven directly: whether an interpolant is requested (dense_output on or off) must not change the integration
fn radau_dense_flag_invariance() -> Option<String> {
    use ivp::methods::RADAU;
    use ivp::solout::SolOut;
    struct Vdp;
    impl IVP for Vdp {
        fn ode(&self, _t: f64, y: &[f64], d: &mut [f64]) { d[0] = y[1]; d[1] = ((1.0 - y[0] * y[0]) * y[1] - y[0]) / 1e-2; }
        fn jac(&self, _t: f64, y: &[f64], j: &mut ivp::matrix::Matrix) { j[(0, 0)] = 0.0; j[(0, 1)] = 1.0; j[(1, 0)] = (-2.0 * y[0] * y[1] - 1.0) / 1e-2; j[(1, 1)] = (1.0 - y[0] * y[0]) / 1e-2; }
    }
    struct Rec { log: Vec<(f64, Vec<f64>)> }
    impl SolOut for Rec { fn solout(&mut self, _xold: f64, x: &mut f64, y: &mut [f64], _i: Option<&StepInterpolant<'_>>) -> ControlFlag { self.log.push((*x, y.to_vec())); ControlFlag::Continue } }
    for &(x0, xe) in &[(0.0f64, 2.0f64), (0.0, -0.5)] {
        let run = |dense: bool| { let mut r = Rec { log: vec![] };
            let res = RADAU::builder().dense_output(dense).build().solve(&Vdp, x0, &[2.0, 0.0], xe, 1e-6.into(), 1e-8.into(), Some(&mut r));
            (res.map(|q| (q.evals.ode, q.evals.jac, q.evals.lu, q.steps.total, q.steps.accepted, q.steps.rejected)).ok(), r.log) };
        let (a, la) = run(false); let (b, lb) = run(true);
        if a != b || la != lb {
            return Some(format!("RADAU::solve on van der Pol (eps = 1e-2) over [{}, {}]: (nfev, njev, nlu, nstep, naccpt, nrejct) = {:?} with dense_output(false), {:?} with dense_output(true); {} vs {} callbacks", x0, xe, a, b, la.len(), lb.len()));
        }
    }
    None
}

/// C18: nfev equals the number of right-hand-side calls made by the stepper, also when callbacks return ModifiedSolution
/// (with or without changing the state); analytic Jacobian, so no call is made while differencing
fn modified_solution_counts() -> Option<String> {
    use ivp::methods::{BDF, DOP853, DOPRI5, RADAU, RK23};
    use ivp::solout::SolOut;
    struct Lin { calls: Cell<usize> }
    impl IVP for Lin {
        fn ode(&self, _t: f64, y: &[f64], d: &mut [f64]) { self.calls.set(self.calls.get() + 1); d[0] = -y[0] + 0.5 * y[1]; d[1] = 0.25 * y[0] - 2.0 * y[1]; }
        fn jac(&self, _t: f64, _y: &[f64], j: &mut ivp::matrix::Matrix) { j[(0, 0)] = -1.0; j[(0, 1)] = 0.5; j[(1, 0)] = 0.25; j[(1, 1)] = -2.0; }
    }
    struct Cb { n: usize, change_at: Vec<usize> }
    impl SolOut for Cb {
        fn solout(&mut self, _xold: f64, _x: &mut f64, y: &mut [f64], _i: Option<&StepInterpolant<'_>>) -> ControlFlag {
            self.n += 1;
            if self.change_at.contains(&self.n) { y[0] *= 1.5; }
            ControlFlag::ModifiedSolution
        }
    }
    for name in ["RK23", "DOPRI5", "DOP853", "RADAU", "BDF"] {
        for change_at in [vec![], vec![4usize, 9]] {
            let f = Lin { calls: Cell::new(0) };
            let mut cb = Cb { n: 0, change_at: change_at.clone() };
            let (rt, at0): (ivp::methods::Tolerance, ivp::methods::Tolerance) = (1e-6.into(), 1e-9.into());
            let r = match name {
                "RADAU" => RADAU::builder().build().solve(&f, 0.0, &[1.0, 1.0], 2.0, rt, at0, Some(&mut cb)),
                "BDF" => BDF::builder().build().solve(&f, 0.0, &[1.0, 1.0], 2.0, rt, at0, Some(&mut cb)),
                "DOPRI5" => DOPRI5::builder().build().solve(&f, 0.0, &[1.0, 1.0], 2.0, rt, at0, Some(&mut cb)),
                "DOP853" => DOP853::builder().build().solve(&f, 0.0, &[1.0, 1.0], 2.0, rt, at0, Some(&mut cb)),
                _ => RK23::builder().build().solve(&f, 0.0, &[1.0, 1.0], 2.0, rt, at0, Some(&mut cb)),
            };
            if let Ok(q) = r {
                if q.evals.ode != f.calls.get() {
                    return Some(format!("{}: every callback returns ModifiedSolution (state changed in callbacks {:?}): nfev = {}, the right-hand side was called {} times ({} callbacks)", name, change_at, q.evals.ode, f.calls.get(), cb.n));
                }
            }
        }
    }
    None
}

/// C15: an index-1 DAE (singular mass matrix) solved by Radau satisfies its algebraic constraint at every sample, for every mass storage,
/// with the analytic and with the finite-difference Jacobian
fn dae_constraint() -> Option<String> {
    use ivp::matrix::{Matrix, MatrixStorage};
    struct Dae { analytic: bool }
    // y0' = -2 y0 + y1^2,   0 = y0 + y1 - 1 - 0.5 sin t
    impl IVP for Dae {
        fn ode(&self, t: f64, y: &[f64], d: &mut [f64]) { d[0] = -2.0 * y[0] + y[1] * y[1]; d[1] = y[0] + y[1] - 1.0 - 0.5 * t.sin(); }
        fn jac(&self, t: f64, y: &[f64], j: &mut Matrix) {
            if self.analytic { j[(0, 0)] = -2.0; j[(0, 1)] = 2.0 * y[1]; j[(1, 0)] = 1.0; j[(1, 1)] = 1.0; }
            else { let n = y.len(); let mut f0 = vec![0.0; n]; self.ode(t, y, &mut f0); let mut yp = y.to_vec(); let mut f1 = vec![0.0; n];
                for c in 0..n { let dl = (f64::EPSILON * y[c].abs().max(1e-5)).sqrt(); yp[c] = y[c] + dl; self.ode(t, &yp, &mut f1); for r in 0..n { j[(r, c)] = (f1[r] - f0[r]) / dl; } yp[c] = y[c]; } }
        }
        fn mass(&self, m: &mut Matrix) { m[(0, 0)] = 1.0; m[(1, 1)] = 0.0; }
    }
    let mut ends: Vec<Vec<f64>> = Vec::new();
    for analytic in [true, false] {
        for st in [MatrixStorage::Full, MatrixStorage::Banded { ml: 0, mu: 0 }] {
            for &(x0, xe) in &[(0.0f64, 4.0f64)] {
                let s = match solve_ivp(&Dae { analytic }, x0, xe, &[0.3, 0.7], Options::builder().method(Method::RADAU).rtol(1e-7).atol(1e-9).mass_storage(st.clone()).build()) { Ok(s) => s, Err(e) => return Some(format!("RADAU on the index-1 DAE (mass {:?}, analytic Jacobian {}): {:?}", st, analytic, e)) };
                if s.status != Status::Success { return Some(format!("RADAU on the index-1 DAE (mass {:?}, analytic Jacobian {}): status {:?} at t = {:?}", st, analytic, s.status, s.t.last())); }
                for (i, t) in s.t.iter().enumerate() {
                    let g = s.y[i][0] + s.y[i][1] - 1.0 - 0.5 * t.sin();
                    if g.abs() > 1e-5 { return Some(format!("RADAU on the index-1 DAE (mass {:?}, analytic Jacobian {}): the constraint y0 + y1 - 1 - sin(t)/2 is {:e} at sample {} (t = {:e})", st, analytic, g, i, t)); }
                }
                ends.push(s.y.last().unwrap().clone());
            }
        }
    }
    if ends[0] != ends[1] { return Some(format!("RADAU on the index-1 DAE: Full and Banded mass storage end with {:?} and {:?}", ends[0], ends[1])); }
    if (0..2).any(|c| (ends[0][c] - ends[2][c]).abs() > 1e-5) { return Some(format!("RADAU on the index-1 DAE: analytic and finite-difference Jacobian end with {:?} and {:?}", ends[0], ends[2])); }
    None
}

/// C06 / C07 (BDF history): with many step-size changes the difference table must keep describing the same polynomial: the dense output
/// stays continuous across steps and as accurate as the step end points
fn bdf_rescaling_accuracy() -> Option<String> {
    struct P; impl IVP for P { fn ode(&self, t: f64, y: &[f64], d: &mut [f64]) { d[0] = -2.0 * (y[0] - (3.0 * t).sin()) + 3.0 * (3.0 * t).cos(); }
        fn jac(&self, _t: f64, _y: &[f64], j: &mut ivp::matrix::Matrix) { j[(0, 0)] = -2.0; } }   // y = sin(3t) + e^{-2(t - x0)} (y0 - sin(3 x0))
    for &(x0, xe) in &[(0.0f64, 6.0f64), (6.0, 0.0)] {
        for &rt in &[1e-5f64, 1e-7] {
            let y0 = (3.0 * x0).sin() + 0.5;
            let s = match solve_ivp(&P, x0, xe, &[y0], Options::builder().method(Method::BDF).rtol(rt).atol(rt * 1e-2).dense_output(true).build()) { Ok(s) => s, Err(e) => return Some(format!("BDF: {:?}", e)) };
            if s.status != Status::Success { continue; }
            let exact = |t: f64| (3.0 * t).sin() + 0.5 * (-2.0 * (t - x0)).exp();
            let node_err = s.t.iter().zip(s.y.iter()).map(|(t, y)| (y[0] - exact(*t)).abs() / (1.0 + exact(*t).abs())).fold(0.0, f64::max);   // relative: the backward run grows like e^{12}
            let mut worst = (0.0f64, 0.0f64);
            for w in s.t.windows(2) { for k in 1..8 { let t = w[0] + (w[1] - w[0]) * k as f64 / 8.0; if let Ok(v) = s.sol(t) { let e = (v[0] - exact(t)).abs() / (1.0 + exact(t).abs()); if e > worst.0 { worst = (e, t); } } } }
            if node_err > 2000.0 * rt { return Some(format!("BDF on [{}, {}], rtol {:e} ({} steps, {} rejected): the largest error at a step end point is {:e}", x0, xe, rt, s.naccpt, s.nrejct, node_err)); }
            if worst.0 > 20.0 * node_err.max(rt) {
                return Some(format!("BDF on [{}, {}], rtol {:e} ({} steps, {} rejected): the dense output is off by {:e} at t = {:e}; the largest error at a step end point is {:e}", x0, xe, rt, s.naccpt, s.nrejct, worst.0, worst.1, node_err));
            }
        }
    }
    None
}

/// C02: on a non-autonomous nonlinear problem the number of accepted steps grows like tol^(-1/q), q = 3 / 5 / 8 (RK23 / DOPRI5 / DOP853):
/// a stage evaluated at the wrong time or an estimator of the wrong order shows as a much steeper growth
fn step_count_law() -> Option<String> {
    struct Na; impl IVP for Na { fn ode(&self, t: f64, y: &[f64], d: &mut [f64]) { d[0] = y[0] * t.cos(); d[1] = -y[1] * y[0] + (2.0 * t).sin(); } }
    for (m, q, tols) in [(Method::RK23, 3.0f64, [1e-4f64, 1e-7]), (Method::DOPRI5, 5.0, [1e-5, 1e-10]), (Method::DOP853, 8.0, [1e-6, 1e-12])] {
        for &(x0, xe) in &[(0.0f64, 10.0f64), (10.0, 0.0)] {
            let run = |tol: f64| solve_ivp(&Na, x0, xe, &[1.0, 0.5], Options::builder().method(m.clone()).rtol(tol).atol(tol).build()).map(|s| (s.naccpt, s.status));
            let (a, b) = match (run(tols[0]), run(tols[1])) { (Ok(a), Ok(b)) => (a, b), _ => return Some(format!("{:?}: run fails", m)) };
            if a.1 != Status::Success || b.1 != Status::Success { return Some(format!("{:?} on [{}, {}]: status {:?} / {:?}", m, x0, xe, a.1, b.1)); }
            let growth = b.0 as f64 / a.0 as f64;
            let law = (tols[0] / tols[1]).powf(1.0 / q);
            if growth > 2.5 * law {
                return Some(format!("{:?} on [{}, {}]: {} accepted steps at tol {:e}, {} at tol {:e}: growth {:.1}, the order-{} law tol^(-1/{}) gives {:.1}", m, x0, xe, a.0, tols[0], b.0, tols[1], growth, q, q, law));
            }
        }
    }
    None
}

/// C06: sol_many agrees with sol at every time of the span and reports an out-of-range error (no panic) when a time lies clearly outside
fn sol_many_range() -> Option<String> {
    struct Osc; impl IVP for Osc { fn ode(&self, _t: f64, y: &[f64], d: &mut [f64]) { d[0] = y[1]; d[1] = -y[0]; } }
    for m in [Method::RK4, Method::RK23, Method::DOPRI5, Method::DOP853, Method::RADAU, Method::BDF] {
        for &(x0, xe) in &[(0.0f64, 5.0f64), (5.0, -1.0)] {
            let s = match solve_ivp(&Osc, x0, xe, &[1.0, 0.0], Options::builder().method(m.clone()).dense_output(true).build()) { Ok(s) => s, Err(e) => return Some(format!("{:?}: {:?}", m, e)) };
            let inside: Vec<f64> = (0..=30).map(|i| x0 + (xe - x0) * i as f64 / 30.0).collect();
            let mut rev = inside.clone(); rev.reverse();
            let mut mixed = inside.clone(); mixed.swap(3, 27); mixed.swap(10, 11); mixed.swap(0, 30);
            for (what, grid) in [("in the order of integration", &inside), ("against the order of integration", &rev), ("unsorted", &mixed)] {
                let r = std::panic::catch_unwind(std::panic::AssertUnwindSafe(|| s.sol_many(grid)));
                match r { Err(_) => return Some(format!("{:?} on [{}, {}]: sol_many panics for 31 times of the span given {}", m, x0, xe, what)),
                    Ok(Ok(v)) => { for (k, t) in grid.iter().enumerate() { if s.sol(*t).ok().as_ref() != Some(&v[k]) { return Some(format!("{:?} on [{}, {}]: sol_many ({}) and sol differ at t = {:e}", m, x0, xe, what, t)); } } }
                    Ok(Err(e)) => return Some(format!("{:?} on [{}, {}]: sol_many over 31 times of the span ({}) fails with {:?}", m, x0, xe, what, e)) }
            }
            for out in [x0 - (xe - x0), xe + 0.5 * (xe - x0)] {
                let mut ts = inside.clone(); ts.insert(7, out);
                let r = std::panic::catch_unwind(std::panic::AssertUnwindSafe(|| s.sol_many(&ts)));
                match r { Err(_) => return Some(format!("{:?} on [{}, {}]: sol_many panics when one of the times ({:e}) lies outside the span", m, x0, xe, out)),
                    Ok(Ok(_)) => return Some(format!("{:?} on [{}, {}]: sol_many succeeds although t = {:e} lies outside the span", m, x0, xe, out)),
                    Ok(Err(_)) => {} }
            }
        }
    }
    None
}

/// C13 (F31): the extrapolating evaluation of the time-reflected problem is the reflection of the original one, bit for bit (explicit methods)
fn extrapolation_reflection() -> Option<String> {
    struct Fwd; impl IVP for Fwd { fn ode(&self, t: f64, y: &[f64], d: &mut [f64]) { d[0] = -y[0] + t; } }
    struct Refl; impl IVP for Refl { fn ode(&self, s: f64, z: &[f64], d: &mut [f64]) { d[0] = -(-z[0] + (-s)); } }
    for m in [Method::RK4, Method::RK23, Method::DOPRI5, Method::DOP853] {
        let a = match solve_ivp(&Fwd, 0.0, 1.0, &[1.0], Options::builder().method(m.clone()).dense_output(true).build()) { Ok(s) => s, Err(e) => return Some(format!("{:?}: {:?}", m, e)) };
        let b = match solve_ivp(&Refl, -0.0, -1.0, &[1.0], Options::builder().method(m.clone()).dense_output(true).build()) { Ok(s) => s, Err(e) => return Some(format!("{:?}: {:?}", m, e)) };
        let (ca, cb) = match (a.continuous_sol.as_ref(), b.continuous_sol.as_ref()) { (Some(x), Some(y)) => (x, y), _ => return Some(format!("{:?}: no dense output", m)) };
        if a.t.len() < 3 { continue; }
        for t in [1.05f64, 1.5, -0.05, -0.5] {
            let (va, vb) = (ca.evaluate_extrapolate(t), cb.evaluate_extrapolate(-t));
            match (va, vb) {
                (Some(x), Some(y)) => { let tol = 1e-9 * (1.0 + x[0].abs()); if (x[0] - y[0]).abs() > tol {
                    return Some(format!("{:?}: y' = -y + t on [0, 1] and its time reflection on [0, -1]: evaluate_extrapolate({}) = {:e} but the reflected run gives {:e} at {}", m, t, x[0], y[0], -t)); } }
                (x, y) => if x.is_some() != y.is_some() { return Some(format!("{:?}: evaluate_extrapolate({}) answers only one of the run and its reflection", m, t)); }
            }
        }
    }
    None
}

/// C18: naccpt is the number of reported intervals when no output filtering is requested (also when steps are rejected early), nstep >= naccpt
fn naccpt_equals_intervals() -> Option<String> {
    struct Osc; impl IVP for Osc { fn ode(&self, t: f64, _y: &[f64], d: &mut [f64]) { d[0] = 0.01 + 100.0 * (50.0 * t).sin().powi(2); } }
    for m in [Method::RK4, Method::RK23, Method::DOPRI5, Method::DOP853, Method::RADAU, Method::BDF] {
        for &(x0, xe) in &[(0.0f64, 1.0f64), (1.0, 0.0)] {
            let s = match solve_ivp(&Osc, x0, xe, &[1.0], Options::builder().method(m.clone()).rtol(1e-3).atol(1e-6).build()) { Ok(s) => s, Err(e) => return Some(format!("{:?}: {:?}", m, e)) };
            if s.naccpt + 1 != s.t.len() || s.nstep < s.naccpt {
                return Some(format!("{:?}: y' = 0.01 + 100 sin^2(50 t) on [{}, {}]: naccpt = {}, nstep = {}, nrejct = {}, {} reported intervals", m, x0, xe, s.naccpt, s.nstep, s.nrejct, s.t.len() - 1));
            }
        }
    }
    None
}

/// C03 / C11: with default options every method integrates in either direction: Ok, Success, last sample xend (RK4's default step points toward xend)
fn default_options_both_directions() -> Option<String> {
    struct Osc; impl IVP for Osc { fn ode(&self, _t: f64, y: &[f64], d: &mut [f64]) { d[0] = y[1]; d[1] = -y[0]; } }
    for m in [Method::RK4, Method::RK23, Method::DOPRI5, Method::DOP853, Method::RADAU, Method::BDF] {
        for &(x0, xe) in &[(0.0f64, 2.0f64), (2.0, 0.0), (-1.0, -3.5)] {
            match solve_ivp(&Osc, x0, xe, &[1.0, 0.0], Options::builder().method(m.clone()).build()) {
                Err(e) => return Some(format!("{:?} with default options on [{}, {}]: {:?}", m, x0, xe, e)),
                Ok(s) => { if s.status != Status::Success || s.t.first().copied() != Some(x0) || s.t.last().copied() != Some(xe) { return Some(format!("{:?} with default options on [{}, {}]: status {:?}, t from {:?} to {:?}", m, x0, xe, s.status, s.t.first(), s.t.last())); } }
            }
        }
    }
    None
}

fn main() {
    let which = std::env::args().nth(1).unwrap_or_default();
    let r = match which.as_str() {
        "span_hinit_probe" => span_hinit_probe(),
        "radau_scalar_vector_tol" => radau_scalar_vector_tol(),
        "termination" => nan_rhs_not_success(),
        "teval_terminal" => teval_terminal(),
        "default_mass" => default_mass(),
        "matrix_dense_model" => matrix_dense_model(),
        "lu_small" => lu_small(),
        "default_options_both_directions" => default_options_both_directions(),
        "naccpt_equals_intervals" => naccpt_equals_intervals(),
        "sol_many_range" => sol_many_range(),
        "extrapolation_reflection" => extrapolation_reflection(),
        "step_count_law" => step_count_law(),
        "bdf_rescaling_accuracy" => bdf_rescaling_accuracy(),
        "time_reflection_stiff" => time_reflection_stiff(),
        "dae_constraint" => dae_constraint(),
        "event_at_step_start_state" => event_at_step_start_state(),
        "radau_dense_flag_invariance" => radau_dense_flag_invariance(),
        "modified_solution_counts" => modified_solution_counts(),
        "first_step_rejected_then_success" => first_step_rejected_then_success(),
        "teval_backward_endpoints" => teval_backward_endpoints(),
        "events_with_late_teval" => events_with_late_teval(),
        "dense_up_to_terminal_event" => dense_up_to_terminal_event(),
        "banded_mass_storage" => banded_mass_storage(),
        "event_reflection" => event_reflection(),
        "sparsity_groups" => sparsity_groups(),
        "initial_modified_solution" => initial_modified_solution(),
        "events_order_independent" => events_order_independent(),
        "step_bounds" => step_bounds(),
        "time_reflection" => time_reflection(),
        "pow2_scaling" => pow2_scaling(),
        "output_options" => output_options(),
        "extrapolate_equals_sol" => extrapolate_equals_sol(),
        "negative_time_blowup" => negative_time_blowup(),
        "radau_pade" => radau_pade(),
        "bdf_interpolant_history" => bdf_interpolant_history(),
        "zero_length_dense" => zero_length_dense(),
        "events_multi_in_step" => events_multi_in_step(),
        "banded_jacobian_storage" => banded_jacobian_storage(),
        "sol_at_every_sample" => sol_at_every_sample(),
        "duplication_invariance" => duplication_invariance(),
        "modified_solution_doubling" => modified_solution_doubling(),
        "event_function_scale" => event_function_scale(),
        "tiny_time_scale" => tiny_time_scale(),
        "brent_stays_in_bracket" => brent_stays_in_bracket(),
        "dense_end_points" => dense_end_points(),
        "complex_multiplier_modulus" => complex_multiplier_modulus(),
        "rk4_overshoot" => rk4_overshoot(),
        "counters" => counters(),
        "matrix_arith_dense_model" => matrix_arith_dense_model(),
        "dense_midstep_order" => dense_midstep_order(),
        "first_step_reaches_xend" => first_step_reaches_xend(),
        "short_steps_reported" => short_steps_reported(),
        "first_step_sign_and_overshoot" => first_step_sign_and_overshoot(),
        "radau_interpolant_interval" => radau_interpolant_interval(),
        "event_interpolant_right_end" => event_interpolant_right_end(),
        _ => { println!("unknown scenario {}", which); std::process::exit(2); }
    };
    match r {
        Some(msg) => { println!("FAIL {} {}", which, msg); std::process::exit(1); }
        None => println!("PASS {}", which),
    }
}
