//! Replay routines: concrete inputs run against the REAL crate (path dependency on /repo).
//! They are witnesses for a failed obligation, never deciders.  usage: replay <scenario>
//! Each scenario prints `FAIL <scenario> <what>` (and exits 1) when the real code shows the defect the
//! obligation describes, `PASS <scenario>` otherwise.
use ivp::prelude::*;
use std::cell::Cell;

struct Lin { calls: Cell<usize>, tmin: Cell<f64>, tmax: Cell<f64> }
impl Lin { fn new() -> Self { Lin { calls: Cell::new(0), tmin: Cell::new(f64::MAX), tmax: Cell::new(f64::MIN) } } }
impl IVP for Lin {
    fn ode(&self, t: f64, y: &[f64], d: &mut [f64]) {
        self.calls.set(self.calls.get() + 1);
        if t > self.tmax.get() { self.tmax.set(t); }
        if t < self.tmin.get() { self.tmin.set(t); }
        for i in 0..y.len() { d[i] = -y[i]; }
    }
}
const ADAPTIVE: [Method; 5] = [Method::RK23, Method::DOPRI5, Method::DOP853, Method::RADAU, Method::BDF];

/// C03: the right-hand side is never evaluated outside [x0, xend] -- short span with a larger max_step
fn span_hinit_probe() -> Option<String> {
    for m in ADAPTIVE {
        for (x0, xend) in [(0.0, 1e-9), (0.0, -1e-9), (1.0, 1.0 + 1e-7)] {
            let f = Lin::new();
            let s = solve_ivp(&f, x0, xend, &[1.0, 2.0], Options::builder().method(m.clone()).max_step(1.0).build());
            if s.is_err() { continue; }
            let (lo, hi) = if x0 < xend { (x0, xend) } else { (xend, x0) };
            if std::env::var("REPLAY_ALL").is_ok() && (f.tmax.get() > hi || f.tmin.get() < lo) {
                println!("  {:?} [{}, {}]: ode on [{:e}, {:e}]", m, x0, xend, f.tmin.get(), f.tmax.get()); continue;
            }
            if f.tmax.get() > hi || f.tmin.get() < lo {
                return Some(format!("{:?} on [{}, {}] with max_step=1.0: ode evaluated on [{:e}, {:e}]", m, x0, xend, f.tmin.get(), f.tmax.get()));
            }
        }
    }
    None
}

fn main() {
    let which = std::env::args().nth(1).unwrap_or_default();
    let r = match which.as_str() {
        "span_hinit_probe" => span_hinit_probe(),
        _ => { println!("unknown scenario {}", which); std::process::exit(2); }
    };
    match r {
        Some(msg) => { println!("FAIL {} {}", which, msg); std::process::exit(1); }
        None => println!("PASS {}", which),
    }
}
