"""U-COEF: Runge-Kutta order conditions on the constants the code applies (C02).

For each explicit method the tableau is read from the *current* text of /repo (exact rational value of
each constant's literal text, the same reader the World-R axioms use) through the name map below; the
World-R stage contracts (units *_R) prove that the stage loops apply these constants at these positions.
One Verus lemma per rooted tree, discharged by `by (compute_only)` over integer-scaled memoized spec
functions (no SMT reasoning is involved: the evaluator computes each side exactly).

  order condition of tree t:   sum_i b_i Phi_i(t) = 1/gamma(t)            (|lhs*gamma - 1| < 1e-14)
  row sums:                    c_i = sum_j a_ij                            (stage times match their rows)
  embedded estimator e:        sum_i e_i Phi_i(t) = 0 for order <= qhat, and != 0 for some tree of order qhat+1
"""
import os, re, sys, json, subprocess, time, math
from fractions import Fraction
from functools import lru_cache
ROOT = os.path.dirname(os.path.dirname(os.path.abspath(__file__)))
sys.path.insert(0, ROOT)
from vx import core, gen

def read_consts(repo, path):
    toks = core.read_tokens(repo, path)
    out = {}
    for (name, ty, expr, ln) in core.const_items(toks):
        if ty in ("Float", "f64"):
            out[name] = (gen.eval_const(expr), ln)
    return out

def split_A(name, smax):
    m = re.fullmatch(r"A(\d+)", name)
    if not m: return None
    d = m.group(1); cand = []
    for k in range(1, len(d)):
        i, j = int(d[:k]), int(d[k:])
        if 2 <= i <= smax and 1 <= j < i and not d[k:].startswith("0"): cand.append((i, j))
    return cand[0] if len(cand) == 1 else None

# method -> (file, stages, order p, b row, c names, estimators [(name, {stage: const or ('b-', const)}, qhat)])
def tableau(method, consts):
    V = lambda n: consts[n][0] if n in consts else Fraction(0)
    if method == "rk4":
        S = 4
        A = {(2, 1): V("A21"), (3, 2): V("A32"), (4, 3): V("A43")}
        b = {1: V("B1"), 2: V("B2"), 3: V("B3"), 4: V("B4")}
        c = {2: V("C2"), 3: V("C3"), 4: V("C4")}
        return S, A, b, c, 4, []
    if method == "rk23":
        S = 4
        A = {(2, 1): V("A21"), (3, 2): V("A32"), (4, 1): V("B1"), (4, 2): V("B2"), (4, 3): V("B3")}   # stage 4 = f(x+h, y_new) (FSAL)
        b = {1: V("B1"), 2: V("B2"), 3: V("B3")}
        c = {2: V("C2"), 3: V("C3"), 4: Fraction(1)}
        e = {1: V("E1"), 2: V("E2"), 3: V("E3"), 4: V("E4")}
        return S, A, b, c, 3, [("E", e, 2)]
    if method == "dopri5":
        S = 7
        A = {}
        for n in consts:
            ij = split_A(n, S)
            if ij: A[ij] = V(n)
        b = {j: A.get((7, j), Fraction(0)) for j in range(1, 7)}      # FSAL: the last row is the weight row
        c = {2: V("C2"), 3: V("C3"), 4: V("C4"), 5: V("C5"), 6: Fraction(1), 7: Fraction(1)}
        e = {1: V("E1"), 3: V("E3"), 4: V("E4"), 5: V("E5"), 6: V("E6"), 7: V("E7")}
        return S, A, b, c, 5, [("E", e, 4)]
    if method == "dop853":
        S = 12
        A = {}
        for n in consts:
            ij = split_A(n, S)
            if ij: A[ij] = V(n)
        b = {1: V("B1"), 6: V("B6"), 7: V("B7"), 8: V("B8"), 9: V("B9"), 10: V("B10"), 11: V("B11"), 12: V("B12")}
        c = {i: V("C%d" % i) for i in range(2, 12) if ("C%d" % i) in consts}
        c[12] = Fraction(1)
        er = {1: V("ER1"), 6: V("ER6"), 7: V("ER7"), 8: V("ER8"), 9: V("ER9"), 10: V("ER10"), 11: V("ER11"), 12: V("ER12")}
        bh = dict(b)
        bh[1] = bh.get(1, 0) - V("BH1"); bh[9] = bh.get(9, 0) - V("BH2"); bh[12] = bh.get(12, 0) - V("BH3")
        return S, A, b, c, 8, [("ER", er, None), ("BH", bh, None)]
    raise KeyError(method)

FILES = {"rk4": "src/methods/rk4.rs", "rk23": "src/methods/rk23.rs", "dopri5": "src/methods/dopri5.rs", "dop853": "src/methods/dop853.rs"}

@lru_cache(None)
def trees(n):
    if n == 1: return [()]
    res = set()
    def rec(rem, maxsize, cur):
        if rem == 0: res.add(tuple(sorted(cur))); return
        for s in range(min(rem, maxsize), 0, -1):
            for t in trees(s): rec(rem - s, s, cur + [t])
    rec(n - 1, n - 1, [])
    return sorted(res)
def order(t): return 1 + sum(order(s) for s in t)
def gamma(t):
    g = order(t)
    for s in t: g *= gamma(s)
    return g
def show(t): return "[" + "".join(show(s) for s in t) + "]" if t else "."

def phi_exact(A, S, t):
    """python-side exact evaluation (used only to determine the estimator orders that are then PROVED)"""
    if not t: return {i: Fraction(1) for i in range(1, S + 1)}
    subs = [phi_exact(A, S, s) for s in t]
    out = {}
    for i in range(1, S + 1):
        v = Fraction(1)
        for ps in subs:
            v *= sum(A.get((i, j), 0) * ps[j] for j in range(1, i))
        out[i] = v
    return out

def generate(method, repo, maxorder=None):
    consts = read_consts(repo, FILES[method])
    S, A, b, c, p, ests = tableau(method, consts)
    P = min(p, maxorder) if maxorder else p
    allv = [v for v in A.values()] + list(b.values()) + [v for (_, e, _) in ests for v in e.values()] + list(c.values())
    D = 1
    for v in allv:
        D = D * v.denominator // math.gcd(D, v.denominator)
    lines = ["use vstd::prelude::*;", "verus! {", "pub open spec fn D() -> int { %dint }" % D,
             "pub open spec fn pw(k: nat) -> int decreases k { if k == 0 { 1 } else { D() * pw((k - 1) as nat) } }"]
    lemmas = []     # (name, description)
    # the tableau map above names constants by position; the same tableau is recovered from the statements of `solve`
    # by symbolic execution (coef/symstep.py): the two must agree entry by entry
    crosscheck = "not available"
    try:
        S2, A2, b2, c2, _bt, _yc = extract(method, repo)
        bad = [("a_%d_%d" % ij, v, A2.get(ij, Fraction(0))) for ij, v in sorted(A.items()) if A2.get(ij, Fraction(0)) != v]
        bad += [("a_%d_%d" % ij, Fraction(0), v) for ij, v in sorted(A2.items()) if ij[0] <= S and ij not in A and v != 0]
        bad += [("b_%d" % i, v, b2.get(i, Fraction(0))) for i, v in sorted(b.items()) if b2.get(i, Fraction(0)) != v]
        bad += [("c_%d" % i, v, c2.get(i, Fraction(0))) for i, v in sorted(c.items()) if c2.get(i, Fraction(0)) != v]
        crosscheck = "agrees" if not bad else "differs"
        lines.append("proof fn map_matches_code() ensures %s { assert(%s) by (compute_only); }" % (("1int == 1int", "1int == 1int") if not bad else ("false", "1int == 2int")))
        lemmas.append(("map_matches_code", "the tableau used by solve() is the one the lemmas are stated for" + ("" if not bad else ": %s is %s in the map and %s in the code" % (bad[0][0], bad[0][1], bad[0][2]))))
    except StageTime as e:
        crosscheck = "differs"
        lines.append("proof fn map_matches_code() ensures false { assert(1int == 2int) by (compute_only); }")
        lemmas.append(("map_matches_code", "every stage is evaluated at (start of the step) + c_i*h: " + str(e)))
    except Exception as e:
        crosscheck = "not available (%s)" % (str(e)[:80],)
    for (i, j), v in sorted(A.items()):
        if v != 0: lines.append("pub open spec fn a_%d_%d() -> int { %dint }" % (i, j, int(v * D)))
    for i, v in sorted(b.items()):
        if v != 0: lines.append("pub open spec fn b_%d() -> int { %dint }" % (i, int(v * D)))
    for (nm, e, q) in ests:
        for i, v in sorted(e.items()):
            if v != 0: lines.append("pub open spec fn %s_%d() -> int { %dint }" % (nm.lower(), i, int(v * D)))
    ids = {}; udone = set()
    def phi(t):
        if t in ids: return ids[t]
        subs = [phi(s) for s in t]
        k = len(ids); ids[t] = k
        for i in range(1, S + 1):
            for sid in subs:
                if (sid, i) in udone: continue
                udone.add((sid, i))
                js = [j for j in range(1, i) if A.get((i, j), 0) != 0]
                expr = " + ".join("a_%d_%d() * phi_%d_%d()" % (i, j, sid, j) for j in js) if js else "0int"
                lines.append("#[verifier::memoize] pub open spec fn u_%d_%d() -> int { %s }" % (sid, i, expr))
            expr = " * ".join("u_%d_%d()" % (sid, i) for sid in subs) if t else "1int"
            lines.append("#[verifier::memoize] pub open spec fn phi_%d_%d() -> int { %s }" % (k, i, expr))
        return k
    TOL = 10 ** 14
    # row sums
    for i in sorted(c):
        js = [j for j in range(1, i) if A.get((i, j), 0) != 0]
        if not js: continue
        expr = " + ".join("a_%d_%d()" % (i, j) for j in js)
        ci = int(c[i] * D)
        name = "rowsum_%d" % i
        lines.append("proof fn %s() ensures ((%s) - %dint) * %d < D(), (%dint - (%s)) * %d < D() { assert(((%s) - %dint) * %d < D() && (%dint - (%s)) * %d < D()) by (compute_only); }" % (name, expr, ci, TOL, ci, expr, TOL, expr, ci, TOL, ci, expr, TOL))
        lemmas.append((name, "c_%d = sum_j a_%dj" % (i, i)))
    # order conditions
    n = 0
    for o in range(1, P + 1):
        for t in trees(o):
            k = phi(t); g = gamma(t)
            expr = " + ".join("b_%d() * phi_%d_%d()" % (i, k, i) for i in sorted(b) if b[i] != 0)
            name = "oc_o%d_%d" % (o, n)
            cond = "(%s) * %d * %d - pw(%d) * %d < pw(%d) && pw(%d) * %d - (%s) * %d * %d < pw(%d)" % (expr, g, TOL, o, TOL, o, o, TOL, expr, g, TOL, o)
            lines.append("proof fn %s() ensures %s { assert(%s) by (compute_only); }" % (name, cond, cond))
            lemmas.append((name, "order %d tree %s: sum b_i Phi_i = 1/%d" % (o, show(t), g)))
            n += 1
    # embedded estimators: determine the order numerically, then PROVE vanishing up to it and non-vanishing at the next
    for (nm, e, q) in ests:
        def val(t):
            ph = phi_exact(A, S, t)
            return sum(e.get(i, 0) * ph[i] for i in range(1, S + 1))
        qq = 0
        for o in range(1, p + 2):
            if all(abs(val(t)) < Fraction(1, 10 ** 13) for t in trees(o)): qq = o
            else: break
        if q is not None and qq != q:
            # the stated estimator order is part of the property: emit a lemma that cannot hold
            lines.append("proof fn est_%s_order() ensures false { assert(%d == %d) by (compute_only); }" % (nm, qq, q))
            lemmas.append(("est_%s_order" % nm, "estimator %s has order %d, expected %d" % (nm, qq, q)))
        for o in range(1, qq + 1):
            for t in trees(o):
                k = phi(t)
                expr = " + ".join("%s_%d() * phi_%d_%d()" % (nm.lower(), i, k, i) for i in sorted(e) if e[i] != 0)
                name = "est_%s_o%d_%d" % (nm, o, k)
                cond = "(%s) * %d < pw(%d) && 0 - (%s) * %d < pw(%d)" % (expr, TOL, o, expr, TOL, o)
                lines.append("proof fn %s() ensures %s { assert(%s) by (compute_only); }" % (name, cond, cond))
                lemmas.append((name, "estimator %s vanishes on order-%d tree %s" % (nm, o, show(t))))
        # non-vanishing witness at order qq+1
        wit = None
        for t in trees(qq + 1):
            if abs(val(t)) > Fraction(1, 10 ** 8): wit = t; break
        if wit is not None:
            k = phi(wit); o = qq + 1
            expr = " + ".join("%s_%d() * phi_%d_%d()" % (nm.lower(), i, k, i) for i in sorted(e) if e[i] != 0)
            name = "est_%s_nonzero_o%d" % (nm, o)
            cond = "(%s) * 100000000 > pw(%d) || 0 - (%s) * 100000000 > pw(%d)" % (expr, o, expr, o)
            lines.append("proof fn %s() ensures %s { assert(%s) by (compute_only); }" % (name, cond, cond))
            lemmas.append((name, "estimator %s does not vanish on order-%d tree %s (its order is exactly %d)" % (nm, o, show(wit), qq)))
        else:
            lines.append("proof fn est_%s_nonzero() ensures false { assert(1 == 2) by (compute_only); }" % nm)
            lemmas.append(("est_%s_nonzero" % nm, "estimator %s vanishes on every tree of order %d" % (nm, qq + 1)))
    lines.append("} // verus!")
    lines.append("fn main() {}")
    return "\n".join(lines) + "\n", lemmas, {"stages": S, "order": P, "D_digits": len(str(D)), "map_vs_code": crosscheck, "consts": {k: str(v[0]) for k, v in consts.items()}}

IMPLS = {"rk4": "RK4", "rk23": "RK23", "dopri5": "DOPRI5", "dop853": "DOP853"}
DENSE_ORDER = {"rk4": 3, "rk23": 3, "dopri5": 4, "dop853": 7}     # q of property C07: the interpolant's error is O(h^(q+1))

class StageTime(Exception):
    pass

def extract(method, repo):
    """tableau and continuous weights recovered from the code by symbolic execution (coef/symstep.py)"""
    from coef import symstep
    r = symstep.analyse(repo, FILES[method], IMPLS[method])
    if r.get("bad"):
        raise StageTime(r["bad"][0])
    S = len(r["stages"])
    A = {}; c = {}
    for i, (_, cp, row) in enumerate(r["stages"], 1):
        if set(cp) - {(1, 0)}: raise core.Undecided("stage %d: abscissa is not x + c*h" % i)
        c[i] = cp.get((1, 0), Fraction(0))
        if row.get("Y") != {(0, 0): Fraction(1)}: raise core.Undecided("stage %d: its argument is not y + h*(...)" % i)
        for sym, pol in row.items():
            if sym == "Y": continue
            j = int(sym[1:])
            if set(pol) - {(1, 0)} or j >= i: raise core.Undecided("stage %d: coefficient of %s is not a constant times h (explicit method expected)" % (i, sym))
            A[(i, j)] = pol[(1, 0)]
    b = {}
    for sym, pol in r["ynew"].items():
        if sym == "Y":
            if pol != {(0, 0): Fraction(1)}: raise core.Undecided("new state: coefficient of y is not 1")
            continue
        if set(pol) - {(1, 0)}: raise core.Undecided("new state: coefficient of %s is not a constant times h" % sym)
        b[int(sym[1:])] = pol[(1, 0)]
    bt = {}      # stage -> {theta power: coefficient}
    ycoef = r["u"].get("Y", {})
    for sym, pol in r["u"].items():
        if sym == "Y": continue
        for (hd, td), v in pol.items():
            if hd != 1: raise core.Undecided("interpolant: coefficient of %s is not h times a polynomial in theta" % sym)
            bt.setdefault(int(sym[1:]), {})[td] = v
    return S, A, b, c, bt, ycoef

@lru_cache(None)
def generate_dense(method, repo):
    try:
        S, A, b, c, bt, ycoef = extract(method, repo)
    except StageTime as e:
        text = "use vstd::prelude::*;\nverus! {\npub open spec fn D() -> int { 1int }\nproof fn stage_times() ensures false { assert(1int == 2int) by (compute_only); }\n} // verus!\nfn main() {}\n"
        return text, [("stage_times", "every stage is evaluated at (start of the step) + c_i*h: " + str(e))], {"stages": 0}
    q = DENSE_ORDER[method]
    allv = list(A.values()) + [v for d in bt.values() for v in d.values()]
    D = 1
    for v in allv:
        D = D * v.denominator // math.gcd(D, v.denominator)
    lines = ["use vstd::prelude::*;", "verus! {", "pub open spec fn D() -> int { %dint }" % D,
             "pub open spec fn pw(k: nat) -> int decreases k { if k == 0 { 1 } else { D() * pw((k - 1) as nat) } }"]
    lemmas = []
    for (i, j), v in sorted(A.items()):
        if v != 0: lines.append("pub open spec fn a_%d_%d() -> int { %dint }" % (i, j, int(v * D)))
    M = max([m for d in bt.values() for m in d] + [0])
    for i, d in sorted(bt.items()):
        for m, v in sorted(d.items()):
            if v != 0: lines.append("pub open spec fn bt_%d_%d() -> int { %dint }" % (i, m, int(v * D)))
    ids = {}; udone = set()
    def phi(t):
        if t in ids: return ids[t]
        subs = [phi(s) for s in t]
        k = len(ids); ids[t] = k
        for i in range(1, S + 1):
            for sid in subs:
                if (sid, i) in udone: continue
                udone.add((sid, i))
                js = [j for j in range(1, i) if A.get((i, j), 0) != 0]
                expr = " + ".join("a_%d_%d() * phi_%d_%d()" % (i, j, sid, j) for j in js) if js else "0int"
                lines.append("#[verifier::memoize] pub open spec fn u_%d_%d() -> int { %s }" % (sid, i, expr))
            expr = " * ".join("u_%d_%d()" % (sid, i) for sid in subs) if t else "1int"
            lines.append("#[verifier::memoize] pub open spec fn phi_%d_%d() -> int { %s }" % (k, i, expr))
        return k
    TOL = 10 ** 13
    # the coefficient of y in the interpolant is identically 1
    ok = (ycoef == {(0, 0): Fraction(1)})
    lines.append("proof fn dense_y_weight() ensures %s { assert(%s) by (compute_only); }" % (("1int == 1int", "1int == 1int") if ok else ("false", "1int == 2int")))
    lemmas.append(("dense_y_weight", "the interpolant is y_old plus h times a combination of stages (weight of y_old is identically 1)"))
    n = 0
    for o in range(1, q + 1):
        for t in trees(o):
            k = phi(t); g = gamma(t)
            for m in range(0, M + 1):
                terms = ["bt_%d_%d() * phi_%d_%d()" % (i, m, k, i) for i in sorted(bt) if bt[i].get(m, 0) != 0]
                expr = " + ".join(terms) if terms else "0int"
                name = "dense_o%d_%d_th%d" % (o, n, m)
                if m == o:
                    cond = "(%s) * %d * %d - pw(%d) * %d < pw(%d) && pw(%d) * %d - (%s) * %d * %d < pw(%d)" % (expr, g, TOL, o, TOL, o, o, TOL, expr, g, TOL, o)
                    what = "1/%d" % g
                else:
                    cond = "(%s) * %d < pw(%d) && 0 - (%s) * %d < pw(%d)" % (expr, TOL, o, expr, TOL, o)
                    what = "0"
                lines.append("proof fn %s() ensures %s { assert(%s) by (compute_only); }" % (name, cond, cond))
                lemmas.append((name, "continuous order %d, tree %s, coefficient of theta^%d: sum_i b_i^(%d) Phi_i = %s" % (o, show(t), m, m, what)))
            n += 1
    lines.append("} // verus!")
    lines.append("fn main() {}")
    return "\n".join(lines) + "\n", lemmas, {"stages": S, "dense_order": q, "theta_degree": M, "D_digits": len(str(D))}

def run(method, repo="/repo", maxorder=None, build=None, timeout=900, kind="order"):
    build = build or os.path.join(ROOT, "build")
    os.makedirs(build, exist_ok=True)
    ename = ("coef_" if kind == "order" else "coef_dense_") + method
    tags = ["C02"] if kind == "order" else ["C07", "C06"]
    try:
        text, lemmas, info = generate(method, repo, maxorder) if kind == "order" else generate_dense(method, repo)
    except core.Undecided as e:
        return {"name": ename, "status": "undecided", "reason": str(e)}
    except Exception as e:
        return {"name": ename, "status": "undecided", "reason": "generator error: %r" % (e,)}
    path = os.path.join(build, "%s.rs" % ename)
    open(path, "w").write(text)
    t0 = time.time()
    try:
        p = subprocess.run(["verus", path, "--multiple-errors", "400", "--error-format=json", "--output-json", "--time", "--rlimit", "100"],
                           capture_output=True, text=True, timeout=timeout, cwd=build)
    except subprocess.TimeoutExpired:
        return {"name": ename, "status": "undecided", "reason": "verus timeout"}
    wall = time.time() - t0
    src_lines = text.split("\n")
    failed = set(); other = []
    for l in p.stderr.split("\n"):
        l = l.strip()
        if not l.startswith("{"): continue
        try: d = json.loads(l)
        except ValueError: continue
        if d.get("level") != "error" or d.get("message", "").startswith("aborting"): continue
        hit = False
        for s in d.get("spans", []):
            ln = s["line_start"]
            if 1 <= ln <= len(src_lines):
                m = re.match(r"proof fn (\w+)\(", src_lines[ln - 1])
                if m: failed.add(m.group(1)); hit = True
        if not hit: other.append(d.get("message", "")[:200])
    names = [n for (n, _) in lemmas]
    desc = dict(lemmas)
    # vacuity guard: the evaluator must reject a false computation over the same definitions
    vtext = text.replace("} // verus!", "proof fn vacuity_probe() ensures false { assert(D() == 0) by (compute_only); }\n} // verus!")
    only = [l for l in vtext.split("\n") if not l.startswith("proof fn ") or l.startswith("proof fn vacuity_probe")]
    vpath = os.path.join(build, "%s_vacuity.rs" % ename)
    open(vpath, "w").write("\n".join(only) + "\n")
    pv = subprocess.run(["verus", vpath], capture_output=True, text=True, timeout=300, cwd=build)
    if "evaluates to false" not in pv.stderr and "simplifies to false" not in pv.stderr:
        return {"name": ename, "status": "undecided", "reason": "vacuity probe was not rejected: " + pv.stderr[-300:], "backend": "verus-compute"}
    if other and not failed:
        return {"name": ename, "status": "undecided", "reason": "verifier error: " + other[0], "backend": "verus-compute"}
    cl = "coef" if kind == "order" else "dense"
    viol = [{"clause": "%s.%s.%s" % (cl, method, n), "clauses": ["%s.%s.%s" % (cl, method, n)], "message": "order condition not satisfied: " + desc.get(n, n),
             "rendered": "lemma %s (%s) of build/%s.rs was rejected by the evaluator; constants and formulas read from %s" % (n, desc.get(n, n), ename, FILES[method]),
             "code": [FILES[method]], "tags": tags} for n in sorted(failed) if n in desc]
    first = min([names.index(n) for n in failed if n in names], default=len(names))
    return {"name": ename, "status": "failed" if viol else "ok", "obligations": len(names), "discharged": first if viol else len(names),
            "note": "the evaluator stops at the first rejected lemma; later lemmas are not counted as discharged" if viol else "",
            "violations": viol, "backend": "verus-compute", "wall_s": round(wall, 1),
            "samples": [{"lemma": n, "states": d} for (n, d) in lemmas[:2] + lemmas[-2:]], "info": {k: v for k, v in info.items() if k != "consts"}}

if __name__ == "__main__":
    if len(sys.argv) > 2 and sys.argv[2] == "dense":
        r = run(sys.argv[1], kind="dense")
    else:
        r = run(sys.argv[1], maxorder=int(sys.argv[2]) if len(sys.argv) > 2 else None)
    print(json.dumps({k: v for k, v in r.items() if k != "violations"}, indent=1)); print([v["clause"] for v in r.get("violations", [])][:10])
