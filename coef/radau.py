"""coefficient lemmas for Radau IIA(5)  [C02]

What is read from /repo on every run (src/methods/radau.rs, statements of RADAU::solve):
  * the nodes: the abscissae of the three stage evaluations  f.ode(x + C*h, ..), f.ode(xph, ..)
  * T  : the back-transformation  z_k[i] = f1[i]*.. + f2[i]*.. + f3[i]*..
  * TI : the two forward transformations  f_k[i] = z1[i]*.. + ..   and   z_k[i] = ..*a1 + ..*a2 + ..*a3  (they must agree)
  * Lambda: the block the transformed Newton right-hand side is built with
            z1 += sum1*fac1;  z2 = z2 + sum2*alphn - sum3*betan;  z3 = z3 + sum3*alphn + sum2*betan   (fac1 = U1/h, ...)
  * the error-estimator weights  hee_k = DD_k / h  and  f2[i] = hee1*z1[i] + hee2*z2[i] + hee3*z3[i]
What is proved (Verus by(compute_only) on the exact rational value of the literal text, to 1e-12):
  * the nodes are the Radau points: 10c^2 - 8c + 1 = 0 for c1 < c2, c3 = 1
  * TI * T = I
  * A^-1 = T * Lambda * TI satisfies the collocation conditions C(3):  A^-1 (c^k) = k c^(k-1), k = 1, 2, 3
    (A is then the collocation matrix on the Radau points: Radau IIA, order 5, stability function the (2,3) Pade
    approximant -- cited mathematics)
  * the estimator weights annihilate polynomials up to degree 3:  1 + sum e_k c_k = 0,  sum e_k c_k^2 = 0,  sum e_k c_k^3 = 0
"""
import os, sys, re, json, time, subprocess, math
from fractions import Fraction
ROOT = os.path.dirname(os.path.dirname(os.path.abspath(__file__)))
sys.path.insert(0, ROOT)
from vx import core, gen
from vx.lexer import match_close
from coef.symstep import statements

FILE = "src/methods/radau.rs"

class NoMatch(Exception):
    pass

def split_top(toks, seps):
    """split a token list at top-level occurrences of the separator texts; returns [(sep_before, tokens)]"""
    out = []; cur = []; sep = "+"; i = 0
    while i < len(toks):
        t = toks[i]
        if t.text in ("(", "["):
            c = match_close(toks, i); cur += toks[i:c + 1]; i = c + 1; continue
        if t.text in seps and cur:
            out.append((sep, cur)); cur = []; sep = t.text; i += 1; continue
        if t.text in seps and not cur and t.text in ("+", "-"):
            sep = "-" if (sep == "+") == (t.text == "-") else "+"; i += 1; continue
        cur.append(t); i += 1
    if cur: out.append((sep, cur))
    return out

def linear(toks, consts, scal):
    """sum of products with exactly one variable factor each -> {variable text: coefficient}"""
    res = {}
    for sgn, term in split_top(toks, ("+", "-")):
        coef = Fraction(1); var = None
        for _, fac in split_top(term, ("*",)):
            txt = " ".join(t.text for t in fac)
            if len(fac) == 1 and fac[0].kind == "num":
                v = gen.lit_value(fac[0].text)
                if v is None: raise NoMatch("literal " + txt)
                coef *= v
            elif txt in consts: coef *= consts[txt]
            elif txt in scal: coef *= scal[txt]; res['_per_h'] = True
            elif var is None: var = txt
            else: raise NoMatch("two variables in a term: %s, %s" % (var, txt))
        if var is None: raise NoMatch("constant term")
        res[var] = res.get(var, Fraction(0)) + (coef if sgn == "+" else -coef)
    return res

def extract(repo):
    toks = core.read_tokens(repo, FILE)
    consts = {}
    for (name, ty, e, ln) in core.const_items(toks):
        if ty in ("Float", "f64"): consts[name] = gen.eval_const(e)
    s, kw, e = core.find_item(toks, 0, len(toks), "impl RADAU")
    b0, b1 = core.body_range(toks, kw, e)
    fns = {}
    for (fs, fkw, fe) in core.split_items(toks, b0 + 1, b1):
        if toks[fkw].text == "fn": fns[toks[fkw + 1].text] = (fkw, fe)
    lo, hi = core.body_range(toks, fns["solve"][0], fns["solve"][1])
    scal = {}        # name -> coefficient of 1/h   (let fac1 = U1 / h)
    rows = {}        # (lhs, frozenset(vars)) -> [coefficient dict]
    nodes = []
    for st in statements(toks, lo + 1, hi):
        txt = " ".join(t.text for t in st)
        m = re.match(r"let (\w+) = (\w+) / h$", txt)
        if m and m.group(2) in consts:
            scal[m.group(1)] = consts[m.group(2)]; continue
        m = re.match(r"f \. ode \( (.*?) , & cont \[ \.\. n \] , & mut z([123]) \)$", txt)
        if m:
            a = m.group(1)
            mm = re.match(r"x \+ (\w+) \* h$", a)
            if mm and mm.group(1) in consts: nodes.append((int(m.group(2)), consts[mm.group(1)]))
            elif a == "xph": nodes.append((int(m.group(2)), Fraction(1)))
            else: raise core.Undecided("radau: stage abscissa `%s` is not x + C*h or xph" % a)
            continue
        for op in ("=", "+="):
            k = next((i for i, t in enumerate(st) if t.text == op), -1)
            if k <= 0: continue
            lhs = " ".join(t.text for t in st[:k])
            if not re.match(r"(z|f)[123] \[ i \]$", lhs): continue
            try:
                lin = linear(st[k + 1:], consts, scal)
            except NoMatch:
                continue
            if op == "+=": lin[lhs] = lin.get(lhs, Fraction(0)) + 1
            rows.setdefault(lhs, []).append(lin)
            break
    def pick(lhs, want):
        hits = [l for l in rows.get(lhs, []) if lhs not in l and '_per_h' not in l and set(l.keys()) <= set(want) and len(l) >= 2]
        return hits
    res = {"consts": consts, "scal": scal}
    # T: z_k[i] in terms of f1[i], f2[i], f3[i]
    fv = ["f1 [ i ]", "f2 [ i ]", "f3 [ i ]"]; zv = ["z1 [ i ]", "z2 [ i ]", "z3 [ i ]"]; av = ["a1", "a2", "a3"]
    T = []
    for k in (1, 2, 3):
        h = pick("z%d [ i ]" % k, fv)
        if len(h) != 1: raise core.Undecided("radau: expected exactly one back-transformation z%d[i] = T*f, found %d" % (k, len(h)))
        T.append([h[0].get(v, Fraction(0)) for v in fv])
    TIa = []; TIb = []
    for k in (1, 2, 3):
        h = pick("f%d [ i ]" % k, zv)
        if len(h) != 1: raise core.Undecided("radau: expected exactly one forward transformation f%d[i] = TI*z, found %d" % (k, len(h)))
        TIa.append([h[0].get(v, Fraction(0)) for v in zv])
        h = pick("z%d [ i ]" % k, av)
        if len(h) != 1: raise core.Undecided("radau: expected exactly one forward transformation z%d[i] = TI*a, found %d" % (k, len(h)))
        TIb.append([h[0].get(v, Fraction(0)) for v in av])
    # Lambda: the coefficients of sum1..3 (in units of 1/h) in the updates of z1..3
    sv = ["sum1", "sum2", "sum3"]
    L = []
    for k in (1, 2, 3):
        h = [{a: b for a, b in l.items() if a != '_per_h'} for l in rows.get("z%d [ i ]" % k, []) if any(v in l for v in sv)]
        if len(h) != 1: raise core.Undecided("radau: expected exactly one Newton right-hand-side update of z%d, found %d" % (k, len(h)))
        if h[0].get("z%d [ i ]" % k) != 1: raise core.Undecided("radau: the update of z%d does not keep z%d" % (k, k))
        L.append([h[0].get(v, Fraction(0)) for v in sv])
    # estimator weights
    E = None
    for k in (1, 2, 3):
        for l in rows.get("f%d [ i ]" % k, []):
            if l.get('_per_h') and set(l.keys()) - {'_per_h'} == set(zv): E = [l[v] for v in zv]
    if E is None: raise core.Undecided("radau: error-estimator combination f_k[i] = hee1*z1[i] + hee2*z2[i] + hee3*z3[i] not found")
    nd = dict(nodes)
    if sorted(nd) != [1, 2, 3]: raise core.Undecided("radau: the three stage evaluations were not found")
    res.update({"T": T, "TIa": TIa, "TIb": TIb, "L": L, "E": E, "c": [nd[1], nd[2], nd[3]]})
    return res

def generate(repo):
    x = extract(repo)
    T, TI, L, E, c = x["T"], x["TIa"], x["L"], x["E"], x["c"]
    allv = [v for r in T + TI + x["TIb"] + L for v in r] + E + c
    D = 1
    for v in allv: D = D * v.denominator // math.gcd(D, v.denominator)
    TOL = 10 ** 12
    lines = ["use vstd::prelude::*;", "verus! {", "pub open spec fn D() -> int { %dint }" % D,
             "pub open spec fn pw(k: nat) -> int decreases k { if k == 0 { 1 } else { D() * pw((k - 1) as nat) } }"]
    lemmas = []
    def I(v): return "(%dint)" % int(v * D)
    for nm, M in (("t", T), ("ti", TI), ("l", L)):
        for i in range(3):
            for j in range(3):
                lines.append("pub open spec fn %s_%d_%d() -> int { %s }" % (nm, i, j, I(M[i][j])))
    for i in range(3):
        lines.append("pub open spec fn c_%d() -> int { %s }" % (i, I(c[i])))
        lines.append("pub open spec fn e_%d() -> int { %s }" % (i, I(E[i])))
    def lemma(name, expr, deg, desc, tol=TOL):
        cond = "(%s) * %d < pw(%d) && 0 - (%s) * %d < pw(%d)" % (expr, tol, deg, expr, tol, deg)
        lines.append("proof fn %s() ensures %s { assert(%s) by (compute_only); }" % (name, cond, cond))
        lemmas.append((name, desc))
    def same(name, ok, desc):
        lines.append("proof fn %s() ensures %s { assert(%s) by (compute_only); }" % (name, "1int == 1int" if ok else "false", "1int == 1int" if ok else "1int == 2int"))
        lemmas.append((name, desc))
    same("ti_used_consistently", x["TIa"] == x["TIb"], "the two forward transformations of solve() use the same matrix TI")
    same("third_node_is_the_step_end", c[2] == 1 and c[0] < c[1], "stage abscissae are x + c1 h, x + c2 h, x + h with c1 < c2")
    for i in (0, 1):
        lemma("node_%d" % (i + 1), "10 * c_%d() * c_%d() - 8 * c_%d() * D() + D() * D()" % (i, i, i), 2, "c%d is a Radau point: 10 c^2 - 8 c + 1 = 0" % (i + 1))
    for i in range(3):
        for j in range(3):
            expr = " + ".join("ti_%d_%d() * t_%d_%d()" % (i, k, k, j) for k in range(3)) + (" - D() * D()" if i == j else "")
            lemma("ti_t_%d_%d" % (i, j), expr, 2, "(TI T)[%d][%d] = %d" % (i, j, 1 if i == j else 0))
    # M = T L TI ;  M c^k = k c^(k-1)
    def m_entry(i, j):
        return "(" + " + ".join("t_%d_%d() * l_%d_%d() * ti_%d_%d()" % (i, a, a, b, b, j) for a in range(3) for b in range(3)) + ")"
    for i in range(3):
        for j in range(3):
            lines.append("#[verifier::memoize] pub open spec fn minv_%d_%d() -> int { %s }" % (i, j, m_entry(i, j)))
    def cp(j, k): return " * ".join(["c_%d()" % j] * k) if k > 0 else "1int"
    for k in (1, 2, 3):
        for i in range(3):
            lhs = " + ".join("minv_%d_%d() * %s" % (i, j, cp(j, k)) for j in range(3))
            rhs = "%d * pw(3) * %s * D()" % (k, cp(i, k - 1))       # both sides have degree 3 + k
            lemma("colloc_k%d_row%d" % (k, i + 1), "%s - %s" % (lhs, rhs), 3 + k,
                  "collocation condition C(3), k = %d, row %d: (T Lambda TI) c^%d = %d c^%d" % (k, i + 1, k, k, k - 1), tol=10 ** 11)
    lemma("est_deg1", "D() * D() + " + " + ".join("e_%d() * c_%d()" % (i, i) for i in range(3)), 2, "estimator annihilates degree 1: 1 + sum e_k c_k = 0")
    lemma("est_deg2", " + ".join("e_%d() * c_%d() * c_%d()" % (i, i, i) for i in range(3)), 3, "estimator annihilates degree 2: sum e_k c_k^2 = 0")
    lemma("est_deg3", " + ".join("e_%d() * c_%d() * c_%d() * c_%d()" % (i, i, i, i) for i in range(3)), 4, "estimator annihilates degree 3: sum e_k c_k^3 = 0")
    lines.append("} // verus!")
    lines.append("fn main() {}")
    info = {"nodes": [str(v) for v in c], "D_digits": len(str(D))}
    return "\n".join(lines) + "\n", lemmas, info

def run(repo="/repo", build=None, timeout=900):
    build = build or os.path.join(ROOT, "build")
    os.makedirs(build, exist_ok=True)
    ename = "coef_radau"
    try:
        text, lemmas, info = generate(repo)
    except core.Undecided as e:
        return {"name": ename, "status": "undecided", "reason": str(e)}
    except Exception as e:
        return {"name": ename, "status": "undecided", "reason": "generator error: %r" % (e,)}
    path = os.path.join(build, "%s.rs" % ename)
    open(path, "w").write(text)
    t0 = time.time()
    try:
        p = subprocess.run(["verus", path, "--multiple-errors", "400", "--error-format=json", "--output-json", "--time", "--rlimit", "100"],
                           capture_output=True, text=True, timeout=timeout, cwd=build)
    except subprocess.TimeoutExpired:
        return {"name": ename, "status": "undecided", "reason": "verus timeout"}
    wall = time.time() - t0
    src_lines = text.split("\n")
    failed = set(); other = []
    for l in p.stderr.split("\n"):
        l = l.strip()
        if not l.startswith("{"): continue
        try: d = json.loads(l)
        except ValueError: continue
        if d.get("level") != "error" or d.get("message", "").startswith("aborting"): continue
        hit = False
        for s in d.get("spans", []):
            ln = s["line_start"]
            if 1 <= ln <= len(src_lines):
                m = re.match(r"proof fn (\w+)\(", src_lines[ln - 1])
                if m: failed.add(m.group(1)); hit = True
        if not hit: other.append(d.get("message", "")[:200])
    names = [n for (n, _) in lemmas]
    desc = dict(lemmas)
    vtext = text.replace("} // verus!", "proof fn vacuity_probe() ensures false { assert(D() == 0) by (compute_only); }\n} // verus!")
    only = [l for l in vtext.split("\n") if not l.startswith("proof fn ") or l.startswith("proof fn vacuity_probe")]
    vpath = os.path.join(build, "%s_vacuity.rs" % ename)
    open(vpath, "w").write("\n".join(only) + "\n")
    pv = subprocess.run(["verus", vpath], capture_output=True, text=True, timeout=300, cwd=build)
    if "evaluates to false" not in pv.stderr and "simplifies to false" not in pv.stderr:
        return {"name": ename, "status": "undecided", "reason": "vacuity probe was not rejected: " + pv.stderr[-300:], "backend": "verus-compute"}
    if other and not failed:
        return {"name": ename, "status": "undecided", "reason": "verifier error: " + other[0], "backend": "verus-compute"}
    viol = [{"clause": "coef.radau.%s" % n, "clauses": ["coef.radau.%s" % n], "message": "coefficient condition not satisfied: " + desc.get(n, n),
             "rendered": "lemma %s (%s) of build/%s.rs was rejected by the evaluator; constants and formulas read from %s" % (n, desc.get(n, n), ename, FILE),
             "code": [FILE], "tags": ["C02"]} for n in sorted(failed) if n in desc]
    first = min([names.index(n) for n in failed if n in names], default=len(names))
    return {"name": ename, "status": "failed" if viol else "ok", "obligations": len(names), "discharged": first if viol else len(names),
            "note": "the evaluator stops at the first rejected lemma; later lemmas are not counted as discharged" if viol else "",
            "violations": viol, "backend": "verus-compute", "wall_s": round(wall, 1),
            "samples": [{"lemma": n, "states": d} for (n, d) in lemmas[:2] + lemmas[-2:]], "info": info}

if __name__ == "__main__":
    r = run()
    print(json.dumps({k: v for k, v in r.items() if k != "violations"}, indent=1)); print([v["clause"] for v in r.get("violations", [])][:10])
