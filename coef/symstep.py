"""symstep: symbolic execution of an explicit Runge-Kutta solver's `solve` body and `interpolate` function, read from
/repo on every run.  It recovers, from the code itself,
  * the stages: every `f.ode(x + c*h, &buf, &mut kbuf)` call defines a stage whose row is the symbolic content of `buf`
    (which must have the form  Y + h * sum_j a_j K_j),
  * the new state (the value copied into `y` on acceptance)  ->  the weights b_j,
  * the rows of `cont` at the moment the step interpolant is built, and
  * the polynomial in theta = (xi - xold)/h that `interpolate` evaluates  ->  the continuous weights b_j(theta).
Values are linear forms over the basis {Y, K_1, K_2, ...}; coefficients are polynomials in (h, theta) with exact rational
coefficients (a literal or a constant is the exact rational of its text).  Anything the executor cannot model makes the
affected buffer unknown; using an unknown value in a tracked quantity raises Unsupported (the engine reports undecided)."""
import sys, os
from fractions import Fraction
sys.path.insert(0, os.path.dirname(os.path.dirname(os.path.abspath(__file__))))
from vx import core, gen
from vx.lexer import match_close

class Unsupported(Exception):
    pass

# ---- polynomials in (h, theta): dict {(i, j): Fraction}
def P(c=0):
    c = Fraction(c)
    return {(0, 0): c} if c != 0 else {}
H = {(1, 0): Fraction(1)}
TH = {(0, 1): Fraction(1)}
def padd(a, b, s=1):
    r = dict(a)
    for k, v in b.items():
        r[k] = r.get(k, 0) + s * v
        if r[k] == 0: del r[k]
    return r
def pmul(a, b):
    r = {}
    for (i, j), v in a.items():
        for (k, l), w in b.items():
            r[(i + k, j + l)] = r.get((i + k, j + l), 0) + v * w
    return {k: v for k, v in r.items() if v != 0}
def pdiv(a, b):
    """division by a monomial"""
    if len(b) != 1: raise Unsupported("division by a non-monomial")
    (k, l), w = next(iter(b.items()))
    r = {}
    for (i, j), v in a.items():
        if i < k or j < l: raise Unsupported("division leaves a negative power")
        r[(i - k, j - l)] = v / w
    return r

# ---- values: ('s', poly) scalar | ('v', {sym: poly}) element of a vector | None unknown
def S(p): return ('s', p)
def V(d): return ('v', {k: v for k, v in d.items() if v})
def vadd(a, b, s=1):
    if a is None or b is None: return None
    if a[0] == 's' and b[0] == 's': return S(padd(a[1], b[1], s))
    if a[0] == 'v' and b[0] == 'v':
        r = dict(a[1])
        for k, v in b[1].items():
            r[k] = padd(r.get(k, {}), v, s)
        return V(r)
    raise Unsupported("scalar +/- vector element")
def vmul(a, b):
    if a is None or b is None: return None
    if a[0] == 's' and b[0] == 's': return S(pmul(a[1], b[1]))
    if a[0] == 'v' and b[0] == 'v': raise Unsupported("product of two vector elements")
    if a[0] == 'v': a, b = b, a
    return V({k: pmul(a[1], v) for k, v in b[1].items()})
def vdiv(a, b):
    if a is None or b is None: return None
    if b[0] != 's': raise Unsupported("division by a vector element")
    if a[0] == 's': return S(pdiv(a[1], b[1]))
    return V({k: pdiv(v, b[1]) for k, v in a[1].items()})
def vneg(a):
    if a is None: return None
    return vmul(S(P(-1)), a)

class Exec:
    def __init__(self, consts):
        self.consts = consts
        self.scal = {}          # name -> value (scalar or element-valued let)
        self.buf = {}           # name -> {row: value}  (row None = the whole buffer is one row)
        self.stages = []        # [(c poly, row dict sym->poly)]
        self.ynew = None
        self.cont = None
        self.bad = []           # structural violations: a stage evaluated at a time that is not (start of this step) + c*h
        self.carried = set()    # scalars assigned inside the main loop: at a use they hold a value from an earlier step
        self.in_loop = False
    # -- expression parser over tokens[i:j]
    def expr(self, toks):
        self.t = toks; self.p = 0
        v = self._sum()
        if self.p != len(self.t): raise Unsupported("trailing tokens in expression: " + " ".join(x.text for x in self.t[self.p:]))
        return v
    def _peek(self): return self.t[self.p].text if self.p < len(self.t) else None
    def _take(self): self.p += 1; return self.t[self.p - 1]
    def _sum(self):
        v = self._term()
        while self._peek() in ("+", "-"):
            op = self._take().text
            w = self._term()
            v = vadd(v, w, 1 if op == "+" else -1)
        return v
    def _term(self):
        v = self._unary()
        while self._peek() in ("*", "/"):
            op = self._take().text
            w = self._unary()
            v = vmul(v, w) if op == "*" else vdiv(v, w)
        return v
    def _unary(self):
        if self._peek() == "-":
            self._take(); return vneg(self._unary())
        return self._post()
    def _post(self):
        t = self._take()
        if t.text == "(":
            v = self._sum()
            if self._take().text != ")": raise Unsupported("unbalanced parenthesis")
        elif t.kind == "num":
            v = S(P(gen.lit_value(t.text)))
        elif t.kind == "id":
            name = t.text
            if self._peek() == "[":
                self._take(); idx = []
                d = 1
                while d:
                    u = self._take()
                    if u.text == "[": d += 1
                    elif u.text == "]":
                        d -= 1
                        if d == 0: break
                    idx.append(u.text)
                v = self.read(name, row_of(idx))
            elif name in self.scal: v = self.scal[name]
            elif name in self.consts: v = S(P(self.consts[name]))
            else: v = None
        else:
            raise Unsupported("token %r in expression" % t.text)
        # method calls are not modelled (abs, powf, ...): the value becomes unknown
        while self._peek() == ".":
            self._take(); self._take()
            if self._peek() == "(":
                c = match_close(self.t, self.p); self.p = c + 1
            v = None
        return v
    def read(self, name, row):
        b = self.buf.get(name)
        if b is None: return None
        if row in b: return b[row]
        if None in b and row == 0: return b[None]
        return None
    def write(self, name, row, val):
        self.buf.setdefault(name, {})
        if row is None: self.buf[name] = {None: val}
        else:
            if None in self.buf[name]:
                self.buf[name] = {0: self.buf[name][None]}
            self.buf[name][row] = val

def row_of(idx):
    """index text -> row number for  i | n + i | K * n + i ; anything else -> 'other'"""
    s = " ".join(idx)
    if s == "i": return 0
    if s == "n + i": return 1
    parts = s.split()
    if len(parts) == 5 and parts[1] == "*" and parts[2] == "n" and parts[3] == "+" and parts[4] == "i" and parts[0].isdigit(): return int(parts[0])
    return "other:" + s
def range_row(toks):
    """`a .. b` of a slice range over rows of length n -> row number"""
    s = " ".join(t.text for t in toks)
    if s in ("0 .. n", ".. n"): return 0
    if s == "n .. 2 * n": return 1
    p = s.split()
    if len(p) == 7 and p[1] == "*" and p[2] == "n" and p[3] == ".." and p[5] == "*" and p[6] == "n" and int(p[4]) == int(p[0]) + 1: return int(p[0])
    raise Unsupported("slice range " + s)

def statements(toks, lo, hi):
    """flatten the body: yields token lists of simple statements (up to `;`), descending into every block"""
    i = lo
    cur = []
    while i < hi:
        t = toks[i]
        if t.text == "{" or t.text == "}":
            if cur: yield cur
            cur = []; i += 1; continue
        if t.text == ";":
            if cur: yield cur
            cur = []; i += 1; continue
        if t.text in ("(", "["):
            c = match_close(toks, i)
            cur += toks[i:c + 1]; i = c + 1; continue
        cur.append(t); i += 1
    if cur: yield cur

def find(st, text):
    for k, t in enumerate(st):
        if t.text == text: return k
    return -1

def run_solve(ex, toks, lo, hi, fname="f"):
    ex.scal["h"] = S(H)
    ex.scal["x"] = S(P(0))
    ex.buf["y"] = {None: V({"Y": P(1)})}
    sts = list(statements(toks, lo, hi))
    for n_st, st in enumerate(sts):
        txt = [t.text for t in st]
        if not ex.in_loop and txt[-1] == "loop" and len(txt) <= 3:
            ex.in_loop = True
            for later in sts[n_st + 1:]:
                lt = [t.text for t in later]
                if len(lt) > 2 and later[0].kind == "id" and lt[1] in ("=", "+=", "-=", "*=", "/=") and lt[0] not in ("x", "h"):
                    ex.carried.add(lt[0])
            for name in ex.carried:
                if name in ex.scal: ex.scal[name] = None
            continue
        try:
            # the interpolant is built: snapshot of cont
            if "StepInterpolant" in txt and "new" in txt and ex.cont is None and "cont" in ex.buf and len(ex.stages) > 1:
                ex.cont = dict(ex.buf["cont"])
            # f.ode(X, &BUF, &mut KBUF ...)
            if len(txt) > 4 and txt[0] == fname and txt[1] == "." and txt[2] == "ode":
                c = match_close(st, 3)
                args = core.split_commas(st[4:c])
                xv = ex.expr(args[0])
                if ex.in_loop:
                    used = [t.text for t in args[0] if t.kind == "id" and t.text in ex.carried]
                    if used:
                        ex.bad.append("the stage written to `%s` is evaluated at `%s`, which depends on `%s`: a value assigned later in the loop body, i.e. carried over from the previous step, so the abscissa is not (start of this step) + c*h" % (args[2][-1].text, " ".join(t.text for t in args[0]), used[0]))
                src = args[1][1].text if args[1][0].text == "&" else None
                dst = args[2][2].text if [t.text for t in args[2][:2]] == ["&", "mut"] else None
                row = ex.read(src, 0) if src else None
                if len(args[1]) > 2:      # &buf[..n] and the like: row 0 of buf
                    row = ex.read(src, 0)
                if xv is None or row is None or dst is None or row[0] != 'v':
                    if dst: ex.buf[dst] = {None: None}
                    continue
                key = (tuple(sorted(xv[1].items())), tuple(sorted((k, tuple(sorted(v.items()))) for k, v in row[1].items())))
                for k, (kk, _, _) in enumerate(ex.stages):
                    if kk == key:
                        ex.buf[dst] = {None: V({"K%d" % (k + 1): P(1)})}; break
                else:
                    ex.stages.append((key, xv[1], row[1]))
                    ex.buf[dst] = {None: V({"K%d" % len(ex.stages): P(1)})}
                continue
            # let NAME [: T] = EXPR
            if txt[0] == "let":
                k = 1
                if txt[k] == "mut": k += 1
                name = txt[k]
                e = find(st, "=")
                if e < 0 or st[k].kind != "id": continue
                if name == "h": continue          # the step size is the symbol h wherever it is (re)bound
                if "if" in txt[e:] or "match" in txt[e:] or "|" in txt[e:]:
                    ex.scal[name] = None
                else:
                    try: ex.scal[name] = ex.expr(st[e + 1:])
                    except Unsupported: ex.scal[name] = None
                if name == "x" and ex.scal[name] is None: ex.scal[name] = S(P(0))
                continue
            # BUF[a..b].copy_from_slice(&SRC...) | BUF.copy_from_slice(&SRC)
            if "copy_from_slice" in txt:
                k = txt.index("copy_from_slice")
                dst = txt[0]
                drow = None
                if txt[1] == "[":
                    c = match_close(st, 1); drow = range_row(st[2:c])
                c = match_close(st, k + 1)
                arg = st[k + 2:c]
                at = [t.text for t in arg]
                if at[0] != "&": raise Unsupported("copy_from_slice argument")
                src = at[1]; srow = 0
                if len(at) > 2 and at[2] == "[":
                    c2 = match_close(arg, 2); srow = range_row(arg[3:c2])
                val = ex.read(src, srow)
                if drow is None and src in ex.buf and None not in ex.buf[src] and len(at) == 2:
                    ex.buf[dst] = dict(ex.buf[src])
                else:
                    ex.write(dst, drow, val)
                if dst == "y" and ex.ynew is None and val is not None and val[0] == 'v' and set(val[1]) - {"Y"}:
                    ex.ynew = val[1]
                continue
            # BUF[IDX] (=|+=|-=|*=) EXPR   and   NAME (=|+=|*=) EXPR
            if st[0].kind == "id" and len(txt) > 2:
                name = txt[0]
                if txt[1] == "[":
                    c = match_close(st, 1)
                    row = row_of(txt[2:c])
                    op = txt[c + 1]
                    if op in ("=", "+=", "-=", "*="):
                        rhs = ex.expr(st[c + 2:])
                        if op != "=":
                            old = ex.read(name, row)
                            rhs = vadd(old, rhs, 1) if op == "+=" else vadd(old, rhs, -1) if op == "-=" else vmul(old, rhs)
                        if isinstance(row, str):
                            ex.buf[name] = {None: None}
                        else:
                            ex.write(name, row, rhs)
                            if name == "y" and ex.ynew is None and rhs is not None and rhs[0] == 'v' and set(rhs[1]) - {"Y"}:
                                ex.ynew = rhs[1]
                        continue
                elif txt[1] in ("=", "+=", "-=", "*=", "/="):
                    if txt[1] == "=": ex.carried.discard(name)      # from here on the name holds a value of this iteration
                    if name == "h": continue
                    try:
                        rhs = ex.expr(st[2:]) if not ({"if", "match"} & set(txt)) else None
                    except Unsupported:
                        rhs = None
                    old = ex.scal.get(name)
                    ex.scal[name] = rhs if txt[1] == "=" else vadd(old, rhs, 1) if txt[1] == "+=" else vadd(old, rhs, -1) if txt[1] == "-=" else vmul(old, rhs) if txt[1] == "*=" else vdiv(old, rhs)
                    if name == "x" and ex.scal[name] is None: ex.scal[name] = S(P(0))     # a step later: only c matters, and it is relative to the step start of the *next* step
                    continue
        except Unsupported:
            pass
        # anything else: a `&mut BUF` hands the buffer to code that is not modelled
        for k in range(len(txt) - 2):
            if txt[k] == "&" and txt[k + 1] == "mut" and txt[k + 2] in ex.buf and txt[k + 2] != "y":
                ex.buf[txt[k + 2]] = {None: None}

def run_interpolate(ex, toks, lo, hi, rows):
    ex.scal = {"h": S(H), "xold": S(P(0)), "xi": S(pmul(TH, H))}
    ex.buf = {"cont": dict(rows)}
    out = None
    for st in statements(toks, lo, hi):
        txt = [t.text for t in st]
        if txt[0] == "let":
            k = 1
            if txt[k] == "mut": k += 1
            name = txt[k]; e = find(st, "=")
            if e < 0: continue
            rhs = st[e + 1:]
            rt = [t.text for t in rhs]
            # let c1 = &cont[n..2*n];  -> alias of a row
            if rt[:3] == ["&", "cont", "["] and ".." in rt:
                c = match_close(rhs, 2)
                ex.buf[name] = {None: rows.get(range_row(rhs[3:c]))}
                continue
            try: ex.scal[name] = ex.expr(rhs)
            except Unsupported: ex.scal[name] = None
            continue
        if txt[0] == "yi" and txt[1] == "[":
            c = match_close(st, 1)
            out = ex.expr(st[c + 2:])
    return out

def analyse(repo, path, impl):
    toks = core.read_tokens(repo, path)
    consts = {}
    for (name, ty, e, ln) in core.const_items(toks):
        if ty in ("Float", "f64"): consts[name] = gen.eval_const(e)
    s, kw, e = core.find_item(toks, 0, len(toks), "impl " + impl)
    b0, b1 = core.body_range(toks, kw, e)
    res = {}
    fns = {}
    for (fs, fkw, fe) in core.split_items(toks, b0 + 1, b1):
        if toks[fkw].text == "fn": fns[toks[fkw + 1].text] = (fkw, fe)
    ex = Exec(consts)
    lo, hi = core.body_range(toks, fns["solve"][0], fns["solve"][1])
    run_solve(ex, toks, lo + 1, hi)
    if ex.bad: return {"stages": ex.stages, "ynew": ex.ynew or {}, "cont": ex.cont or {}, "u": {}, "consts": consts, "bad": ex.bad}
    if ex.ynew is None: raise Unsupported("the new state was not found (no `y.copy_from_slice(&..)` with a stage combination)")
    if ex.cont is None: raise Unsupported("no interpolant construction found")
    ex2 = Exec(consts)
    lo, hi = core.body_range(toks, fns["interpolate"][0], fns["interpolate"][1])
    u = run_interpolate(ex2, toks, lo + 1, hi, ex.cont)
    if u is None or u[0] != 'v': raise Unsupported("interpolate: the assigned expression is not a combination of cont rows")
    return {"stages": ex.stages, "ynew": ex.ynew, "cont": ex.cont, "u": u[1], "consts": consts, "bad": ex.bad}

if __name__ == "__main__":
    m = sys.argv[1]
    files = {"rk4": ("src/methods/rk4.rs", "RK4"), "rk23": ("src/methods/rk23.rs", "RK23"), "dopri5": ("src/methods/dopri5.rs", "DOPRI5"), "dop853": ("src/methods/dop853.rs", "DOP853")}
    r = analyse("/repo", *files[m])
    print("stages:", len(r["stages"]))
    for k, (_, c, row) in enumerate(r["stages"]):
        print("  K%d c=%s row=%s" % (k + 1, {kk: float(v) for kk, v in c.items()}, {s: {kk: round(float(v), 6) for kk, v in p.items()} for s, p in row.items()}))
    print("ynew:", {s: {kk: round(float(v), 6) for kk, v in p.items()} for s, p in r["ynew"].items()})
    print("cont rows:", sorted(k for k in r["cont"] if k is not None))
    print("u syms:", sorted(r["u"]))
