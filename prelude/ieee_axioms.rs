// ---- IEEE-754 facts used by World-A units.  Each axiom is proved bit-precisely, for all f64 bit patterns,
// by a loop-free Kani/CBMC harness of the same name in kani/fltlemmas (complete proofs, no bound).
pub mod ieee { use vstd::prelude::*; use vstd::std_specs::ops::*; use vstd::std_specs::cmp::*; use core::cmp::Ordering; use super::fdefs::*;
/// finite x: |x - x| <= 1e-12   (x - x is exactly 0.0)                          kani: finite_self_diff
pub broadcast axiom fn finite_self_diff(x: f64) ensures finite(x) ==> f_le(s_abs(#[trigger] x.sub_spec(x)), 1e-12f64);
/// finite x: x == x   (IEEE equality is reflexive except for NaN)                          kani: finite_eq_refl
pub broadcast axiom fn finite_eq_refl(x: f64) ensures finite(x) ==> #[trigger] x.eq_spec(&x);
/// 1.0 == 1.0 and 0.0 == 0.0 (IEEE comparison of the two literals with themselves)        kani: eq_refl_literals
#[verifier::allow(broadcast_without_trigger)]
pub broadcast axiom fn eq_refl_literals() ensures (1.0f64).eq_spec(&1.0f64), (0.0f64).eq_spec(&0.0f64), !(1.0f64).eq_spec(&0.0f64), !(0.0f64).eq_spec(&1.0f64);
/// x > x never holds                                                                   kani: gt_irrefl
pub broadcast axiom fn gt_irrefl(x: f64) ensures !#[trigger] f_gt(x, x);
/// !(x > m) and i > m  imply  !(x > i)   (the running maximum of a pivot search stays maximal)   kani: ngt_trans
pub broadcast axiom fn ngt_trans(x: f64, m: f64, i: f64) requires !f_gt(x, m), f_gt(i, m) ensures !#[trigger] f_gt(x, i), #[trigger] f_gt(i, m);
/// NaN propagates through + * / and sqrt                                                kani: nan_add nan_mul nan_div nan_sqrt
pub broadcast axiom fn nan_add(a: f64, b: f64) ensures s_is_nan(a) || s_is_nan(b) ==> s_is_nan(#[trigger] a.add_spec(b));
pub broadcast axiom fn nan_mul(a: f64, b: f64) ensures s_is_nan(a) || s_is_nan(b) ==> s_is_nan(#[trigger] a.mul_spec(b));
pub broadcast axiom fn nan_div(a: f64, b: f64) ensures s_is_nan(a) || s_is_nan(b) ==> s_is_nan(#[trigger] a.div_spec(b));
pub broadcast axiom fn nan_sqrt(a: f64) ensures s_is_nan(a) ==> s_is_nan(#[trigger] s_sqrt(a));
/// a NaN is not <= anything; +infinity is not <= 1.0                                     kani: nan_not_le inf_not_le_one
pub broadcast axiom fn nan_not_le(a: f64, b: f64) ensures s_is_nan(a) ==> !#[trigger] f_le(a, b);
#[verifier::allow(broadcast_without_trigger)]
pub broadcast axiom fn inf_not_le_one() ensures !f_le(INFINITY_s(), 1.0f64);
/// a value clamped to [1.0, 5 as f64] and cast to usize is at most 5 (NaN casts to 0)          kani: clamp_cast_le5
pub broadcast axiom fn clamp_cast_le5(x: f64) ensures #[trigger] s_to_usize(s_clamp(x, 1.0f64, s_of_usize(5))) <= 5;
/// |x| >= 0 unless x is NaN; a >= 0 implies -a <= a and 0 <= a                         kani: abs_ge_zero neg_le_self
pub broadcast axiom fn abs_ge_zero(x: f64) ensures !s_is_nan(x) ==> f_ge(#[trigger] s_abs(x), 0.0f64);
pub broadcast axiom fn neg_le_self(a: f64) ensures f_ge(a, 0.0f64) ==> f_le(#[trigger] s_neg(a), a) && f_le(0.0f64, a);
/// the integer 5 as f64 is not below 1.0                                                    kani: one_le_five
#[verifier::allow(broadcast_without_trigger)]
pub broadcast axiom fn one_le_five() ensures f_le(1.0f64, s_of_usize(5));
pub broadcast group ieee_axioms { finite_self_diff, finite_eq_refl, eq_refl_literals, gt_irrefl, ngt_trans, nan_add, nan_mul, nan_div, nan_sqrt, nan_not_le, inf_not_le_one, clamp_cast_le5, abs_ge_zero, neg_le_self, one_le_five }
}
