broadcast use {fp::f64_ops, ieee::ieee_axioms, stdx::std_axioms};
