// ---- trusted std specifications (std semantics, not proved; listed in every evidence file) ----------
pub assume_specification<T: Clone> [<[T]>::to_vec] (s: &[T]) -> (r: Vec<T>) ensures r@ == s@;
#[verifier::allow(undeclared_external_trait)]
pub assume_specification<T, U, F: FnOnce(T) -> U> [Option::<T>::map_or] (o: Option<T>, d: U, f: F) -> (r: U)
    where U: core::marker::Destruct, F: core::marker::Destruct
    requires o is Some ==> f.requires((o->Some_0,))
    ensures o is None ==> r == d, o is Some ==> f.ensures((o->Some_0,), r);
#[verifier::external_body]
pub fn vslice_copy<T: Copy>(v: &mut Vec<T>, a: usize, b: usize, src: &[T])
    requires a <= b <= old(v)@.len(), src@.len() == b - a
    ensures final(v)@ == old(v)@.subrange(0, a as int) + src@ + old(v)@.subrange(b as int, old(v)@.len() as int)
{ v[a..b].copy_from_slice(src) }
