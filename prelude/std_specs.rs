// ---- trusted std specifications (std semantics, not proved; listed in every evidence file) ----------
pub assume_specification<T: Clone> [<[T]>::to_vec] (s: &[T]) -> (r: Vec<T>) ensures r@ == s@;
#[verifier::allow(undeclared_external_trait)]
pub assume_specification<T, U, F: FnOnce(T) -> U> [Option::<T>::map_or] (o: Option<T>, d: U, f: F) -> (r: U)
    where U: core::marker::Destruct, F: core::marker::Destruct
    requires o is Some ==> f.requires((o->Some_0,))
    ensures o is None ==> r == d, o is Some ==> f.ensures((o->Some_0,), r);
#[verifier::external_body]
pub fn vslice_copy<T: Copy>(v: &mut Vec<T>, a: usize, b: usize, src: &[T])
    requires a <= b <= old(v)@.len(), src@.len() == b - a
    ensures final(v)@ == old(v)@.subrange(0, a as int) + src@ + old(v)@.subrange(b as int, old(v)@.len() as int)
{ v[a..b].copy_from_slice(src) }
// R13: `v.sort_by(|a, b| a.0.partial_cmp(&b.0).unwrap())` (and the b/a form).  std semantics: the result
// is a permutation of the input (stated with an explicit pair of inverse index maps) ordered by the
// first component.  The `unwrap` panics on a NaN key: "event times are not NaN" is the stated assumption
// replacing that panic.
pub open spec fn is_perm_of<T>(a: Seq<T>, b: Seq<T>, p: Seq<int>, q: Seq<int>) -> bool {
    &&& a.len() == b.len() && p.len() == a.len() && q.len() == a.len()
    &&& forall|k: int| 0 <= k < a.len() ==> 0 <= #[trigger] p[k] < a.len() && q[p[k]] == k && a[k] == b[p[k]]
    &&& forall|j: int| 0 <= j < a.len() ==> 0 <= #[trigger] q[j] < a.len() && p[q[j]] == j
}
#[verifier::external_body]
pub fn sort_key0_asc(v: &mut Vec<(Float, usize, Vec<Float>)>)
    ensures exists|p: Seq<int>, q: Seq<int>| is_perm_of(final(v)@, old(v)@, p, q),
        forall|a: int, b: int| 0 <= a < b < final(v)@.len() ==> (#[trigger] final(v)@[b]).0.partial_cmp_spec(&(#[trigger] final(v)@[a]).0) != Some(Ordering::Less),
{ v.sort_by(|a, b| a.0.partial_cmp(&b.0).unwrap()) }
#[verifier::external_body]
pub fn sort_key0_desc(v: &mut Vec<(Float, usize, Vec<Float>)>)
    ensures exists|p: Seq<int>, q: Seq<int>| is_perm_of(final(v)@, old(v)@, p, q),
        forall|a: int, b: int| 0 <= a < b < final(v)@.len() ==> (#[trigger] final(v)@[b]).0.partial_cmp_spec(&(#[trigger] final(v)@[a]).0) != Some(Ordering::Greater),
{ v.sort_by(|a, b| b.0.partial_cmp(&a.0).unwrap()) }
/// R15: an arbitrary value standing for an iterator-adapter statement that is not modelled
#[verifier::external_body] pub fn vx_unmodelled<T>() -> T { unimplemented!() }
pub mod stdx { use vstd::prelude::*;
/// a Vec never holds more than usize::MAX elements (std guarantees <= isize::MAX bytes)
pub broadcast axiom fn vec_len_bound<T>(v: Vec<T>) ensures #[trigger] v@.len() <= usize::MAX;
pub broadcast group std_axioms { vec_len_bound }
}
pub assume_specification<T: Clone> [<[T]>::clone_from_slice] (dst: &mut [T], src: &[T])
    requires old(dst)@.len() == src@.len()
    ensures final(dst)@.len() == src@.len(), forall|i: int| 0 <= i < src@.len() ==> cloned(src@[i], #[trigger] final(dst)@[i]);
pub assume_specification<T: Clone> [<[T]>::fill] (s: &mut [T], v: T)
    ensures final(s)@.len() == old(s)@.len(), forall|i: int| 0 <= i < old(s)@.len() ==> #[trigger] final(s)@[i] == v;
pub assume_specification<T> [<[T]>::swap] (s: &mut [T], a: usize, b: usize)
    requires a < old(s)@.len(), b < old(s)@.len()
    ensures final(s)@ == old(s)@.update(a as int, old(s)@[b as int]).update(b as int, old(s)@[a as int]);
pub assume_specification [isize::unsigned_abs] (x: isize) -> (r: usize) ensures r == (if x >= 0 { x as int } else { -(x as int) });
