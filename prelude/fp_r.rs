// ---- World R ("real model") prelude --------------------------------------------------------------
// R: f64 -> real is an uninterpreted homomorphism: machine arithmetic is treated as exact real
// arithmetic and every value is finite.  This is an ASSUMPTION (recorded in every evidence file that
// uses this world), not a fact about IEEE-754: it is the setting in which the algebraic statements
// about the algorithms (interval discipline, step-size bounds, Runge-Kutta structure) are decided.
pub type Float = f64;
global size_of usize == 8;
pub mod fdefs { use vstd::prelude::*; use vstd::std_specs::cmp::*; use core::cmp::Ordering;
pub uninterp spec fn R(x: f64) -> real;
pub open spec fn rabs(a: real) -> real { if a >= 0real { a } else { 0real - a } }
pub open spec fn rmin(a: real, b: real) -> real { if a <= b { a } else { b } }
pub open spec fn rmax(a: real, b: real) -> real { if a >= b { a } else { b } }
pub uninterp spec fn s_signum(x: f64) -> f64;
pub uninterp spec fn s_abs(x: f64) -> f64;
pub uninterp spec fn s_powf(x: f64, y: f64) -> f64;
pub uninterp spec fn s_powi(x: f64, n: i32) -> f64;
pub uninterp spec fn s_sqrt(x: f64) -> f64;
pub uninterp spec fn s_min(x: f64, y: f64) -> f64;
pub uninterp spec fn s_clamp(x: f64, a: f64, b: f64) -> f64;
pub uninterp spec fn INFINITY_s() -> f64;
pub uninterp spec fn MIN_POSITIVE_s() -> f64;
pub uninterp spec fn s_to_usize(x: f64) -> usize;
pub uninterp spec fn s_round(x: f64) -> f64;
pub uninterp spec fn s_max(x: f64, y: f64) -> f64;
pub uninterp spec fn s_neg(x: f64) -> f64;
pub uninterp spec fn s_of_usize(x: usize) -> f64;
pub uninterp spec fn s_is_nan(x: f64) -> bool;
pub uninterp spec fn EPSILON_s() -> f64;
pub uninterp spec fn vac(k: int) -> bool;
pub open spec fn f_le(a: f64, b: f64) -> bool { a.partial_cmp_spec(&b) == Some(Ordering::Less) || a.partial_cmp_spec(&b) == Some(Ordering::Equal) }
pub open spec fn f_lt(a: f64, b: f64) -> bool { a.partial_cmp_spec(&b) == Some(Ordering::Less) }
pub open spec fn f_ge(a: f64, b: f64) -> bool { a.partial_cmp_spec(&b) == Some(Ordering::Greater) || a.partial_cmp_spec(&b) == Some(Ordering::Equal) }
pub open spec fn f_gt(a: f64, b: f64) -> bool { a.partial_cmp_spec(&b) == Some(Ordering::Greater) }
/// World R: every value is finite
pub open spec fn finite(x: f64) -> bool { true }   // vacuity probes: `if vac(k) { assert(false) }` must FAIL in every run
}
pub use fdefs::*;
pub mod fp { use vstd::prelude::*; use vstd::std_specs::ops::*; use vstd::std_specs::cmp::*; use core::cmp::Ordering; use super::fdefs::*;
pub broadcast axiom fn f64_add_req(a: f64, b: f64) ensures #[trigger] a.add_req(b);
pub broadcast axiom fn f64_sub_req(a: f64, b: f64) ensures #[trigger] a.sub_req(b);
pub broadcast axiom fn f64_mul_req(a: f64, b: f64) ensures #[trigger] a.mul_req(b);
pub broadcast axiom fn f64_div_req(a: f64, b: f64) ensures #[trigger] a.div_req(b);
#[verifier::allow(broadcast_without_trigger)]
pub broadcast axiom fn f64_deterministic() ensures
    <f64 as AddSpec<f64>>::obeys_add_spec(), <f64 as SubSpec<f64>>::obeys_sub_spec(),
    <f64 as MulSpec<f64>>::obeys_mul_spec(), <f64 as DivSpec<f64>>::obeys_div_spec(),
    <f64 as PartialOrdSpec<f64>>::obeys_partial_cmp_spec(), <f64 as PartialEqSpec<f64>>::obeys_eq_spec();
// R is a homomorphism (exact arithmetic).  Z3 runs without nonlinear arithmetic: a product is only
// usable when one factor is a numeral, hence the per-literal / per-constant linear axioms generated
// by vx (#gen lits_r / consts_r) next to these.
pub broadcast axiom fn r_add(a: f64, b: f64) ensures R(#[trigger] a.add_spec(b)) == R(a) + R(b);
pub broadcast axiom fn r_sub(a: f64, b: f64) ensures R(#[trigger] a.sub_spec(b)) == R(a) - R(b);
pub broadcast axiom fn r_mul(a: f64, b: f64) ensures R(#[trigger] a.mul_spec(b)) == R(a) * R(b);
pub broadcast axiom fn r_mul_unit_r(a: f64, b: f64) ensures R(b) == 1real ==> R(#[trigger] a.mul_spec(b)) == R(a), R(b) == 0real - 1real ==> R(a.mul_spec(b)) == 0real - R(a);
pub broadcast axiom fn r_mul_unit_l(a: f64, b: f64) ensures R(a) == 1real ==> R(#[trigger] a.mul_spec(b)) == R(b), R(a) == 0real - 1real ==> R(a.mul_spec(b)) == 0real - R(b);
pub broadcast axiom fn r_mul_sign(a: f64, b: f64) ensures R(a) >= 0real && R(b) >= 0real ==> R(#[trigger] a.mul_spec(b)) >= 0real,
    R(a) > 0real && R(b) > 0real ==> R(a.mul_spec(b)) > 0real;
pub broadcast axiom fn r_mul_le(a: f64, b: f64) ensures 0real <= R(b) <= 1real ==> rabs(R(#[trigger] a.mul_spec(b))) <= rabs(R(a)),
    0real <= R(a) <= 1real ==> rabs(R(a.mul_spec(b))) <= rabs(R(b));
pub broadcast axiom fn r_mul_sign2(a: f64, b: f64) ensures R(a) <= 0real && R(b) >= 0real ==> R(#[trigger] a.mul_spec(b)) <= 0real,
    R(a) >= 0real && R(b) <= 0real ==> R(a.mul_spec(b)) <= 0real, R(a) < 0real && R(b) > 0real ==> R(a.mul_spec(b)) < 0real, R(a) > 0real && R(b) < 0real ==> R(a.mul_spec(b)) < 0real;
pub broadcast axiom fn r_div_pos(a: f64, b: f64) ensures
    R(b) > 0real ==> (R(#[trigger] a.div_spec(b)) > 0real <==> R(a) > 0real) && (R(a.div_spec(b)) < 0real <==> R(a) < 0real),
    R(b) >= 1real ==> rabs(R(a.div_spec(b))) <= rabs(R(a)),
    R(b) >= 101real / 100real ==> (101real / 100real) * rabs(R(a.div_spec(b))) <= rabs(R(a));
pub broadcast axiom fn r_div_special(a: f64, b: f64) ensures R(b) != 0real && R(a) == 0real ==> R(#[trigger] a.div_spec(b)) == 0real,
    R(b) != 0real && R(a) == R(b) ==> R(a.div_spec(b)) == 1real,
    R(b) != 0real && R(a) == 0real - R(b) ==> R(a.div_spec(b)) == 0real - 1real;
/// exact square root, square and usize -> f64 conversion below 2^53 (not in the default group: used by the error-norm clauses of C13)
pub broadcast axiom fn r_sqrt_exact(a: f64) ensures R(a) >= 0real ==> R(#[trigger] s_sqrt(a)) >= 0real && R(s_sqrt(a)) * R(s_sqrt(a)) == R(a);
pub broadcast axiom fn r_powi2(a: f64) ensures R(#[trigger] s_powi(a, 2)) == R(a) * R(a);
pub broadcast axiom fn r_of_usize_53(x: usize) ensures x < 0x20_0000_0000_0000 ==> R(#[trigger] s_of_usize(x)) == x as int as real;
pub broadcast group rms_axioms { r_sqrt_exact, r_powi2, r_of_usize_53, r_div_exact }
/// exact division (not in the default group: units that need the quotient itself `broadcast use` it)
pub broadcast axiom fn r_div_exact(a: f64, b: f64) ensures R(b) != 0real ==> R(#[trigger] a.div_spec(b)) == R(a) / R(b);
pub broadcast axiom fn r_mul_nonzero(a: f64, b: f64) ensures R(a) != 0real && R(b) != 0real ==> R(#[trigger] a.mul_spec(b)) != 0real;
pub broadcast axiom fn r_mul_zero(a: f64, b: f64) ensures R(a) == 0real || R(b) == 0real ==> R(#[trigger] a.mul_spec(b)) == 0real;
pub broadcast axiom fn r_div_one(a: f64, b: f64) ensures R(a) == 1real && 0real < R(b) <= 1real ==> R(#[trigger] a.div_spec(b)) >= 1real,
    R(a) >= 1real && 0real < R(b) <= 99real / 100real ==> R(a.div_spec(b)) >= 101real / 100real;
pub broadcast axiom fn r_div_unit(a: f64, b: f64) ensures R(b) == 1real ==> R(#[trigger] a.div_spec(b)) == R(a),
    R(a) >= 1real && 0real < R(b) <= 1real ==> R(a.div_spec(b)) >= 1real,
    R(a.div_spec(b)) > 1real && R(b) > 0real ==> R(a) > R(b), R(a.div_spec(b)) > 1real && R(b) < 0real ==> R(a) < R(b),
    R(b) < 0real ==> (R(a.div_spec(b)) > 0real <==> R(a) < 0real) && (R(a.div_spec(b)) < 0real <==> R(a) > 0real);
/// small integers convert exactly (machine arithmetic treated as mathematical)
pub broadcast axiom fn r_of_usize_exact(x: usize) ensures x <= 1024 ==> R(#[trigger] s_of_usize(x)) == x as int as real;
pub broadcast axiom fn r_of_usize(x: usize) ensures R(#[trigger] s_of_usize(x)) >= 0real, x >= 1 ==> R(s_of_usize(x)) >= 1real;
#[verifier::allow(broadcast_without_trigger)]
pub broadcast axiom fn r_of_usize_5() ensures R(s_of_usize(5)) == 5real;
pub broadcast axiom fn r_powf_le1(a: f64, p: f64) ensures R(a) >= 1real && R(p) <= 0real ==> 0real < R(#[trigger] s_powf(a, p)) <= 1real,
    R(a) > 1real && R(p) > 0real ==> R(s_powf(a, p)) > 1real;
pub broadcast axiom fn r_mul_shrink(a: f64, b: f64) ensures 0real <= R(b) <= 4real / 5real ==> 5real * rabs(R(#[trigger] a.mul_spec(b))) <= 4real * rabs(R(a));
#[verifier::allow(broadcast_without_trigger)]
pub broadcast axiom fn r_min_positive() ensures R(MIN_POSITIVE_s()) > 0real;
pub broadcast axiom fn r_clamp_cast(x: f64, a: f64, b: f64) ensures R(a) <= R(b) && R(b) <= 5real ==> #[trigger] s_to_usize(s_clamp(x, a, b)) <= 5, R(a) <= R(b) && R(a) >= 1real ==> s_to_usize(s_clamp(x, a, b)) >= 1;
pub broadcast axiom fn r_mul_div_cancel(a: f64, b: f64) ensures R(b) != 0real ==> R(b.mul_spec(#[trigger] a.div_spec(b))) == R(a) && R(a.div_spec(b).mul_spec(b)) == R(a);
pub broadcast axiom fn r_cmp(a: f64, b: f64) ensures #[trigger] a.partial_cmp_spec(&b) == (if R(a) < R(b) { Some(Ordering::Less) } else if R(a) == R(b) { Some(Ordering::Equal) } else { Some(Ordering::Greater) });
pub broadcast axiom fn r_eq(a: f64, b: f64) ensures #[trigger] a.eq_spec(&b) == (R(a) == R(b));
pub broadcast axiom fn r_signum(a: f64) ensures R(a) > 0real ==> R(#[trigger] s_signum(a)) == 1real, R(a) < 0real ==> R(s_signum(a)) == 0real - 1real, R(s_signum(a)) == 1real || R(s_signum(a)) == 0real - 1real;
pub broadcast axiom fn r_abs(a: f64) ensures R(#[trigger] s_abs(a)) == rabs(R(a));
pub broadcast axiom fn r_min(a: f64, b: f64) ensures R(#[trigger] s_min(a, b)) == rmin(R(a), R(b));
pub broadcast axiom fn r_max(a: f64, b: f64) ensures R(#[trigger] s_max(a, b)) == rmax(R(a), R(b));
pub broadcast axiom fn r_clamp(x: f64, a: f64, b: f64) ensures R(a) <= R(b) ==> R(#[trigger] s_clamp(x, a, b)) == rmax(R(a), rmin(R(x), R(b)));
pub broadcast axiom fn r_neg(a: f64) ensures R(#[trigger] s_neg(a)) == 0real - R(a);
pub broadcast axiom fn r_powf(a: f64, p: f64) ensures R(a) > 0real ==> R(#[trigger] s_powf(a, p)) > 0real, R(a) >= 1real && R(p) >= 0real ==> R(s_powf(a, p)) >= 1real;
pub broadcast axiom fn r_sqrt(a: f64) ensures R(#[trigger] s_sqrt(a)) >= 0real;
pub broadcast axiom fn r_nan(a: f64) ensures !(#[trigger] s_is_nan(a));
#[verifier::allow(broadcast_without_trigger)]
pub broadcast axiom fn r_epsilon() ensures R(EPSILON_s()) > 0real;
pub broadcast group f64_ops { f64_add_req, f64_sub_req, f64_mul_req, f64_div_req, f64_deterministic,
    r_add, r_sub, r_mul, r_mul_unit_r, r_mul_unit_l, r_mul_sign, r_mul_sign2, r_mul_le, r_div_pos, r_div_special, r_mul_nonzero, r_mul_zero, r_div_one, r_div_unit, r_of_usize, r_of_usize_exact, r_of_usize_5, r_powf_le1, r_mul_shrink, r_min_positive, r_clamp_cast, r_mul_div_cancel, r_cmp, r_eq, r_signum, r_abs, r_min, r_max, r_clamp, r_neg, r_powf, r_sqrt, r_nan, r_epsilon }
}
pub assume_specification [f64::signum] (x: f64) -> (r: f64) ensures r == s_signum(x);
pub assume_specification [f64::abs] (x: f64) -> (r: f64) ensures r == s_abs(x);
pub assume_specification [f64::powf] (x: f64, y: f64) -> (r: f64) ensures r == s_powf(x, y);
pub assume_specification [f64::powi] (x: f64, n: i32) -> (r: f64) ensures r == s_powi(x, n);
pub assume_specification [f64::sqrt] (x: f64) -> (r: f64) ensures r == s_sqrt(x);
pub assume_specification [f64::min] (x: f64, y: f64) -> (r: f64) ensures r == s_min(x, y);
pub assume_specification [f64::max] (x: f64, y: f64) -> (r: f64) ensures r == s_max(x, y);
pub assume_specification [f64::clamp] (x: f64, a: f64, b: f64) -> (r: f64) requires R(a) <= R(b) ensures r == s_clamp(x, a, b);
pub assume_specification [f64::is_nan] (x: f64) -> (r: bool) ensures r == s_is_nan(x);
#[verifier::external_body] pub fn vneg(x: f64) -> (r: f64) ensures r == s_neg(x) { -x }
#[verifier::external_body] pub fn to_f(x: usize) -> (r: f64) ensures r == s_of_usize(x) { x as f64 }
#[verifier::external_body] pub exec const F64_INFINITY: f64 ensures F64_INFINITY == INFINITY_s() { f64::INFINITY }
#[verifier::external_body] pub exec const F64_MIN_POSITIVE: f64 ensures F64_MIN_POSITIVE == MIN_POSITIVE_s() { f64::MIN_POSITIVE }
#[verifier::external_body] pub fn f_to_usize(x: f64) -> (r: usize) ensures r == s_to_usize(x) { x as usize }
pub assume_specification [f64::round] (x: f64) -> (r: f64) ensures r == s_round(x);
#[verifier::external_body] pub exec const F64_EPSILON: f64 ensures F64_EPSILON == EPSILON_s() { f64::EPSILON }
