#![feature(const_destruct)]
#![allow(unused)]
use vstd::prelude::*;
use vstd::std_specs::ops::*;
