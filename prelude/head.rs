#![feature(const_destruct)]
#![allow(unused)]
use vstd::prelude::*;
use vstd::std_specs::ops::*;
use vstd::std_specs::cmp::*;
use core::cmp::Ordering;
use vstd::std_specs::iter::IteratorSpec;
