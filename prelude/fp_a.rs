// ---- World A ("IEEE-opaque") prelude -------------------------------------------------------------
// f64 operations are uninterpreted functions of their operands.  No algebraic law is assumed here;
// the few IEEE facts a unit needs are separate axioms (prelude/ieee_axioms.rs), each one proved
// bit-precisely by a loop-free Kani harness in kani/fltlemmas.
pub mod fp { use vstd::prelude::*; use vstd::std_specs::ops::*; use vstd::std_specs::cmp::*;
// (i) an f64 operation has no precondition (it cannot panic)
pub broadcast axiom fn f64_add_req(a: f64, b: f64) ensures #[trigger] a.add_req(b);
pub broadcast axiom fn f64_sub_req(a: f64, b: f64) ensures #[trigger] a.sub_req(b);
pub broadcast axiom fn f64_mul_req(a: f64, b: f64) ensures #[trigger] a.mul_req(b);
pub broadcast axiom fn f64_div_req(a: f64, b: f64) ensures #[trigger] a.div_req(b);
// (ii) the result of an f64 operation or comparison is a function of its operands (`obeys_*_spec`):
// `a + b` or `a <= b` evaluated twice gives the same value.  NaN payloads are ignored.  Ground fact.
#[verifier::allow(broadcast_without_trigger)]
pub broadcast axiom fn f64_deterministic() ensures
    <f64 as AddSpec<f64>>::obeys_add_spec(), <f64 as SubSpec<f64>>::obeys_sub_spec(),
    <f64 as MulSpec<f64>>::obeys_mul_spec(), <f64 as DivSpec<f64>>::obeys_div_spec(),
    <f64 as PartialOrdSpec<f64>>::obeys_partial_cmp_spec(), <f64 as PartialEqSpec<f64>>::obeys_eq_spec();
pub broadcast group f64_ops { f64_add_req, f64_sub_req, f64_mul_req, f64_div_req, f64_deterministic }
}
pub type Float = f64;
global size_of usize == 8;
/// spec-level names of the f64 library operations (uninterpreted) and of the comparison results
pub mod fdefs { use vstd::prelude::*; use vstd::std_specs::cmp::*; use core::cmp::Ordering;
pub uninterp spec fn s_signum(x: f64) -> f64;
pub uninterp spec fn s_abs(x: f64) -> f64;
pub uninterp spec fn s_powf(x: f64, y: f64) -> f64;
pub uninterp spec fn s_powi(x: f64, n: i32) -> f64;
pub uninterp spec fn s_sqrt(x: f64) -> f64;
pub uninterp spec fn s_min(x: f64, y: f64) -> f64;
pub uninterp spec fn s_max(x: f64, y: f64) -> f64;
pub uninterp spec fn s_neg(x: f64) -> f64;
pub uninterp spec fn s_clamp(x: f64, a: f64, b: f64) -> f64;
pub uninterp spec fn s_of_usize(x: usize) -> f64;
pub uninterp spec fn s_to_usize(x: f64) -> usize;
pub uninterp spec fn s_round(x: f64) -> f64;
pub uninterp spec fn s_is_nan(x: f64) -> bool;
pub uninterp spec fn EPSILON_s() -> f64;
pub uninterp spec fn INFINITY_s() -> f64;
pub uninterp spec fn MIN_POSITIVE_s() -> f64;
pub uninterp spec fn vac(k: int) -> bool;   // vacuity probes: `if vac(k) { assert(false) }` must FAIL in every run
// exec comparisons on f64, in spec form (what `a <= b` etc. evaluate to, given f64_deterministic)
pub open spec fn f_le(a: f64, b: f64) -> bool { a.partial_cmp_spec(&b) == Some(Ordering::Less) || a.partial_cmp_spec(&b) == Some(Ordering::Equal) }
pub open spec fn f_lt(a: f64, b: f64) -> bool { a.partial_cmp_spec(&b) == Some(Ordering::Less) }
pub open spec fn f_ge(a: f64, b: f64) -> bool { a.partial_cmp_spec(&b) == Some(Ordering::Greater) || a.partial_cmp_spec(&b) == Some(Ordering::Equal) }
pub open spec fn f_gt(a: f64, b: f64) -> bool { a.partial_cmp_spec(&b) == Some(Ordering::Greater) }
/// x is a finite number (not NaN, not +-inf); the only facts about it are the axioms in prelude/ieee_axioms.rs
pub uninterp spec fn finite(x: f64) -> bool;
}
pub use fdefs::*;
pub assume_specification [f64::signum] (x: f64) -> (r: f64) ensures r == s_signum(x);
pub assume_specification [f64::abs] (x: f64) -> (r: f64) ensures r == s_abs(x);
pub assume_specification [f64::powf] (x: f64, y: f64) -> (r: f64) ensures r == s_powf(x, y);
pub assume_specification [f64::powi] (x: f64, n: i32) -> (r: f64) ensures r == s_powi(x, n);
pub assume_specification [f64::sqrt] (x: f64) -> (r: f64) ensures r == s_sqrt(x);
pub assume_specification [f64::min] (x: f64, y: f64) -> (r: f64) ensures r == s_min(x, y);
pub assume_specification [f64::max] (x: f64, y: f64) -> (r: f64) ensures r == s_max(x, y);
pub assume_specification [f64::is_nan] (x: f64) -> (r: bool) ensures r == s_is_nan(x);
#[verifier::external_body] pub fn vneg(x: f64) -> (r: f64) ensures r == s_neg(x) { -x }
#[verifier::external_body] pub fn to_f(x: usize) -> (r: f64) ensures r == s_of_usize(x) { x as f64 }
/// R12: `e as usize` on a float operand (saturating, NaN -> 0)
#[verifier::external_body] pub fn f_to_usize(x: f64) -> (r: usize) ensures r == s_to_usize(x) { x as usize }
pub assume_specification [f64::round] (x: f64) -> (r: f64) ensures r == fdefs::s_round(x);
#[verifier::external_body] pub exec const F64_INFINITY: f64 ensures F64_INFINITY == INFINITY_s() { f64::INFINITY }
#[verifier::external_body] pub exec const F64_EPSILON: f64 ensures F64_EPSILON == EPSILON_s() { f64::EPSILON }
#[verifier::external_body] pub exec const F64_MIN_POSITIVE: f64 ensures F64_MIN_POSITIVE == MIN_POSITIVE_s() { f64::MIN_POSITIVE }
pub assume_specification [f64::clamp] (x: f64, a: f64, b: f64) -> (r: f64)
    requires fdefs::f_le(a, b)   // f64::clamp panics when min > max or either bound is NaN
    ensures r == fdefs::s_clamp(x, a, b);
