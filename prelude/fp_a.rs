// ---- World A ("IEEE-opaque") prelude -------------------------------------------------------------
// f64 operations are uninterpreted functions of their operands.  No algebraic law is assumed here;
// the few IEEE facts a unit needs are separate axioms (prelude/ieee_axioms.rs), each one proved
// bit-precisely by a loop-free Kani harness in kani/fltlemmas.
pub mod fp { use vstd::prelude::*; use vstd::std_specs::ops::*;
// (i) an f64 operation has no precondition (it cannot panic); (ii) its result is a function of its
// operands (`obeys_*_spec`): `a + b` evaluated twice gives the same value.  NaN payloads are ignored.
pub broadcast axiom fn f64_add_req(a: f64, b: f64) ensures #[trigger] a.add_req(b), <f64 as AddSpec<f64>>::obeys_add_spec();
pub broadcast axiom fn f64_sub_req(a: f64, b: f64) ensures #[trigger] a.sub_req(b), <f64 as SubSpec<f64>>::obeys_sub_spec();
pub broadcast axiom fn f64_mul_req(a: f64, b: f64) ensures #[trigger] a.mul_req(b), <f64 as MulSpec<f64>>::obeys_mul_spec();
pub broadcast axiom fn f64_div_req(a: f64, b: f64) ensures #[trigger] a.div_req(b), <f64 as DivSpec<f64>>::obeys_div_spec();
pub broadcast group f64_ops { f64_add_req, f64_sub_req, f64_mul_req, f64_div_req }
}
broadcast use fp::f64_ops;
pub type Float = f64;
global size_of usize == 8;
pub uninterp spec fn s_signum(x: f64) -> f64;
pub uninterp spec fn s_abs(x: f64) -> f64;
pub uninterp spec fn s_powf(x: f64, y: f64) -> f64;
pub uninterp spec fn s_sqrt(x: f64) -> f64;
pub uninterp spec fn s_min(x: f64, y: f64) -> f64;
pub uninterp spec fn s_max(x: f64, y: f64) -> f64;
pub uninterp spec fn s_neg(x: f64) -> f64;
pub uninterp spec fn s_of_usize(x: usize) -> f64;
pub assume_specification [f64::signum] (x: f64) -> (r: f64) ensures r == s_signum(x);
pub assume_specification [f64::abs] (x: f64) -> (r: f64) ensures r == s_abs(x);
pub assume_specification [f64::powf] (x: f64, y: f64) -> (r: f64) ensures r == s_powf(x, y);
pub assume_specification [f64::sqrt] (x: f64) -> (r: f64) ensures r == s_sqrt(x);
pub assume_specification [f64::min] (x: f64, y: f64) -> (r: f64) ensures r == s_min(x, y);
pub assume_specification [f64::max] (x: f64, y: f64) -> (r: f64) ensures r == s_max(x, y);
#[verifier::external_body] pub fn vneg(x: f64) -> (r: f64) ensures r == s_neg(x) { -x }
#[verifier::external_body] pub fn to_f(x: usize) -> (r: f64) ensures r == s_of_usize(x) { x as f64 }
pub uninterp spec fn vac(k: int) -> bool;   // vacuity probes: `if vac(k) { assert(false) }` must FAIL in every run
pub uninterp spec fn s_powi(x: f64, n: i32) -> f64;
pub assume_specification [f64::powi] (x: f64, n: i32) -> (r: f64) ensures r == s_powi(x, n);
pub uninterp spec fn s_is_nan(x: f64) -> bool;
pub assume_specification [f64::is_nan] (x: f64) -> (r: bool) ensures r == s_is_nan(x);
pub uninterp spec fn EPSILON_s() -> f64;
#[verifier::external_body] pub exec const F64_EPSILON: f64 ensures F64_EPSILON == EPSILON_s() { f64::EPSILON }
