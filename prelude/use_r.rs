broadcast use {fp::f64_ops, genr::all, stdx::std_axioms};
