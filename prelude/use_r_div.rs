broadcast use {fp::f64_ops, fp::r_div_exact, genr::all, stdx::std_axioms};
