#!/usr/bin/env python3
"""development aid: weave the World-R contract of Matrix + Matrix into work/matrix_add_R.rs (same shape as matrix_sub_R)."""
import sys, re
sys.path.insert(0, '/verif/tools')
from annot import Work
w = Work('/verif/work/matrix_add_R.rs')
def ind_of(i): return w.L[i][:len(w.L[i]) - len(w.L[i].lstrip())]
sub = open('/verif/contracts/matrix_sub_R.vspec').read().split('\n')
# helper specs: the `+` lines of the sub unit between the #take line and the first context line
t = [k for k, l in enumerate(sub) if l.startswith('#take src/matrix/sub.rs')][0]
helpers = []
k = t + 1
while sub[k].startswith('+'): helpers.append(sub[k][1:]); k += 1
i = w.find("pub fn add(self, rhs: Matrix) -> (r: Matrix) //~24")
k = i
while not w.L[k].startswith("impl Matrix"): k -= 1
w.L[k:k] = helpers
i = w.find("pub fn add(self, rhs: Matrix) -> (r: Matrix) //~24")
w.L[i + 1:i + 1] = '''        requires
            self.wf(), rhs.wf(),
            self.n == rhs.n && self.m == rhs.m,     // (a dimension mismatch is a documented panic)
            self.n * self.n <= usize::MAX, self.n * self.m <= usize::MAX,
            // band widths lie inside the matrix and the widened band of a Banded + Banded result fits (stated size preconditions)
            self.storage is Banded ==> self.storage->ml <= self.n && self.storage->mu <= self.n, rhs.storage is Banded ==> rhs.storage->ml <= rhs.n && rhs.storage->mu <= rhs.n,
            (2 * self.n + 1) * self.n <= usize::MAX, 4 * self.n + 4 < IMAX(),
        ensures
            r.wf() && r.n == self.n && r.m == self.m,   // [C17] add.shape_of_the_operands
            forall|i: int, j: int| 0 <= i < self.n && 0 <= j < self.m ==> R(#[trigger] r.at(i, j)) == R(self.at(i, j)) + R(rhs.at(i, j)),   // [C17] add.entrywise_sum_of_the_dense_views'''.split('\n')
j = w.find("{ //~24")
w.L[j + 1:j + 1] = ["        proof { if vac(1) { assert(false); } }   // [vacuity] vac.add_entry",
                    "        let ghost gsa = self; let ghost gsb = rhs;"]
SLOTS = "proof { assert forall|i: int, j: int| 0 <= i < %s && 0 <= j < %s implies 0 <= #[trigger] (i * %s + j) < %s * %s by { Matrix::lemma_slot(i, j, %s as int, %s as int); } }"
# ---- arm 1: Identity + Identity
i = w.find("let mut data = vec![0.0; n * n]; //~45"); ind = ind_of(i)
w.L[i + 1:i + 1] = [ind + SLOTS % ("n", "n", "n", "n", "n", "n", "n")]
i = w.find("for i in 0 .. n //~46"); ind = ind_of(i)
w.L[i + 1:i + 1] = [ind + "    invariant data@.len() == n * n, n * n <= usize::MAX, n <= IMAX(),   // [C04] safety.lens",
    ind + "        forall|rr: int, cc: int| 0 <= rr < n && 0 <= cc < n ==> #[trigger] data@[rr * n + cc] == (if rr == cc && rr < i { (1.0f64).add_spec(1.0f64) } else { 0.0f64 }),   // [C17] add.twice_the_identity"]
b = w.find("data[i * n + i] = 1.0 + 1.0; //~47"); ind = ind_of(b)
w.L[b:b] = [ind + "let ghost d0 = data@;", ind + "proof { Matrix::lemma_slot(i as int, i as int, n as int, n as int); }"]
w.L[b + 3:b + 3] = [ind + "proof { assert forall|rr: int, cc: int| 0 <= rr < n && 0 <= cc < n implies #[trigger] data@[rr * n + cc] == (if rr == cc && rr < i + 1 { (1.0f64).add_spec(1.0f64) } else { 0.0f64 }) by {",
    ind + "    Matrix::lemma_slot(rr, cc, n as int, n as int);",
    ind + "    if rr * n + cc == i * n + i { lemma_slot_inj(rr, cc, i as int, i as int, n as int, n as int); }",
    ind + "    assert(d0[rr * n + cc] == (if rr == cc && rr < i { (1.0f64).add_spec(1.0f64) } else { 0.0f64 }));",
    ind + "} }"]
# ---- arm 2: Full + Full (R28 loop)
b = w.find("let x = a[vx_z]; //~68"); ind = ind_of(b)
assert w.L[b - 1].strip().startswith("{ //~68")
w.L[b - 1:b - 1] = [ind + "invariant data@.len() == vx_z, a@ == gsa.data@, b@ == gsb.data@, a@.len() == n * m, b@.len() == n * m,   // [C04] safety.lens",
    ind + "    forall|k: int| 0 <= k < vx_z ==> R(#[trigger] data@[k]) == R(a@[k]) + R(b@[k]),   // [C17] add.full_prefix_done"]
e = w.find("Matrix //~69"); ind = ind_of(e)
w.L[e:e] = [ind + SLOTS % ("n", "m", "m", "n", "m", "n", "m")]
# ---- arm 3: Banded + Banded
COMMON = ("n == gsa.n && n == gsa.m && n == gsb.n && n == gsb.m && n <= IMAX(), gsa.storage == (MatrixStorage::Banded { ml, mu }), gsb.storage == (MatrixStorage::Banded { ml: ml2, mu: mu2 }), gsa.wf(), gsb.wf(), a@ == gsa.data@, b@ == gsb.data@, "
          "ml <= n && mu <= n && ml2 <= n && mu2 <= n, ml <= ml_out && ml2 <= ml_out && mu <= mu_out && mu2 <= mu_out && ml_out <= n && mu_out <= n, rows_out == ml_out + mu_out + 1, (2 * n + 1) * n <= usize::MAX, 4 * n + 4 < IMAX(), "
          "out.n == n && out.m == n && out.storage == (MatrixStorage::Banded { ml: ml_out, mu: mu_out }) && out.data@.len() == rows_out * n,")
i = w.find("let mut out = Matrix //~94"); ind = ind_of(i)
w.L[i:i] = [ind + "proof { assert(rows_out * n <= (2 * n + 1) * n) by (nonlinear_arith) requires rows_out <= 2 * n + 1, n >= 0; }"]
i = w.find("}; //~102"); ind = ind_of(i)
w.L[i + 1:i + 1] = [ind + "assert(forall|s: int| 0 <= s < out.data@.len() ==> #[trigger] out.data@[s] == 0.0f64);",
    ind + "proof {",
    ind + "    assert forall|i: int, c: int| 0 <= i < n && 0 <= c < n && inb(i, c, ml_out as int, mu_out as int) implies 0 <= #[trigger] bslot(i, c, mu_out as int, n as int) < rows_out * n by { Matrix::lemma_slot(i - c + mu_out, c, rows_out as int, n as int); }",
    ind + "}"]
def band_pass(outer, inner, rowline, writeline, mlx, mux, src, first):
    i = w.find(outer); ind = ind_of(i)
    if first:
        post = "(c < j ==> R(#[trigger] out.data@[bslot(i, c, mu_out as int, n as int)]) == R(gsa.at(i, c))) && (c >= j ==> out.data@[bslot(i, c, mu_out as int, n as int)] == 0.0f64)"
    else:
        post = "(c < j ==> R(#[trigger] out.data@[bslot(i, c, mu_out as int, n as int)]) == R(gsa.at(i, c)) + R(gsb.at(i, c))) && (c >= j ==> R(out.data@[bslot(i, c, mu_out as int, n as int)]) == R(gsa.at(i, c)))"
    w.L[i + 1:i + 1] = [ind + "    invariant " + COMMON + "   // [C04] safety.band_shapes",
        ind + "        forall|i: int, c: int| 0 <= i < n && 0 <= c < n && inb(i, c, ml_out as int, mu_out as int) ==> " + post + ",   // [C17] add.%s_operand_added_column_by_column" % ("first" if first else "second")]
    i = w.find(inner); ind = ind_of(i)
    if first:
        other = "(c < j ==> R(#[trigger] out.data@[bslot(i, c, mu_out as int, n as int)]) == R(gsa.at(i, c))) && (c > j ==> out.data@[bslot(i, c, mu_out as int, n as int)] == 0.0f64)"
        col = "(0 <= i - j + %s < r ==> R(#[trigger] out.data@[bslot(i, j as int, mu_out as int, n as int)]) == R(%s@[(i - j + %s) * n + j])) && (!(0 <= i - j + %s < r) ==> out.data@[bslot(i, j as int, mu_out as int, n as int)] == 0.0f64)" % (mux, src, mux, mux)
    else:
        other = "(c < j ==> R(#[trigger] out.data@[bslot(i, c, mu_out as int, n as int)]) == R(gsa.at(i, c)) + R(gsb.at(i, c))) && (c > j ==> R(out.data@[bslot(i, c, mu_out as int, n as int)]) == R(gsa.at(i, c)))"
        col = "(0 <= i - j + %s < r ==> R(#[trigger] out.data@[bslot(i, j as int, mu_out as int, n as int)]) == R(gsa.at(i, j as int)) + R(%s@[(i - j + %s) * n + j])) && (!(0 <= i - j + %s < r) ==> R(out.data@[bslot(i, j as int, mu_out as int, n as int)]) == R(gsa.at(i, j as int)))" % (mux, src, mux, mux)
    w.L[i + 1:i + 1] = [ind + "    invariant " + COMMON + " j < n,   // [C04] safety.band_shapes",
        ind + "        forall|i: int, c: int| 0 <= i < n && 0 <= c < n && c != j && inb(i, c, ml_out as int, mu_out as int) ==> " + other + ",   // [C17] add.other_columns_untouched_%d" % (1 if first else 2),
        ind + "        forall|i: int| 0 <= i < n && inb(i, j as int, ml_out as int, mu_out as int) ==> " + col + ",   // [C17] add.band_rows_of_this_column_done_%d" % (1 if first else 2)]
    i = w.find(rowline); ind = ind_of(i)
    w.L[i + 1:i + 1] = [ind + "let ghost od = out.data@; let ghost i0 = j + k;",
        ind + "proof { Matrix::lemma_slot(row_out as int, j as int, rows_out as int, n as int); Matrix::lemma_slot(r as int, j as int, %s + %s + 1, n as int); assert(row_out * n + j == bslot(i0 as int, j as int, mu_out as int, n as int)); assert(inb(i0 as int, j as int, ml_out as int, mu_out as int)); }" % (mlx, mux)]
    i = w.find(writeline); ind = ind_of(i)
    w.L[i + 1:i + 1] = [ind + "proof {",
        ind + "    assert forall|i: int, c: int| 0 <= i < n && 0 <= c < n && inb(i, c, ml_out as int, mu_out as int) && !(i == i0 && c == j) implies out.data@[#[trigger] bslot(i, c, mu_out as int, n as int)] == od[bslot(i, c, mu_out as int, n as int)] by {",
        ind + "        Matrix::lemma_slot(i - c + mu_out, c, rows_out as int, n as int);",
        ind + "        if bslot(i, c, mu_out as int, n as int) == row_out * n + j { lemma_slot_inj(i - c + mu_out, c, row_out as int, j as int, rows_out as int, n as int); }",
        ind + "    }",
        ind + "}"]
band_pass("for j in 0 .. n //~104", "for r in 0 .. (ml + mu + 1) //~105", "let row_out = (k + mu_out as isize) as usize; //~109", "out.data[row_out * n + j] = out.data[row_out * n + j] + (a[r * n + j]); //~110", "ml", "mu", "a", True)
band_pass("for j in 0 .. n //~115", "for r in 0 .. (ml2 + mu2 + 1) //~116", "let row_out = (k + mu_out as isize) as usize; //~120", "out.data[row_out * n + j] = out.data[row_out * n + j] + (b[r * n + j]); //~121", "ml2", "mu2", "b", False)
w.save()

# ---------------- part 2: banded result, densifying closure, mixed arm
w = Work('/verif/work/matrix_add_R.rs')
i = w.find("out //~125"); ind = ind_of(i)
w.L[i:i] = [ind + "proof {",
    ind + "    assert(out.wf());",
    ind + "    assert forall|i: int, j: int| 0 <= i < n && 0 <= j < n implies R(#[trigger] out.at(i, j)) == R(gsa.at(i, j)) + R(gsb.at(i, j)) by {",
    ind + "        if inb(i, j, ml_out as int, mu_out as int) { assert(out.slot_of(i, j) == bslot(i, j, mu_out as int, n as int)); }",
    ind + "        else { assert(!gsa.in_band(i, j) && !gsb.in_band(i, j)); }",
    ind + "    }",
    ind + "}"]
i = w.find("for i in 0 .. n //~145"); ind = ind_of(i)
w.L[i + 1:i + 1] = [ind + "    invariant d@.len() == n * n, n * n <= usize::MAX, n <= IMAX(),   // [C04] safety.lens",
    ind + "        forall|rr: int, cc: int| 0 <= rr < n && 0 <= cc < n ==> #[trigger] d@[rr * n + cc] == (if rr == cc && rr < i { 1.0f64 } else { 0.0f64 }),   // [C17] add.identity_densified"]
b = w.find("d[i * n + i] = 1.0; //~146"); ind = ind_of(b)
w.L[b:b] = [ind + "let ghost d0 = d@;", ind + "proof { Matrix::lemma_slot(i as int, i as int, n as int, n as int); }"]
w.L[b + 3:b + 3] = [ind + "proof { assert forall|rr: int, cc: int| 0 <= rr < n && 0 <= cc < n implies #[trigger] d@[rr * n + cc] == (if rr == cc && rr < i + 1 { 1.0f64 } else { 0.0f64 }) by {",
    ind + "    Matrix::lemma_slot(rr, cc, n as int, n as int);",
    ind + "    if rr * n + cc == i * n + i { lemma_slot_inj(rr, cc, i as int, i as int, n as int, n as int); }",
    ind + "    assert(d0[rr * n + cc] == (if rr == cc && rr < i { 1.0f64 } else { 0.0f64 }));",
    ind + "} }"]
SL = "proof { assert forall|rr: int, cc: int| 0 <= rr < n && 0 <= cc < n implies 0 <= #[trigger] (rr * n + cc) < n * n by { Matrix::lemma_slot(rr, cc, n as int, n as int); } }"
i = w.find("let mut d = vec![0.0; n * n]; //~144"); w.L[i + 1:i + 1] = [ind_of(i) + SL]
i = w.find("let mut d = vec![0.0; n * n]; //~151"); w.L[i + 1:i + 1] = [ind_of(i) + SL]
CB = "d@.len() == n * n, n * n <= usize::MAX, n <= IMAX(), 4 * n + 4 < IMAX(), ml <= n && mu <= n, data@.len() == (ml + mu + 1) * n,"
i = w.find("for j in 0 .. n //~152"); ind = ind_of(i)
w.L[i + 1:i + 1] = [ind + "    invariant " + CB + "   // [C04] safety.lens",
    ind + "        forall|i: int, c: int| 0 <= i < n && 0 <= c < n ==> (c < j ==> R(#[trigger] d@[i * n + c]) == R(view_at(n, data@, MatrixStorage::Banded { ml, mu }, i, c))) && (c >= j ==> d@[i * n + c] == 0.0f64),   // [C17] add.banded_densified_column_by_column"]
i = w.find("for r in 0 .. (ml + mu + 1) //~153"); ind = ind_of(i)
w.L[i + 1:i + 1] = [ind + "    invariant " + CB + " j < n,   // [C04] safety.lens",
    ind + "        forall|i: int, c: int| 0 <= i < n && 0 <= c < n && c != j ==> (c < j ==> R(#[trigger] d@[i * n + c]) == R(view_at(n, data@, MatrixStorage::Banded { ml, mu }, i, c))) && (c > j ==> d@[i * n + c] == 0.0f64),   // [C17] add.other_columns_untouched_dense",
    ind + "        forall|i: int| 0 <= i < n ==> (0 <= i - j + mu < r ==> R(#[trigger] d@[i * n + j]) == R(data@[(i - j + mu) * n + j])) && (!(0 <= i - j + mu < r) ==> d@[i * n + j] == 0.0f64),   // [C17] add.band_rows_of_this_column_densified"]
b = w.find("d[i * n + j] = d[i * n + j] + (data[r * n + j]); //~158"); ind = ind_of(b)
w.L[b:b] = [ind + "let ghost d0 = d@;", ind + "proof { Matrix::lemma_slot(i as int, j as int, n as int, n as int); Matrix::lemma_slot(r as int, j as int, ml + mu + 1, n as int); }"]
w.L[b + 3:b + 3] = [ind + "proof { assert forall|rr: int, cc: int| 0 <= rr < n && 0 <= cc < n && !(rr == i && cc == j) implies d@[#[trigger] (rr * n + cc)] == d0[rr * n + cc] by {",
    ind + "    Matrix::lemma_slot(rr, cc, n as int, n as int);",
    ind + "    if rr * n + cc == i * n + j { lemma_slot_inj(rr, cc, i as int, j as int, n as int, n as int); }",
    ind + "} }"]
i = w.find("let aa = to_full(n, a, sa); //~166"); ind = ind_of(i)
w.L[i:i] = [ind + "proof {",
    ind + "    assert(n == gsa.n && n == gsa.m && a@ == gsa.data@ && b@ == gsb.data@ && sa == gsa.storage && sb == gsb.storage);",
    ind + "    assert(n * n == gsa.n * gsa.m);",
    ind + "    assert(dense_req(n, a@, sa) && dense_req(n, b@, sb));   // [C04] add.densify_preconditions",
    ind + "    assert forall|i: int, j: int| 0 <= i < n && 0 <= j < n implies view_at(n, a@, sa, i, j) == #[trigger] gsa.at(i, j) && view_at(n, b@, sb, i, j) == gsb.at(i, j) by {}",
    ind + "}"]
b = w.find("let x = aa[vx_z]; //~168"); ind = ind_of(i)
assert w.L[b - 1].strip().startswith("{ //~168")
w.L[b - 1:b - 1] = [ind + "    invariant data@.len() == vx_z, aa@.len() == n * n, bb@.len() == n * n,   // [C04] safety.lens",
    ind + "        forall|k: int| 0 <= k < vx_z ==> R(#[trigger] data@[k]) == R(aa@[k]) + R(bb@[k]),   // [C17] add.dense_elementwise_prefix"]
e = w.find("Matrix //~169"); ind = ind_of(e)
w.L[e:e] = [ind + "proof { assert forall|i: int, j: int| 0 <= i < n && 0 <= j < n implies 0 <= #[trigger] (i * n + j) < n * n by { Matrix::lemma_slot(i, j, n as int, n as int); } }"]
w.save()
