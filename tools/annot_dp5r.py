import sys, re; sys.path.insert(0, '/verif/tools')
from annot import Work
unit = sys.argv[1] if len(sys.argv) > 1 else 'dp5_R'
k = int(sys.argv[2]) if len(sys.argv) > 2 else 5
bufs = (sys.argv[3] if len(sys.argv) > 3 else 'y,k1,k2,k3,k4,k5,k6,y1').split(',')
FAC = int(sys.argv[4]) if len(sys.argv) > 4 else 8
STIFF = True
w = Work('/verif/work/%s.rs' % unit)
LENS = ", ".join("%s.len() == n" % b for b in bufs) + ", cont.len() == %d * n, atol.ok(n as nat), rtol.ok(n as nat)," % k
w.after('pub fn solve < F, S >', '''
        requires
            %d * y0@.len() <= usize::MAX, self.max_steps < 0x7fff_0000,
            atol.ok(y0@.len() as nat), rtol.ok(y0@.len() as nat),
            R(xend) != R(x0),
            // configuration preconditions of the low-level API (the defaults and everything solve_ivp passes satisfy them)
            0real < R(self.scale_min) <= 99real / 100real, R(self.scale_max) > 0real, R(self.safety_factor) <= 99real / 100real,
            self.first_step is Some && self.max_step is Some ==> rabs(R(self.first_step->Some_0)) <= rabs(R(self.max_step->Some_0)),
            self.first_step is Some ==> rabs(R(self.first_step->Some_0)) <= rabs(R(xend) - R(x0)),
            old(tr).solout_calls == 0, !old(tr).stopped, old(tr).x0 == x0, old(tr).xend == xend,
        ensures
            final(tr).x0 == x0 && final(tr).xend == xend,   // [C03] trace.span_kept
            r is Ok && (r->Ok_0).status is Success && solout is Some ==> R(final(tr).last_x) == R(xend),   // [C03] span.success_lands_on_xend
            r is Ok ==> ((r->Ok_0).status is UserInterrupt <==> final(tr).stopped),   // [C03 C10] status.interrupt
''' % k)
i = w.find('pub fn solve < F, S >')
j = next(k for k in range(i, len(w.L)) if w.L[k].strip().startswith('{ //~'))
w.L[j + 1:j + 1] = ['        let ghost so_some = solout is Some;', '        proof { if vac(1) { assert(false); } }   // [vacuity] vac.solve_entry']

INV = '''
            invariant_except_break
                !tr.stopped, !last,   // [C03 C10] status.running
                rabs(R(h)) <= rabs(R(h_max)),   // [C11] step.bounded_by_max_step
                R(x) != R(xend),   // [C03] span.not_yet_at_xend
''' + ('''                0 <= iasti < 15,   // [C04] safety.iasti
''' if STIFF else '') + '''            invariant
                ''' + LENS + '''   // [C04] safety.lens
                nmax == self.max_steps, nmax < 0x7fff_0000,''' + (''' nstiff > 0, 0 <= nonstiff <= steps.accepted,''' if STIFF else '') + ''' steps.total <= nmax + 1, steps.accepted <= steps.total, steps.rejected <= steps.total, evals.ode <= ''' + str(FAC) + ''' * steps.total + 3,   // [C04] safety.counters
                tr.x0 == x0, tr.xend == xend, dir_ok(x0, xend, posneg),   // [C03] span.direction
                in_span(x0, xend, x),   // [C03] span.x_in_span
                h_dir(posneg, h),   // [C03 C13] span.h_points_toward_xend
                R(facc2) > 0real, R(facc1) >= 101real / 100real, 0real < R(safety_factor) <= 99real / 100real, R(uround) > 0real, R(expo1) >= 0real,   // [C11] step.controller_ranges
                rabs(R(h_max)) <= rabs(R(xend) - R(x0)),   // [C03 C11] span.hmax_within_span
                tr.solout_calls > 0 ==> tr.last_x == x,   // [C03 C19] proto.contiguous_inv
                (solout is Some) == so_some, so_some ==> tr.solout_calls > 0, !so_some ==> tr.solout_calls == 0,   // [C19] proto.handler_kept
            ensures
                (status is UserInterrupt) == tr.stopped,   // [C03 C10] status.interrupt_loop
                status is Success ==> R(x) == R(xend) && (so_some ==> tr.last_x == x),   // [C03] span.success_lands_on_xend_loop
                tr.x0 == x0 && tr.xend == xend, (solout is Some) == so_some,   // [C03] trace.span_kept_loop
            decreases nmax + 2 - steps.total,   // [C04] term.main
'''
i = w.find('        loop //~')
w.L[i + 1:i + 1] = INV.strip('\n').split('\n')
j = w.find('        { //~', 0)
# first brace after the loop header
j = next(k for k in range(i, len(w.L)) if w.L[k].strip().startswith('{ //~'))
w.L[j + 1:j + 1] = ['            proof { if vac(2) { assert(false); } }   // [vacuity] vac.main_loop']
out = []
in_solve = False
for idx, l in enumerate(w.L):
    out.append(l)
    if 'pub fn solve < F, S >' in l: in_solve = True
    if in_solve and re.match(r'\s+for i in 0 \.\. n //~', l):
        out.append('                invariant ' + LENS + '   // [C04] safety.lens')
w.L = out
# landing block
w.before('            if (x + 1.01 * h - xend) * posneg > 0.0 //~', '''
            let ghost hh0 = h;
            let ghost tt = (x.add_spec(1.01f64.mul_spec(h))).sub_spec(xend).mul_spec(posneg);
            proof {
                assert(R(1.01f64.mul_spec(h)) == (101real / 100real) * R(h));
                assert(R((x.add_spec(1.01f64.mul_spec(h))).sub_spec(xend)) == R(x) + (101real / 100real) * R(h) - R(xend));
                assert(R(posneg) == 1real ==> R(tt) == R(x) + (101real / 100real) * R(h) - R(xend));
                assert(R(posneg) == 0real - 1real ==> R(tt) == 0real - (R(x) + (101real / 100real) * R(h) - R(xend)));
            }
''')
w.after('            steps.total = steps.total + (1); //~', '''
            proof {
                // after the landing block: either this is the landing step, or even a 1% longer step stays short of xend
                assert(R(posneg) == 1real ==> (if last { R(x) + R(h) == R(xend) } else { R(x) + (101real / 100real) * R(h) <= R(xend) }));
                assert(R(posneg) == 0real - 1real ==> (if last { R(x) + R(h) == R(xend) } else { R(x) + (101real / 100real) * R(h) >= R(xend) }));
                assert(h_dir(posneg, h));
                assert(rabs(R(h)) <= (101real / 100real) * rabs(R(hh0)));   // [C11] step.landing_stretch_at_most_1_percent
                assert(last ==> R(x) + R(h) == R(xend));   // [C03] span.landing_step_is_exact
            }
''')
w.save()
