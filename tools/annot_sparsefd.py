#!/usr/bin/env python3
"""development aid: author the sparsefd_A contracts on a freshly extracted work file (after `vxcli edit sparsefd_A` on the
contract-free skeleton). The frozen vspec is what the checks use."""
import sys
sys.path.insert(0, '/verif/tools')
from annot import Work
w = Work('/verif/work/sparsefd_A.rs')
w.before("//#take src/python/sparsity.rs struct SparsityStructure", '''
/// the right-hand side handed to sparse_jacobian_fd: a closure `Fn(Float, &[Float], &mut [Float])` in the crate, modelled as a
/// trait object with a spec function (ASSUMED of the user's closure: it is a deterministic function of (x, y) and fills `out`)
pub trait OdeFn {
    spec fn f(&self, x: f64, y: Seq<f64>) -> Seq<f64>;
    fn call(&self, x: Float, y: &[Float], out: &mut [Float])
        requires y@.len() == old(out)@.len()
        ensures final(out)@.len() == old(out)@.len(), final(out)@ == self.f(x, y@);
}
/// column c has a structural non-zero in row r
pub open spec fn has_row(col_to_rows: Seq<Vec<usize>>, c: int, r: int) -> bool { exists|k: int| 0 <= k < col_to_rows[c]@.len() && #[trigger] col_to_rows[c]@[k] == r }
/// two columns share no row
pub open spec fn disjoint_cols(col_to_rows: Seq<Vec<usize>>, a: int, b: int) -> bool {
    forall|ka: int, kb: int| 0 <= ka < col_to_rows[a]@.len() && 0 <= kb < col_to_rows[b]@.len() ==> #[trigger] col_to_rows[a]@[ka] != #[trigger] col_to_rows[b]@[kb]
}
/// what group_columns establishes (sparsity_A: grouping_ok): columns of one group are pairwise disjoint   [C20]
pub open spec fn grouping_ok(col_to_rows: Seq<Vec<usize>>, groups: Seq<usize>, upto: int) -> bool {
    forall|a: int, b: int| 0 <= a < b < upto && groups[a] == groups[b] ==> #[trigger] disjoint_cols(col_to_rows, a, b)
}
/// the perturbation of column c: sqrt(eps) * max(|y_c|, 1), the same expression the dense finite-difference Jacobian uses
pub open spec fn pert(eps: f64, yc: f64) -> f64 { eps.mul_spec(s_max(s_abs(yc), 1.0f64)) }
/// y with only column c perturbed: the argument of the dense finite-difference Jacobian for column c
pub open spec fn y_one(y: Seq<f64>, eps: f64, c: int) -> Seq<f64> { y.update(c, y[c].add_spec(pert(eps, y[c]))) }
/// the pattern is structurally correct for f: row r of f reads only the columns that have r in their pattern   [C20, hypothesis]
pub open spec fn pattern_respected<F: OdeFn>(ode: &F, x: f64, col_to_rows: Seq<Vec<usize>>, n: int) -> bool {
    forall|y1: Seq<f64>, y2: Seq<f64>, r: int| #![trigger ode.f(x, y1)[r], ode.f(x, y2)[r]]
        y1.len() == n && y2.len() == n && 0 <= r < n && (forall|c: int| 0 <= c < n && has_row(col_to_rows, c, r) ==> y1[c] == y2[c]) ==> ode.f(x, y1)[r] == ode.f(x, y2)[r]
}
/// std meaning of `groups.iter().enumerate().filter(|&(_, &g)| g == group).map(|(col, _)| col).collect()` (the substitution of
/// columns_in_group's iterator chain; the equivalence with the chain is the ASSUMED std semantics, this body is verified):
/// the indices c with groups[c] == group, in increasing order
pub fn vx_cols_of_group(groups: &Vec<usize>, group: usize) -> (r: Vec<usize>)
    ensures
        forall|k: int| 0 <= k < r@.len() ==> #[trigger] r@[k] < groups@.len() && groups@[r@[k] as int] == group,
        forall|c: int| 0 <= c < groups@.len() && groups@[c] == group ==> exists|k: int| 0 <= k < r@.len() && #[trigger] r@[k] == c,
        forall|k1: int, k2: int| 0 <= k1 < k2 < r@.len() ==> #[trigger] r@[k1] < #[trigger] r@[k2],
{
    let mut out: Vec<usize> = Vec::new();
    for c in 0..groups.len()
        invariant
            forall|k: int| 0 <= k < out@.len() ==> #[trigger] out@[k] < c && groups@[out@[k] as int] == group,
            forall|cc: int| 0 <= cc < c && groups@[cc] == group ==> exists|k: int| 0 <= k < out@.len() && #[trigger] out@[k] == cc,
            forall|k1: int, k2: int| 0 <= k1 < k2 < out@.len() ==> #[trigger] out@[k1] < #[trigger] out@[k2],
    {
        if groups[c] == group {
            let ghost prev = out@;
            out.push(c);
            proof {
                assert forall|cc: int| 0 <= cc < c + 1 && groups@[cc] == group implies exists|k: int| 0 <= k < out@.len() && #[trigger] out@[k] == cc by {
                    if cc < c { let k = choose|k: int| 0 <= k < prev.len() && #[trigger] prev[k] == cc; assert(out@[k] == cc); } else { assert(out@[prev.len() as int] == cc); }
                }
            }
        }
    }
    out
}
''')
w.after("} //~26", '''
impl SparsityStructure {
    /// shape of the structure as SparsityStructure::from_python builds it (from_python itself is pyo3 code, outside every unit)
    pub open spec fn wf(&self) -> bool {
        &&& self.col_to_rows@.len() == self.n && self.groups@.len() == self.n
        &&& forall|c: int| 0 <= c < self.n ==> #[trigger] self.groups@[c] < self.n_groups
        &&& forall|c: int, k: int| 0 <= c < self.n && 0 <= k < self.col_to_rows@[c]@.len() ==> #[trigger] self.col_to_rows@[c]@[k] < self.n
        &&& grouping_ok(self.col_to_rows@, self.groups@, self.n as int)
    }
}
''')
w.after("pub fn columns_in_group(&self, group: usize) -> (r: Vec < usize >) //~95", """        ensures
            forall|k: int| 0 <= k < r@.len() ==> #[trigger] r@[k] < self.groups@.len() && self.groups@[r@[k] as int] == group,   // [C20] cols.only_members_of_the_group
            forall|c: int| 0 <= c < self.groups@.len() && self.groups@[c] == group ==> exists|k: int| 0 <= k < r@.len() && #[trigger] r@[k] == c,   // [C20] cols.every_member_of_the_group
            forall|k1: int, k2: int| 0 <= k1 < k2 < r@.len() ==> #[trigger] r@[k1] < #[trigger] r@[k2],   // [C20] cols.each_once""")
w.after("pub fn sparse_jacobian_fd < F >(ode: F, x: Float, y: &[Float], f0: &[Float], sparsity: &SparsityStructure, j: &mut Matrix,) where F: OdeFn, //~160", """    requires
        sparsity.wf(), y@.len() == sparsity.n, f0@.len() == sparsity.n,
        old(j).wf(), old(j).storage is Full, old(j).n == sparsity.n, old(j).m == sparsity.n,
        f0@ == ode.f(x, y@),   // the caller passes the unperturbed right-hand side
        pattern_respected(&ode, x, sparsity.col_to_rows@, sparsity.n as int),   // [C20] hypothesis: the declared pattern is the structure of f
    ensures
        final(j).wf() && final(j).n == old(j).n && final(j).m == old(j).m && final(j).storage == old(j).storage,   // [C20 C04] sparse_fd.shape_kept
        // every entry of the pattern is the forward difference the dense finite-difference Jacobian computes for it: only column c perturbed
        forall|c: int, k: int| 0 <= c < sparsity.n && 0 <= k < sparsity.col_to_rows@[c]@.len() ==>
            final(j).at(#[trigger] sparsity.col_to_rows@[c]@[k] as int, c) == sparse_fd_entry(&ode, x, y@, f0@, s_sqrt(EPSILON_s()), sparsity.col_to_rows@[c]@[k] as int, c),   // [C20] sparse_fd.pattern_entries_equal_the_dense_forward_differences
        // nothing outside the pattern is written
        forall|r: int, c: int| 0 <= r < sparsity.n && 0 <= c < sparsity.n && !has_row(sparsity.col_to_rows@, c, r) ==> #[trigger] final(j).at(r, c) == old(j).at(r, c),   // [C20] sparse_fd.entries_outside_the_pattern_untouched""")
w.before("pub fn sparse_jacobian_fd < F >(ode: F, x: Float", '''/// entry (r, c) of the dense forward-difference Jacobian: (f(x, y + h_c e_c)[r] - f(x, y)[r]) / h_c   (IVP::jac's default, python jac_fd)
pub open spec fn sparse_fd_entry<F: OdeFn>(ode: &F, x: f64, y: Seq<f64>, f0: Seq<f64>, eps: f64, r: int, c: int) -> f64 {
    ode.f(x, y_one(y, eps, c))[r].sub_spec(f0[r]).div_spec(pert(eps, y[c]))
}
/// entries of columns < `upto_col` (all rows) and of column `upto_col` for pattern positions < `upto_k`, restricted to group members, are done
pub open spec fn done_cols<F: OdeFn>(jm: Matrix, ode: &F, x: f64, y: Seq<f64>, f0: Seq<f64>, eps: f64, s: &SparsityStructure, in_group: spec_fn(int) -> bool, c: int, upto_k: int) -> bool {
    in_group(c) ==> forall|k: int| 0 <= k < upto_k ==> jm.at(#[trigger] s.col_to_rows@[c]@[k] as int, c) == sparse_fd_entry(ode, x, y, f0, eps, s.col_to_rows@[c]@[k] as int, c)
}
''')
w.save()
print("prelude and signatures written; loops to be annotated next")

# ------------------------------------------------------------------ loops of sparse_jacobian_fd
w = Work('/verif/work/sparsefd_A.rs')
w.before("/// entry (r, c) of the dense forward-difference Jacobian", '''/// c is one of cols[0..upto)
pub open spec fn in_prefix(cols: Seq<usize>, upto: int, c: int) -> bool { exists|k: int| 0 <= k < upto && #[trigger] cols[k] == c }
/// the simultaneously perturbed argument of one group, as far as the first `upto` columns of the group have been perturbed
pub open spec fn y_group_ok(yp: Seq<f64>, hh: Seq<f64>, y: Seq<f64>, eps: f64, cols: Seq<usize>, upto: int) -> bool {
    &&& yp.len() == y.len() && hh.len() == y.len()
    &&& forall|c: int| 0 <= c < y.len() ==> #[trigger] yp[c] == (if in_prefix(cols, upto, c) { y[c].add_spec(pert(eps, y[c])) } else { y[c] })
    &&& forall|c: int| 0 <= c < y.len() && in_prefix(cols, upto, c) ==> #[trigger] hh[c] == pert(eps, y[c])
}
/// with all columns of group g perturbed at once, row r of f is what perturbing column c alone gives, for every (r, c) of the
/// pattern with c in the group: the other columns of the group do not reach row r (grouping_ok), and f respects the pattern   [C20]
pub proof fn lemma_group_eval<F: OdeFn>(ode: &F, x: f64, y: Seq<f64>, eps: f64, s: &SparsityStructure, g: usize, cols: Seq<usize>, yp: Seq<f64>, hh: Seq<f64>, c: int, k: int)
    requires s.wf(), y.len() == s.n, pattern_respected(ode, x, s.col_to_rows@, s.n as int), y_group_ok(yp, hh, y, eps, cols, cols.len() as int),
        forall|kk: int| 0 <= kk < cols.len() ==> #[trigger] cols[kk] < s.n && s.groups@[cols[kk] as int] == g,
        forall|cc: int| 0 <= cc < s.n && s.groups@[cc] == g ==> in_prefix(cols, cols.len() as int, cc),
        0 <= c < s.n, s.groups@[c] == g, 0 <= k < s.col_to_rows@[c]@.len(),
    ensures ode.f(x, yp)[s.col_to_rows@[c]@[k] as int] == ode.f(x, y_one(y, eps, c))[s.col_to_rows@[c]@[k] as int]
{
    let r = s.col_to_rows@[c]@[k] as int;
    let y1 = yp; let y2 = y_one(y, eps, c);
    assert(has_row(s.col_to_rows@, c, r));
    assert(in_prefix(cols, cols.len() as int, c));
    assert forall|cc: int| 0 <= cc < s.n && has_row(s.col_to_rows@, cc, r) implies y1[cc] == y2[cc] by {
        if cc != c {
            if in_prefix(cols, cols.len() as int, cc) {
                let kk = choose|kk: int| 0 <= kk < cols.len() && #[trigger] cols[kk] == cc;
                assert(s.groups@[cc] == g);
                let k2 = choose|k2: int| 0 <= k2 < s.col_to_rows@[cc]@.len() && #[trigger] s.col_to_rows@[cc]@[k2] == r;
                if cc < c { assert(disjoint_cols(s.col_to_rows@, cc, c)); assert(s.col_to_rows@[cc]@[k2] != s.col_to_rows@[c]@[k]); }
                else { assert(disjoint_cols(s.col_to_rows@, c, cc)); assert(s.col_to_rows@[c]@[k] != s.col_to_rows@[cc]@[k2]); }
            }
        }
    }
    assert(ode.f(x, y1)[r] == ode.f(x, y2)[r]);
}
''')
LENS = "sparsity.wf(), y@.len() == sparsity.n, f0@.len() == sparsity.n, n == sparsity.n, j.wf(), j.storage is Full, j.n == n, j.m == n, old(j).n == n, old(j).m == n, old(j).storage is Full, eps == s_sqrt(EPSILON_s()),   // [C04] safety.lens"
w.after("{ //~169", "    proof { if vac(1) { assert(false); } }   // [vacuity] vac.sparse_fd_entry")
w.after("for group in 0 .. sparsity.n_groups //~174", """        invariant """ + LENS + """
            f0@ == ode.f(x, y@), pattern_respected(&ode, x, sparsity.col_to_rows@, sparsity.n as int),
            forall|c: int, k: int| 0 <= c < n && 0 <= k < sparsity.col_to_rows@[c]@.len() && sparsity.groups@[c] < group ==>
                j.at(#[trigger] sparsity.col_to_rows@[c]@[k] as int, c) == sparse_fd_entry(&ode, x, y@, f0@, eps, sparsity.col_to_rows@[c]@[k] as int, c),   // [C20] sparse_fd.groups_done
            forall|r: int, c: int| 0 <= r < n && 0 <= c < n && !has_row(sparsity.col_to_rows@, c, r) ==> #[trigger] j.at(r, c) == old(j).at(r, c),   // [C20] sparse_fd.outside_pattern_untouched_inv""")
w.after("let cols = sparsity.columns_in_group(group); //~175", """        let ghost j_g = *j;
        assert(forall|cc: int| 0 <= cc < n && sparsity.groups@[cc] == group ==> in_prefix(cols@, cols@.len() as int, cc));   // [C20] sparse_fd.group_listed_completely""")
w.after("for vx_r_col in vx_it_col: 0 .. cols.len() //~183", """                invariant """ + LENS + """
                    forall|kk: int| 0 <= kk < cols@.len() ==> #[trigger] cols@[kk] < n && sparsity.groups@[cols@[kk] as int] == group,
                    y_group_ok(y_perturbed@, h@, y@, eps, cols@, vx_r_col as int),   // [C20] sparse_fd.group_perturbed_so_far""")
w.after("h[col] = perturbation; //~186", """                proof {
                    let up = vx_r_col as int;
                    assert forall|c: int| 0 <= c < n implies in_prefix(cols@, up + 1, c) == (in_prefix(cols@, up, c) || c == col) by {
                        if in_prefix(cols@, up, c) { let kk = choose|kk: int| 0 <= kk < up && #[trigger] cols@[kk] == c; assert(cols@[kk] == c); }
                        if c == col { assert(cols@[up] == c); }
                    }
                }""")
w.after("ode.call(x, &y_perturbed, &mut f_perturbed); //~191", """            assert(f_perturbed@ == ode.f(x, y_perturbed@) && y_group_ok(y_perturbed@, h@, y@, eps, cols@, cols@.len() as int));   // [C20] sparse_fd.one_evaluation_per_group""")
w.after("for vx_r_col in vx_it_col: 0 .. cols.len() //~194", """                invariant """ + LENS + """
                    f0@ == ode.f(x, y@), pattern_respected(&ode, x, sparsity.col_to_rows@, sparsity.n as int), group < sparsity.n_groups,
                    forall|kk: int| 0 <= kk < cols@.len() ==> #[trigger] cols@[kk] < n && sparsity.groups@[cols@[kk] as int] == group,
                    forall|cc: int| 0 <= cc < n && sparsity.groups@[cc] == group ==> in_prefix(cols@, cols@.len() as int, cc),
                    f_perturbed@ == ode.f(x, y_perturbed@), y_group_ok(y_perturbed@, h@, y@, eps, cols@, cols@.len() as int), f_perturbed@.len() == n,
                    forall|c: int, k: int| 0 <= c < n && 0 <= k < sparsity.col_to_rows@[c]@.len() && (sparsity.groups@[c] < group || in_prefix(cols@, vx_r_col as int, c)) ==>
                        j.at(#[trigger] sparsity.col_to_rows@[c]@[k] as int, c) == sparse_fd_entry(&ode, x, y@, f0@, eps, sparsity.col_to_rows@[c]@[k] as int, c),   // [C20] sparse_fd.columns_of_the_group_done_so_far
                    forall|r: int, c: int| 0 <= r < n && 0 <= c < n && !has_row(sparsity.col_to_rows@, c, r) ==> #[trigger] j.at(r, c) == old(j).at(r, c),   // [C20] sparse_fd.outside_pattern_untouched_inv""")
w.after("let perturbation = h[col]; //~195", """                assert(in_prefix(cols@, cols@.len() as int, col as int) && perturbation == pert(eps, y@[col as int]));   // [C20] sparse_fd.step_of_this_column
                let ghost j_c = *j;""")
w.after("for vx_r_row in vx_it_row: 0 .. sparsity.col_to_rows[col].len() //~197", """                    invariant """ + LENS + """
                        f0@ == ode.f(x, y@), pattern_respected(&ode, x, sparsity.col_to_rows@, sparsity.n as int), group < sparsity.n_groups,
                        forall|kk: int| 0 <= kk < cols@.len() ==> #[trigger] cols@[kk] < n && sparsity.groups@[cols@[kk] as int] == group,
                        forall|cc: int| 0 <= cc < n && sparsity.groups@[cc] == group ==> in_prefix(cols@, cols@.len() as int, cc),
                        f_perturbed@ == ode.f(x, y_perturbed@), y_group_ok(y_perturbed@, h@, y@, eps, cols@, cols@.len() as int), f_perturbed@.len() == n,
                        col < n, sparsity.groups@[col as int] == group, perturbation == pert(eps, y@[col as int]), j_c.wf() && j_c.n == n && j_c.m == n,
                        forall|k: int| 0 <= k < vx_r_row ==> j.at(#[trigger] sparsity.col_to_rows@[col as int]@[k] as int, col as int) == sparse_fd_entry(&ode, x, y@, f0@, eps, sparsity.col_to_rows@[col as int]@[k] as int, col as int),   // [C20] sparse_fd.rows_of_this_column_done_so_far
                        forall|r: int, c: int| 0 <= r < n && 0 <= c < n && c != col ==> #[trigger] j.at(r, c) == j_c.at(r, c),   // [C20] sparse_fd.other_columns_untouched
                        forall|r: int| 0 <= r < n && !has_row(sparsity.col_to_rows@, col as int, r) ==> #[trigger] j.at(r, col as int) == j_c.at(r, col as int),   // [C20] sparse_fd.rows_outside_the_pattern_of_this_column_untouched""")
w.after("(* j.index_mut((row, col))) = (f_perturbed[row] - f0[row]) / perturbation; //~198", """                    proof {
                        lemma_group_eval(&ode, x, y@, eps, sparsity, group, cols@, y_perturbed@, h@, col as int, vx_r_row as int);
                        assert(has_row(sparsity.col_to_rows@, col as int, row as int));
                        assert(j.at(row as int, col as int) == sparse_fd_entry(&ode, x, y@, f0@, eps, row as int, col as int));   // [C20] sparse_fd.entry_value
                    }""")
w.after("} //~199", """                proof {
                    let up = vx_r_col as int;
                    assert forall|c: int| 0 <= c < n implies in_prefix(cols@, up + 1, c) == (in_prefix(cols@, up, c) || c == col) by {
                        if in_prefix(cols@, up, c) { let kk = choose|kk: int| 0 <= kk < up && #[trigger] cols@[kk] == c; assert(cols@[kk] == c); }
                        if c == col { assert(cols@[up] == c); }
                    }
                }""")
w.save()
