import sys; sys.path.insert(0, '/verif/tools')
from annot import Work
w = Work('/verif/work/solout_A.rs')
w.after('pub fn to_segment(&self) -> (r: DenseSegment)', '''
        ensures r.h == self.h, r.xold == self.xold, r.cont@ == self.cont@, r.interp_fn == self.interp_fn   // [C06] seg.copy
''')
w.before('//#take src/solve/solout.rs impl DefaultSolOut', '''
/// spec twin of the nested `crossed` helper (direction-aware sign change)   [C08 C09]
pub open spec fn crossed_spec(left: f64, right: f64, dir: Direction) -> bool {
    match dir {
        Direction::All => (f_le(left, 0.0) && f_ge(right, 0.0)) || (f_ge(left, 0.0) && f_le(right, 0.0)),
        Direction::Positive => f_lt(left, 0.0) && f_ge(right, 0.0),
        Direction::Negative => f_gt(left, 0.0) && f_le(right, 0.0),
    }
}
impl<'a, F: IVP> DefaultSolOut<'a, F> {
    /// data-structure invariant of the output handler
    pub open spec fn wf(&self) -> bool {
        let ne = self.ode.n_events_spec();
        let n = self.y_mid_buf@.len();
        &&& self.event_config@.len() == ne && self.prev_event@.len() == ne && self.event_hits@.len() == ne
        &&& self.g_curr_buf@.len() == ne && self.g_mid_buf@.len() == ne
        &&& self.t_events@.len() == ne && self.y_events@.len() == ne
        &&& self.t@.len() == self.y@.len()                                                   // [C03] t and y have equal length
        &&& (self.yold@.len() == 0 || self.yold@.len() == n)
        &&& self.tol == 1e-12f64
        &&& (self.t_eval is Some ==> self.next_idx <= self.t_eval->Some_0@.len())
        &&& forall|i: int| 0 <= i < ne ==> (#[trigger] self.t_events@[i])@.len() == self.y_events@[i]@.len() && self.event_hits@[i] == self.t_events@[i]@.len()   // [C08] matching shapes
        &&& forall|k: int| 0 <= k < self.y@.len() ==> (#[trigger] self.y@[k])@.len() == n    // [C03] every sample has the problem's dimension
        &&& forall|i: int, k: int| 0 <= i < ne && 0 <= k < self.y_events@[i]@.len() ==> (#[trigger] self.y_events@[i]@[k])@.len() == n
        &&& forall|i: int| 0 <= i < ne ==> #[trigger] self.event_config@[i] == self.ode.event_config_spec(i)
    }
    /// what one callback may do to the collected dense segments   [C06 C12]
    pub open spec fn dense_post(new: Seq<(Vec<Float>, Float, Float)>, old: Seq<(Vec<Float>, Float, Float)>, collect: bool, x: f64, xold: f64, interp: Option<&StepInterpolant<'_>>) -> bool {
        &&& (!collect ==> new == old)
        &&& new.len() <= old.len() + 1
        &&& (new.len() == old.len() + 1 ==> interp is Some && new.last().0@ == (interp->Some_0).cont@ && new.last().1 == (interp->Some_0).xold
                && new.last().2 == (interp->Some_0).h && new.take(old.len() as int) =~= old)
        &&& (collect && !x.eq_spec(&xold) && interp is Some && !((interp->Some_0).h).eq_spec(&0.0f64) ==> new.len() == old.len() + 1)
    }
    /// the fields no callback ever changes
    pub open spec fn same_cfg(&self, o: &Self) -> bool {
        &&& self.ode == o.ode && self.t_eval == o.t_eval && self.collect_dense == o.collect_dense
        &&& self.first_step == o.first_step && self.x0 == o.x0 && self.tol == o.tol
        &&& self.event_config@ == o.event_config@ && self.y_mid_buf@.len() == o.y_mid_buf@.len()
    }
}
''')
w.after('pub fn new(ode: &', '''
        ensures
            r.wf(), r.y_mid_buf@.len() == n_states, r.ode == ode, r.t_eval == t_eval, r.collect_dense == collect_dense,   // [C04 C03] new.wf
            r.first_step == first_step, r.x0 == x0, r.yold@.len() == 0, r.t@.len() == 0, r.y@.len() == 0, r.next_idx == 0,   // [C05 C03] new.empty
            r.dense_segs@.len() == 0, !r.first_output_done,   // [C06] new.no_segments
            forall|i: int| 0 <= i < ode.n_events_spec() ==> (#[trigger] r.t_events@[i])@.len() == 0,   // [C08] new.no_events
''')
w.after('for i in 0 .. n_events //~78', '''
            invariant
                event_config@.len() == i, n_events == ode.n_events_spec(),   // [C04] safety.lens
                forall|k: int| 0 <= k < i ==> #[trigger] event_config@[k] == ode.event_config_spec(k),   // [C08] new.config
''')
w.after('pub fn into_payload(self,)', '''
        ensures r.0 == self.t, r.1 == self.y, r.2 == self.t_events, r.3 == self.y_events, r.4 == self.dense_segs   // [C03 C05 C08] payload.identity
''')
w.after("{ //~127", '''
    open spec fn inv(&self, calls: int, last_x: f64) -> bool {
        &&& self.wf()
        &&& (calls <= 0 ==> self.yold@.len() == 0 && self.t@.len() == 0 && self.next_idx == 0 && self.dense_segs@.len() == 0)
        &&& (calls > 0 ==> self.yold@.len() == self.y_mid_buf@.len())
    }
    open spec fn dim(&self) -> nat { self.y_mid_buf@.len() }
    open spec fn needs_interp(&self) -> bool { true }
''')
w.after('fn solout(&mut self, xold: Float, x: &mut Float', occ=1, text='''
        ensures
            final(y)@ == old(y)@ && *final(x) == *old(x),   // [C12 C19] frame.state_untouched
            r is Continue || r is Interrupt,   // [C12] frame.flags
            final(self).same_cfg(old(self)),   // [C12] frame.config
            Self::dense_post(final(self).dense_segs@, old(self).dense_segs@, old(self).collect_dense, *old(x), xold, interpolant),   // [C06 C12] dense.one_segment_per_step
            final(self).t_eval is Some ==> final(self).next_idx >= old(self).next_idx,   // [C05] teval.monotone
''')
w.after('{ //~134', '''
        proof { if vac(1) { assert(false); } }   // [vacuity] vac.solout_entry
        let ghost n = self.y_mid_buf@.len();
''')

FR = '''self.wf(), self.same_cfg(old(self)), n == self.y_mid_buf@.len(), y@.len() == n, *x == *old(x), y@ == old(y)@, n_events == self.ode.n_events_spec(),'''
w.before('impl<\'a, F: IVP> DefaultSolOut<\'a, F> {', '''
''')
w.after('    pub open spec fn same_cfg(&self, o: &Self) -> bool {', '''
''')
# extra spec fn same_data inside the spec impl: insert before its closing brace (the line after same_cfg body)
i = w.find('&&& self.event_config@ == o.event_config@ && self.y_mid_buf@.len() == o.y_mid_buf@.len()')
w.L[i+2:i+2] = '''    /// everything a callback may append to or overwrite, except the two scratch buffers of the root finder
    pub open spec fn same_data(&self, o: &Self) -> bool {
        &&& self.t@ == o.t@ && self.y@ == o.y@ && self.t_events@ == o.t_events@ && self.y_events@ == o.y_events@
        &&& self.event_hits@ == o.event_hits@ && self.prev_event@ == o.prev_event@ && self.yold@ == o.yold@
        &&& self.next_idx == o.next_idx && self.first_output_done == o.first_output_done && self.dense_segs@ == o.dense_segs@
        &&& self.g_curr_buf@ == o.g_curr_buf@
    }'''.split('\n')
w.after('let n_events = self.ode.n_events(); //~158', '''
        let ghost s0 = *self;     // after dense collection
        assert(Self::dense_post(s0.dense_segs@, old(self).dense_segs@, old(self).collect_dense, *old(x), xold, interpolant));
''')
w.after('self.ode.events(* x, y, &mut self.g_curr_buf); //~160', '''
            let ghost s1 = *self;     // after the event functions were evaluated
''')
w.after('fn crossed(left: Float, right: Float, dir: &Direction) -> (r: bool) //~168', '''
                    ensures r == crossed_spec(left, right, *dir)   // [C08 C09] crossed.spec
''')
w.after('for i in 0 .. n_events //~182', '''
                    invariant
                        ''' + FR + '''   // [C04 C12] solout.frame_inv
                        self.same_data(&s1), self.yold@.len() == n,   // [C12 C09] solout.scan_frame
                        interp_layout_ok((interpolant->Some_0).interp_fn, (interpolant->Some_0).cont@.len(), n),   // [C06] interp.layout_inv
                        n > 0, interpolant is Some,   // [C04] safety.interp_some
                        forall|k: int| 0 <= k < detected_events@.len() ==> (#[trigger] detected_events@[k]).1 < i && detected_events@[k].2@.len() == n,   // [C08] detect.shape
''')
w.after('for _it in 0 .. MAXITER //~210', '''
                                invariant
                                    ''' + FR + '''   // [C04 C12] solout.frame_inv
                                    self.same_data(&s1), self.yold@.len() == n, i < n_events,   // [C12 C09] solout.scan_frame
                                    interpolant is Some, interp_layout_ok((interpolant->Some_0).interp_fn, (interpolant->Some_0).cont@.len(), n),   // [C06] interp.layout_inv
''')

w.after('let forward = * x > xold; //~298', '''
                let ghost det0 = detected_events@;   // in detection order (event-function index ascending)
''')
w.before('for (event_t, i, event_y) in it: detected_events //~306', '''
                let ghost det = detected_events@;    // chronological
                let ghost (pp, qq) = choose|p: Seq<int>, q: Seq<int>| is_perm_of(det, det0, p, q);
                assert forall|k: int| 0 <= k < det.len() implies (#[trigger] det[k]).1 < n_events && det[k].2@.len() == n by { assert(det[k] == det0[pp[k]]); }
''')
w.after('for (event_t, i, event_y) in it: detected_events //~306', '''
                    invariant
                        ''' + FR + '''   // [C04 C12] solout.frame_inv
                        self.yold@.len() == n,   // [C04] safety.lens
                        it.snapshot@.remaining() == det, it.iter.remaining() == det.skip(it.index@), 0 <= it.index@ <= det.len(),   // [C04] detect.iteration
                        forall|k: int| 0 <= k < det.len() ==> (#[trigger] det[k]).1 < n_events && det[k].2@.len() == n,   // [C08] detect.shape
                        self.t@ == s1.t@, self.y@ == s1.y@, self.prev_event@ == s1.prev_event@, self.yold@ == s1.yold@, self.g_curr_buf@ == s1.g_curr_buf@,   // [C12 C10] process.frame
                        self.next_idx == s1.next_idx, self.first_output_done == s1.first_output_done, self.dense_segs@ == s0.dense_segs@,   // [C12] process.frame2
                        Self::dense_post(s0.dense_segs@, old(self).dense_segs@, old(self).collect_dense, *old(x), xold, interpolant),   // [C06 C12] dense.carried
                        tr.solout_calls == old(tr).solout_calls && tr.last_x == old(tr).last_x && tr.stopped == old(tr).stopped && tr.ode_calls == old(tr).ode_calls && tr.jac_calls == old(tr).jac_calls && tr.same_run(old(tr)),   // [C19] trace.untouched
''')
w.after('while i < t_eval.len() && (t_eval[i] - * x).abs() <= self.tol //~352', '''
                    invariant
                        self.wf(), self.same_cfg(old(self)), n == self.y_mid_buf@.len(), y@.len() == n, *x == *old(x), y@ == old(y)@,   // [C04 C12] solout.frame_inv
                        i <= t_eval@.len(), self.t_eval is Some && t_eval@ == self.t_eval->Some_0@, self.next_idx == old(self).next_idx, self.next_idx <= i,   // [C05] teval.scan
                        self.dense_segs@ == s0.dense_segs@, self.yold@ == y@,   // [C12] sample.frame
                    decreases t_eval@.len() - i,   // [C04] term.teval_initial
''')
for mark, nm in (('while i < t_eval.len() && t_eval[i] <= * x + self.tol //~364', 'fwd'), ('while i < t_eval.len() && t_eval[i] >= * x - self.tol //~375', 'bwd')):
    w.after(mark, '''
                        invariant
                            self.wf(), self.same_cfg(old(self)), n == self.y_mid_buf@.len(), y@.len() == n, *x == *old(x), y@ == old(y)@,   // [C04 C12] solout.frame_inv
                            i <= t_eval@.len(), self.t_eval is Some && t_eval@ == self.t_eval->Some_0@, self.next_idx == old(self).next_idx, self.next_idx <= i,   // [C05] teval.scan
                            self.dense_segs@ == s0.dense_segs@, self.yold@ == y@,   // [C12] sample.frame
                            interpolant is Some, interp_layout_ok((interpolant->Some_0).interp_fn, (interpolant->Some_0).cont@.len(), n),   // [C06] interp.layout_inv
                        decreases t_eval@.len() - i,   // [C04] term.teval_%s
''' % nm)

# ghost trace: the handler records its own callback on every return path
UPD = '''proof { tr.solout_calls = tr.solout_calls + 1; tr.last_x = *x; tr.stopped = %s; }   // [C19] trace.callback_recorded'''
w.before('return ControlFlag::Interrupt; //~323', '                            assert(self.wf());\n                            ' + UPD % 'true')
w.before('return ControlFlag::Continue; //~415', '                        ' + UPD % 'false')
w.before('return ControlFlag::Continue; //~418', '                        ' + UPD % 'false')
w.before('ControlFlag::Continue //~430', '        ' + UPD % 'false')
w.before('self.t_events[i].push(event_t); //~310', '''
                    assert(self.event_hits@[i as int] == self.t_events@[i as int]@.len());
''')
w.save()
