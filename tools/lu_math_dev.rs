use vstd::prelude::*;
verus! {
pub uninterp spec fn R(x: f64) -> real;
pub open spec fn rabs(a: real) -> real { if a >= 0real { a } else { 0real - a } }
pub struct Matrix { pub n: usize, pub m: usize }
impl Matrix { pub uninterp spec fn at(&self, i: int, j: int) -> f64; }

// ---------------------------------------------------------------- real-model linear algebra for DEC / SOL   [C16]
/// entry (i, j) of the dense view, as a real number
pub open spec fn ra(a: Matrix, i: int, j: int) -> real { R(a.at(i, j)) }
/// column j of an n-row matrix
pub open spec fn colv(a: Matrix, n: int, j: int) -> Seq<real> { Seq::new(n as nat, |i: int| ra(a, i, j)) }
pub open spec fn zerov(n: int) -> Seq<real> { Seq::new(n as nat, |i: int| 0real) }
pub open spec fn axpy(u: Seq<real>, c: real, v: Seq<real>) -> Seq<real> { Seq::new(u.len(), |i: int| u[i] + c * v[i]) }
pub open spec fn swapv(v: Seq<real>, k: int, m: int) -> Seq<real> { Seq::new(v.len(), |i: int| if i == k { v[m] } else if i == m { v[k] } else { v[i] }) }
/// one step of SOL's forward phase: interchange k <-> ip[k], then add (stored, negative) multiplier * pivot entry to the rows below
pub open spec fn fstep(l: Matrix, ip: Seq<usize>, k: int, v: Seq<real>) -> Seq<real> {
    let v1 = swapv(v, k, ip[k] as int);
    Seq::new(v.len(), |i: int| if i > k { v1[i] + ra(l, i, k) * v1[k] } else { v1[i] })
}
/// the first k steps of the forward phase
pub open spec fn fwd(l: Matrix, ip: Seq<usize>, k: nat, v: Seq<real>) -> Seq<real> decreases k {
    if k == 0 { v } else { fstep(l, ip, k - 1, fwd(l, ip, (k - 1) as nat, v)) }
}
pub open spec fn piv_ok(ip: Seq<usize>, n: int) -> bool { forall|k: int| 0 <= k < n - 1 ==> k <= #[trigger] ip[k] < n }

pub proof fn lemma_fwd_len(l: Matrix, ip: Seq<usize>, k: nat, v: Seq<real>)
    ensures fwd(l, ip, k, v).len() == v.len()
    decreases k
{ if k > 0 { lemma_fwd_len(l, ip, (k - 1) as nat, v); } }

/// fwd depends only on the multipliers below the diagonal in columns < k and on ip[0..k]
pub proof fn lemma_fwd_frame(l1: Matrix, l2: Matrix, ip1: Seq<usize>, ip2: Seq<usize>, k: nat, v: Seq<real>)
    requires forall|kk: int| 0 <= kk < k ==> ip1[kk] == ip2[kk],
        forall|i: int, kk: int| 0 <= kk < k && kk < i < v.len() ==> ra(l1, i, kk) == ra(l2, i, kk),
    ensures fwd(l1, ip1, k, v) == fwd(l2, ip2, k, v)
    decreases k
{
    if k > 0 {
        lemma_fwd_frame(l1, l2, ip1, ip2, (k - 1) as nat, v);
        lemma_fwd_len(l1, ip1, (k - 1) as nat, v);
        assert(fwd(l1, ip1, k, v) =~= fwd(l2, ip2, k, v));
    }
}

pub proof fn lemma_fstep_linear(l: Matrix, ip: Seq<usize>, k: int, u: Seq<real>, c: real, v: Seq<real>)
    requires u.len() == v.len(), 0 <= k < u.len(), k <= ip[k] < u.len()
    ensures fstep(l, ip, k, axpy(u, c, v)) == axpy(fstep(l, ip, k, u), c, fstep(l, ip, k, v))
{
    let m = ip[k] as int;
    let w = axpy(u, c, v);
    let lhs = fstep(l, ip, k, w);
    let rhs = axpy(fstep(l, ip, k, u), c, fstep(l, ip, k, v));
    assert forall|i: int| 0 <= i < u.len() implies lhs[i] == rhs[i] by {
        let u1 = swapv(u, k, m); let v1 = swapv(v, k, m); let w1 = swapv(w, k, m);
        assert(w1[i] == u1[i] + c * v1[i]);
        assert(w1[k] == u1[k] + c * v1[k]);
        if i > k {
            let a = ra(l, i, k);
            assert((u1[i] + c * v1[i]) + a * (u1[k] + c * v1[k]) == (u1[i] + a * u1[k]) + c * (v1[i] + a * v1[k])) by (nonlinear_arith);
        }
    }
    assert(lhs =~= rhs);
}

pub proof fn lemma_fwd_linear(l: Matrix, ip: Seq<usize>, k: nat, u: Seq<real>, c: real, v: Seq<real>)
    requires u.len() == v.len(), k <= u.len(), forall|kk: int| 0 <= kk < k ==> kk <= #[trigger] ip[kk] < u.len()
    ensures fwd(l, ip, k, axpy(u, c, v)) == axpy(fwd(l, ip, k, u), c, fwd(l, ip, k, v))
    decreases k
{
    if k > 0 {
        lemma_fwd_linear(l, ip, (k - 1) as nat, u, c, v);
        lemma_fwd_len(l, ip, (k - 1) as nat, u);
        lemma_fwd_len(l, ip, (k - 1) as nat, v);
        lemma_fstep_linear(l, ip, k - 1, fwd(l, ip, (k - 1) as nat, u), c, fwd(l, ip, (k - 1) as nat, v));
    }
}

pub proof fn lemma_fstep_inj(l: Matrix, ip: Seq<usize>, k: int, u: Seq<real>, v: Seq<real>)
    requires u.len() == v.len(), 0 <= k < u.len(), k <= ip[k] < u.len(), fstep(l, ip, k, u) == fstep(l, ip, k, v)
    ensures u == v
{
    let m = ip[k] as int;
    let u1 = swapv(u, k, m); let v1 = swapv(v, k, m);
    let fu = fstep(l, ip, k, u); let fv = fstep(l, ip, k, v);
    assert(fu[k] == u1[k] && fv[k] == v1[k]);
    assert forall|i: int| 0 <= i < u.len() implies u1[i] == v1[i] by {
        assert(fu[i] == fv[i]);
        assert(u1[k] == v1[k]);
        if i > k { assert(fu[i] == u1[i] + ra(l, i, k) * u1[k]); assert(fv[i] == v1[i] + ra(l, i, k) * v1[k]); }
        else { assert(fu[i] == u1[i]); assert(fv[i] == v1[i]); }
    }
    assert forall|i: int| 0 <= i < u.len() implies u[i] == v[i] by {
        if i == k { assert(u1[m] == v1[m]); } else if i == m { assert(u1[k] == v1[k]); } else { assert(u1[i] == v1[i]); }
    }
    assert(u =~= v);
}

pub proof fn lemma_fwd_inj(l: Matrix, ip: Seq<usize>, k: nat, u: Seq<real>, v: Seq<real>)
    requires u.len() == v.len(), k <= u.len(), forall|kk: int| 0 <= kk < k ==> kk <= #[trigger] ip[kk] < u.len(),
        fwd(l, ip, k, u) == fwd(l, ip, k, v)
    ensures u == v
    decreases k
{
    if k > 0 {
        lemma_fwd_len(l, ip, (k - 1) as nat, u);
        lemma_fwd_len(l, ip, (k - 1) as nat, v);
        lemma_fstep_inj(l, ip, k - 1, fwd(l, ip, (k - 1) as nat, u), fwd(l, ip, (k - 1) as nat, v));
        lemma_fwd_inj(l, ip, (k - 1) as nat, u, v);
    }
}

pub proof fn lemma_fwd_zero(l: Matrix, ip: Seq<usize>, k: nat, n: int)
    requires 0 <= k <= n, forall|kk: int| 0 <= kk < k ==> kk <= #[trigger] ip[kk] < n
    ensures fwd(l, ip, k, zerov(n)) == zerov(n)
    decreases k
{
    if k > 0 {
        lemma_fwd_zero(l, ip, (k - 1) as nat, n);
        let z = zerov(n);
        let f = fstep(l, ip, k - 1, z);
        assert forall|i: int| 0 <= i < n implies f[i] == 0real by {
            let z1 = swapv(z, k - 1, ip[k - 1] as int);
            assert(z1[i] == 0real && z1[k - 1] == 0real);
            assert(ra(l, i, k - 1) * 0real == 0real) by (nonlinear_arith);
        }
        assert(f =~= z);
    }
}

/// sum_{jj < j} x[jj] * column jj of a
pub open spec fn lincomb(a: Matrix, n: int, x: Seq<real>, j: nat) -> Seq<real> decreases j {
    if j == 0 { zerov(n) } else { axpy(lincomb(a, n, x, (j - 1) as nat), x[j - 1], colv(a, n, j - 1)) }
}
/// sum_{jj < j} x[jj] * fwd(column jj of a)
pub open spec fn lincomb_f(l: Matrix, ip: Seq<usize>, k: nat, a: Matrix, n: int, x: Seq<real>, j: nat) -> Seq<real> decreases j {
    if j == 0 { zerov(n) } else { axpy(lincomb_f(l, ip, k, a, n, x, (j - 1) as nat), x[j - 1], fwd(l, ip, k, colv(a, n, j - 1))) }
}
pub proof fn lemma_lincomb_len(a: Matrix, n: int, x: Seq<real>, j: nat)
    requires n >= 0 ensures lincomb(a, n, x, j).len() == n decreases j
{ if j > 0 { lemma_lincomb_len(a, n, x, (j - 1) as nat); } }
pub proof fn lemma_lincomb_f_len(l: Matrix, ip: Seq<usize>, k: nat, a: Matrix, n: int, x: Seq<real>, j: nat)
    requires n >= 0 ensures lincomb_f(l, ip, k, a, n, x, j).len() == n decreases j
{ if j > 0 { lemma_lincomb_f_len(l, ip, k, a, n, x, (j - 1) as nat); } }

pub proof fn lemma_fwd_lincomb(l: Matrix, ip: Seq<usize>, k: nat, a: Matrix, n: int, x: Seq<real>, j: nat)
    requires 0 <= k <= n, forall|kk: int| 0 <= kk < k ==> kk <= #[trigger] ip[kk] < n
    ensures fwd(l, ip, k, lincomb(a, n, x, j)) == lincomb_f(l, ip, k, a, n, x, j)
    decreases j
{
    if j == 0 { lemma_fwd_zero(l, ip, k, n); }
    else {
        lemma_fwd_lincomb(l, ip, k, a, n, x, (j - 1) as nat);
        lemma_lincomb_len(a, n, x, (j - 1) as nat);
        lemma_fwd_linear(l, ip, k, lincomb(a, n, x, (j - 1) as nat), x[j - 1], colv(a, n, j - 1));
    }
}

/// sum_{lo <= jj < hi} a[i][jj] * x[jj]
pub open spec fn rowsum(a: Matrix, x: Seq<real>, i: int, lo: int, hi: int) -> real decreases hi - lo {
    if hi <= lo { 0real } else { rowsum(a, x, i, lo, hi - 1) + ra(a, i, hi - 1) * x[hi - 1] }
}
/// the same over the upper triangle (incl. diagonal) of the factored matrix: row i of U times x
pub open spec fn ue(lu: Matrix, i: int, j: int) -> real { if i <= j { ra(lu, i, j) } else { 0real } }
pub open spec fn urow(lu: Matrix, x: Seq<real>, i: int, lo: int, hi: int) -> real decreases hi - lo {
    if hi <= lo { 0real } else { urow(lu, x, i, lo, hi - 1) + ue(lu, i, hi - 1) * x[hi - 1] }
}
/// column j of U (zeros below the diagonal)
pub open spec fn ucol(lu: Matrix, n: int, j: int) -> Seq<real> { Seq::new(n as nat, |i: int| ue(lu, i, j)) }

pub proof fn lemma_lincomb_entry(a: Matrix, n: int, x: Seq<real>, j: nat, i: int)
    requires 0 <= i < n
    ensures lincomb(a, n, x, j)[i] == rowsum(a, x, i, 0, j as int)
    decreases j
{
    if j > 0 {
        lemma_lincomb_entry(a, n, x, (j - 1) as nat, i);
        lemma_lincomb_len(a, n, x, (j - 1) as nat);
        assert(x[j - 1] * ra(a, i, j - 1) == ra(a, i, j - 1) * x[j - 1]) by (nonlinear_arith);
    }
}

/// what lu_decomp establishes: the forward phase maps every column of the original matrix to the column of U
pub open spec fn dec_post(a0: Matrix, lu: Matrix, ip: Seq<usize>, n: int) -> bool {
    forall|j: int| 0 <= j < n ==> fwd(lu, ip, (n - 1) as nat, #[trigger] colv(a0, n, j)) == ucol(lu, n, j)
}
/// what lin_solve establishes: U x = forward phase of the right-hand side, row by row
pub open spec fn sol_post(lu: Matrix, ip: Seq<usize>, n: int, b0: Seq<real>, x: Seq<real>) -> bool {
    forall|i: int| 0 <= i < n ==> #[trigger] urow(lu, x, i, 0, n) == fwd(lu, ip, (n - 1) as nat, b0)[i]
}

pub proof fn lemma_lincomb_f_entry(lu: Matrix, ip: Seq<usize>, a0: Matrix, n: int, x: Seq<real>, j: nat, i: int)
    requires 0 <= i < n, j <= n, dec_post(a0, lu, ip, n)
    ensures lincomb_f(lu, ip, (n - 1) as nat, a0, n, x, j)[i] == urow(lu, x, i, 0, j as int)
    decreases j
{
    if j > 0 {
        lemma_lincomb_f_entry(lu, ip, a0, n, x, (j - 1) as nat, i);
        lemma_lincomb_f_len(lu, ip, (n - 1) as nat, a0, n, x, (j - 1) as nat);
        assert(fwd(lu, ip, (n - 1) as nat, colv(a0, n, j - 1)) == ucol(lu, n, j - 1));
        assert(x[j - 1] * ue(lu, i, j - 1) == ue(lu, i, j - 1) * x[j - 1]) by (nonlinear_arith);
    }
}

/// THE THEOREM (exact arithmetic): factorise, then solve  ==>  A x = b     [C16]
pub proof fn lemma_lu_solve_correct(a0: Matrix, lu: Matrix, ip: Seq<usize>, n: int, b0: Seq<real>, x: Seq<real>)
    requires n >= 1, b0.len() == n, piv_ok(ip, n), dec_post(a0, lu, ip, n), sol_post(lu, ip, n, b0, x)
    ensures forall|i: int| 0 <= i < n ==> #[trigger] rowsum(a0, x, i, 0, n) == b0[i]
{
    let k = (n - 1) as nat;
    let s = lincomb(a0, n, x, n as nat);
    lemma_lincomb_len(a0, n, x, n as nat);
    lemma_fwd_lincomb(lu, ip, k, a0, n, x, n as nat);
    lemma_lincomb_f_len(lu, ip, k, a0, n, x, n as nat);
    lemma_fwd_len(lu, ip, k, b0);
    lemma_fwd_len(lu, ip, k, s);
    assert forall|i: int| 0 <= i < n implies fwd(lu, ip, k, s)[i] == fwd(lu, ip, k, b0)[i] by {
        lemma_lincomb_f_entry(lu, ip, a0, n, x, n as nat, i);
        assert(urow(lu, x, i, 0, n) == fwd(lu, ip, k, b0)[i]);
    }
    assert(fwd(lu, ip, k, s) =~= fwd(lu, ip, k, b0));
    lemma_fwd_inj(lu, ip, k, s, b0);
    assert forall|i: int| 0 <= i < n implies #[trigger] rowsum(a0, x, i, 0, n) == b0[i] by {
        lemma_lincomb_entry(a0, n, x, n as nat, i);
    }
}

/// the columns of the work matrix at the head of elimination step k: columns >= k are whole, columns < k keep U above
/// the diagonal (the multipliers stored below it stand for zeros)
pub open spec fn wcol(a: Matrix, n: int, k: int, j: int) -> Seq<real> {
    Seq::new(n as nat, |i: int| if j >= k || i <= j { ra(a, i, j) } else { 0real })
}
/// DEC's loop invariant: k forward steps map every column of the original matrix to the current column
pub open spec fn dec_inv(a0: Matrix, a: Matrix, ip: Seq<usize>, n: int, k: int) -> bool {
    forall|j: int| 0 <= j < n ==> fwd(a, ip, k as nat, #[trigger] colv(a0, n, j)) == wcol(a, n, k, j)
}
/// entry (i, j) after interchanging rows k and m
pub open spec fn sw(a: Matrix, k: int, m: int, i: int, j: int) -> real {
    if i == m { ra(a, k, j) } else if i == k { ra(a, m, j) } else { ra(a, i, j) }
}
/// what one pass of the outer loop does to the matrix (ak before, a1 after), entry by entry
pub open spec fn dec_step_rel(ak: Matrix, a1: Matrix, n: int, k: int, m: int) -> bool {
    &&& forall|i: int, j: int| 0 <= i < n && 0 <= j < n && (i < k || j < k) ==> #[trigger] ra(a1, i, j) == ra(ak, i, j)
    &&& forall|j: int| k <= j < n ==> #[trigger] ra(a1, k, j) == ra(ak, m, j)
    &&& forall|i: int| k < i < n ==> #[trigger] ra(a1, i, k) == 0real - sw(ak, k, m, i, k) * (1real / ra(ak, m, k))
    &&& forall|i: int, j: int| k < i < n && k < j < n ==> #[trigger] ra(a1, i, j) == sw(ak, k, m, i, j) + ra(a1, i, k) * ra(ak, m, j)
}
pub proof fn lemma_dec_step(a0: Matrix, ak: Matrix, a1: Matrix, ipk: Seq<usize>, ip1: Seq<usize>, n: int, k: int, m: int)
    requires 0 <= k < n - 1, k <= m < n, dec_inv(a0, ak, ipk, n, k), ip1[k] == m, forall|kk: int| 0 <= kk < k ==> ip1[kk] == ipk[kk],
        ra(ak, m, k) != 0real, dec_step_rel(ak, a1, n, k, m)
    ensures dec_inv(a0, a1, ip1, n, k + 1)
{
    let p = ra(ak, m, k);
    assert forall|j: int| 0 <= j < n implies fwd(a1, ip1, (k + 1) as nat, #[trigger] colv(a0, n, j)) == wcol(a1, n, k + 1, j) by {
        let c = colv(a0, n, j);
        lemma_fwd_frame(a1, ak, ip1, ipk, k as nat, c);
        let v = wcol(ak, n, k, j);
        assert(fwd(a1, ip1, k as nat, c) == v);
        let v1 = swapv(v, k, m);
        let f = fstep(a1, ip1, k, v);
        let t = wcol(a1, n, k + 1, j);
        assert forall|i: int| 0 <= i < n implies f[i] == t[i] by {
            if j > k {
                assert(v1[k] == ra(ak, m, j));
                assert(v1[i] == sw(ak, k, m, i, j));
            } else if j == k {
                assert(v1[k] == p);
                assert(v1[i] == sw(ak, k, m, i, k));
                if i > k {
                    let s = sw(ak, k, m, i, k);
                    assert(s + (0real - s * (1real / p)) * p == 0real) by (nonlinear_arith) requires p != 0real;
                }
            } else {
                assert(v[k] == 0real && v[m] == 0real);
                assert(v1[i] == v[i]);
                assert(ra(a1, i, k) * 0real == 0real) by (nonlinear_arith);
            }
        }
        assert(f =~= t);
    }
}

pub proof fn lemma_dec_init(a0: Matrix, ip: Seq<usize>, n: int)
    requires n >= 1 ensures dec_inv(a0, a0, ip, n, 0)
{
    assert forall|j: int| 0 <= j < n implies fwd(a0, ip, 0, #[trigger] colv(a0, n, j)) == wcol(a0, n, 0, j) by {
        assert(colv(a0, n, j) =~= wcol(a0, n, 0, j));
    }
}
pub proof fn lemma_dec_final(a0: Matrix, a: Matrix, ip: Seq<usize>, n: int)
    requires n >= 1, dec_inv(a0, a, ip, n, n - 1) ensures dec_post(a0, a, ip, n)
{
    assert forall|j: int| 0 <= j < n implies fwd(a, ip, (n - 1) as nat, #[trigger] colv(a0, n, j)) == ucol(a, n, j) by {
        assert(wcol(a, n, n - 1, j) =~= ucol(a, n, j));
    }
}
/// |s| <= |p|, p != 0  ==>  the stored multiplier -s * (1/p) has magnitude at most 1   [C16]
pub proof fn lemma_mult_le_one(s: real, p: real)
    requires p != 0real, rabs(s) <= rabs(p)
    ensures rabs(0real - s * (1real / p)) <= 1real
{
    let q = 1real / p;
    assert(q * p == 1real) by (nonlinear_arith) requires p != 0real, q == 1real / p;
    if p > 0real {
        assert(q > 0real) by (nonlinear_arith) requires q * p == 1real, p > 0real;
        assert(s * q <= p * q) by (nonlinear_arith) requires s <= p, q > 0real;
        assert((0real - p) * q <= s * q) by (nonlinear_arith) requires 0real - p <= s, q > 0real;
        assert((0real - p) * q == 0real - p * q) by (nonlinear_arith);
        assert(p * q == q * p) by (nonlinear_arith);
    } else {
        assert(q < 0real) by (nonlinear_arith) requires q * p == 1real, p < 0real;
        assert(s * q <= p * q) by (nonlinear_arith) requires s >= p, q < 0real;
        assert((0real - p) * q <= s * q) by (nonlinear_arith) requires 0real - p >= s, q < 0real;
        assert((0real - p) * q == 0real - p * q) by (nonlinear_arith);
        assert(p * q == q * p) by (nonlinear_arith);
    }
}
pub proof fn lemma_mul_zero_r(x: real, y: real) requires y == 0real ensures x * y == 0real { assert(x * 0real == 0real) by (nonlinear_arith); }
}
fn main() {}
