use vstd::prelude::*;
verus! {
pub uninterp spec fn R(x: f64) -> real;
pub struct Matrix { pub n: usize, pub m: usize }
impl Matrix { pub uninterp spec fn at(&self, i: int, j: int) -> f64; }
pub open spec fn piv_ok(ip: Seq<usize>, n: int) -> bool { forall|k: int| 0 <= k < n - 1 ==> k <= #[trigger] ip[k] < n }
// ---------------------------------------------------------------- real-model complex linear algebra for DECC / SOLC   [C16]
pub struct Cx { pub re: real, pub im: real }
pub open spec fn cz() -> Cx { Cx { re: 0real, im: 0real } }
pub open spec fn cone() -> Cx { Cx { re: 1real, im: 0real } }
pub open spec fn cadd(a: Cx, b: Cx) -> Cx { Cx { re: a.re + b.re, im: a.im + b.im } }
pub open spec fn csub(a: Cx, b: Cx) -> Cx { Cx { re: a.re - b.re, im: a.im - b.im } }
pub open spec fn cneg(a: Cx) -> Cx { Cx { re: 0real - a.re, im: 0real - a.im } }
pub open spec fn cmul(a: Cx, b: Cx) -> Cx { Cx { re: a.re * b.re - a.im * b.im, im: a.im * b.re + a.re * b.im } }
/// entry (i, j) of the complex matrix AR + i AI, as a pair of reals
pub open spec fn ca(ar: Matrix, ai: Matrix, i: int, j: int) -> Cx { Cx { re: R(ar.at(i, j)), im: R(ai.at(i, j)) } }

pub proof fn lemma_cmul_comm(a: Cx, b: Cx) ensures cmul(a, b) == cmul(b, a)
{
    assert(a.re * b.re == b.re * a.re) by (nonlinear_arith);
    assert(a.im * b.im == b.im * a.im) by (nonlinear_arith);
    assert(a.im * b.re == b.re * a.im) by (nonlinear_arith);
    assert(a.re * b.im == b.im * a.re) by (nonlinear_arith);
}
pub proof fn lemma_cmul_zero(a: Cx) ensures cmul(a, cz()) == cz()
{
    assert(a.re * 0real == 0real) by (nonlinear_arith);
    assert(a.im * 0real == 0real) by (nonlinear_arith);
}
pub proof fn lemma_r_dist(x: real, p: real, q: real) ensures x * (p + q) == x * p + x * q, x * (p - q) == x * p - x * q
{ assert(x * (p + q) == x * p + x * q) by (nonlinear_arith); assert(x * (p - q) == x * p - x * q) by (nonlinear_arith); }
pub proof fn lemma_r_mul3(x: real, y: real, z: real) ensures x * (y * z) == y * (x * z), x * (y * z) == (x * y) * z
{ assert(x * (y * z) == y * (x * z)) by (nonlinear_arith); assert(x * (y * z) == (x * y) * z) by (nonlinear_arith); }
pub proof fn lemma_cmul_dist(a: Cx, b: Cx, c: Cx) ensures cmul(a, cadd(b, c)) == cadd(cmul(a, b), cmul(a, c))
{
    lemma_r_dist(a.re, b.re, c.re); lemma_r_dist(a.im, b.im, c.im); lemma_r_dist(a.im, b.re, c.re); lemma_r_dist(a.re, b.im, c.im);
}
/// a (c v) == c (a v)
pub proof fn lemma_cmul_swap(a: Cx, c: Cx, v: Cx) ensures cmul(a, cmul(c, v)) == cmul(c, cmul(a, v))
{
    let cv = cmul(c, v); let av = cmul(a, v);
    lemma_r_dist(a.re, c.re * v.re, c.im * v.im); lemma_r_dist(a.im, c.im * v.re, c.re * v.im);
    lemma_r_dist(a.im, c.re * v.re, c.im * v.im); lemma_r_dist(a.re, c.im * v.re, c.re * v.im);
    lemma_r_dist(c.re, a.re * v.re, a.im * v.im); lemma_r_dist(c.im, a.im * v.re, a.re * v.im);
    lemma_r_dist(c.im, a.re * v.re, a.im * v.im); lemma_r_dist(c.re, a.im * v.re, a.re * v.im);
    lemma_r_mul3(a.re, c.re, v.re); lemma_r_mul3(a.re, c.im, v.im); lemma_r_mul3(a.im, c.im, v.re); lemma_r_mul3(a.im, c.re, v.im);
    lemma_r_mul3(a.im, c.re, v.re); lemma_r_mul3(a.im, c.im, v.im); lemma_r_mul3(a.re, c.im, v.re); lemma_r_mul3(a.re, c.re, v.im);
    assert(cmul(a, cv).re == cmul(c, av).re);
    assert(cmul(a, cv).im == cmul(c, av).im);
}
/// (u + c v) + a (uk + c vk) == (u + a uk) + c (v + a vk)
pub proof fn lemma_cx_linear(u: Cx, c: Cx, v: Cx, a: Cx, uk: Cx, vk: Cx)
    ensures cadd(cadd(u, cmul(c, v)), cmul(a, cadd(uk, cmul(c, vk)))) == cadd(cadd(u, cmul(a, uk)), cmul(c, cadd(v, cmul(a, vk))))
{
    lemma_cmul_dist(a, uk, cmul(c, vk));
    lemma_cmul_dist(c, v, cmul(a, vk));
    lemma_cmul_swap(a, c, vk);
}
pub proof fn lemma_cmul_neg(a: Cx, p: Cx) ensures cmul(cneg(a), p) == cneg(cmul(a, p))
{
    assert((0real - a.re) * p.re == 0real - a.re * p.re) by (nonlinear_arith);
    assert((0real - a.im) * p.im == 0real - a.im * p.im) by (nonlinear_arith);
    assert((0real - a.im) * p.re == 0real - a.im * p.re) by (nonlinear_arith);
    assert((0real - a.re) * p.im == 0real - a.re * p.im) by (nonlinear_arith);
}
pub proof fn lemma_cmul_one(a: Cx) ensures cmul(a, cone()) == a
{
    assert(a.re * 1real == a.re) by (nonlinear_arith); assert(a.im * 0real == 0real) by (nonlinear_arith);
    assert(a.im * 1real == a.im) by (nonlinear_arith); assert(a.re * 0real == 0real) by (nonlinear_arith);
}
/// s + (-(s q)) p == 0 when q p == 1
pub proof fn lemma_cx_eliminate(s: Cx, q: Cx, p: Cx)
    requires cmul(q, p) == cone()
    ensures cadd(s, cmul(cneg(cmul(s, q)), p)) == cz()
{
    lemma_cmul_neg(cmul(s, q), p);
    // (s q) p == p (s q) == s (p q) == s (q p)
    lemma_cmul_comm(cmul(s, q), p);
    lemma_cmul_swap(p, s, q);
    lemma_cmul_comm(p, q);
    lemma_cmul_one(s);
}
/// the reciprocal DECC stores: (pr/den, -pi/den) with den = pr^2 + pi^2
pub proof fn lemma_cx_recip(p: Cx, den: real, q: Cx)
    requires p != cz(), den == p.re * p.re + p.im * p.im, q.re == p.re / den, q.im == (0real - p.im) / den
    ensures den > 0real, cmul(q, p) == cone()
{
    assert(den > 0real) by (nonlinear_arith) requires den == p.re * p.re + p.im * p.im, p.re != 0real || p.im != 0real;
    assert(q.re * den == p.re) by (nonlinear_arith) requires q.re == p.re / den, den > 0real;
    assert(q.im * den == 0real - p.im) by (nonlinear_arith) requires q.im == (0real - p.im) / den, den > 0real;
    let e = cmul(q, p);
    assert(e.re * den == den) by (nonlinear_arith)
        requires e.re == q.re * p.re - q.im * p.im, q.re * den == p.re, q.im * den == 0real - p.im, den == p.re * p.re + p.im * p.im;
    assert(e.im * den == 0real) by (nonlinear_arith)
        requires e.im == q.im * p.re + q.re * p.im, q.re * den == p.re, q.im * den == 0real - p.im;
    assert(e.re == 1real) by (nonlinear_arith) requires e.re * den == den, den > 0real;
    assert(e.im == 0real) by (nonlinear_arith) requires e.im * den == 0real, den > 0real;
}
/// the complex division SOLC performs: x = b conj(d) / |d|^2  ==>  d x == b
pub proof fn lemma_cx_div(b: Cx, d: Cx, den: real, x: Cx)
    requires d != cz(), den == d.re * d.re + d.im * d.im, x.re == (b.re * d.re + b.im * d.im) / den, x.im == (b.im * d.re - b.re * d.im) / den
    ensures cmul(d, x) == b
{
    assert(den > 0real) by (nonlinear_arith) requires den == d.re * d.re + d.im * d.im, d.re != 0real || d.im != 0real;
    assert(x.re * den == b.re * d.re + b.im * d.im) by (nonlinear_arith) requires x.re == (b.re * d.re + b.im * d.im) / den, den > 0real;
    assert(x.im * den == b.im * d.re - b.re * d.im) by (nonlinear_arith) requires x.im == (b.im * d.re - b.re * d.im) / den, den > 0real;
    let e = cmul(d, x);
    assert(e.re * den == b.re * den) by (nonlinear_arith)
        requires e.re == d.re * x.re - d.im * x.im, x.re * den == b.re * d.re + b.im * d.im, x.im * den == b.im * d.re - b.re * d.im, den == d.re * d.re + d.im * d.im;
    assert(e.im * den == b.im * den) by (nonlinear_arith)
        requires e.im == d.im * x.re + d.re * x.im, x.re * den == b.re * d.re + b.im * d.im, x.im * den == b.im * d.re - b.re * d.im, den == d.re * d.re + d.im * d.im;
    assert(e.re == b.re) by (nonlinear_arith) requires e.re * den == b.re * den, den > 0real;
    assert(e.im == b.im) by (nonlinear_arith) requires e.im * den == b.im * den, den > 0real;
}

pub open spec fn ccolv(ar: Matrix, ai: Matrix, n: int, j: int) -> Seq<Cx> { Seq::new(n as nat, |i: int| ca(ar, ai, i, j)) }
pub open spec fn czerov(n: int) -> Seq<Cx> { Seq::new(n as nat, |i: int| cz()) }
pub open spec fn caxpy(u: Seq<Cx>, c: Cx, v: Seq<Cx>) -> Seq<Cx> { Seq::new(u.len(), |i: int| cadd(u[i], cmul(c, v[i]))) }
pub open spec fn cswapv(v: Seq<Cx>, k: int, m: int) -> Seq<Cx> { Seq::new(v.len(), |i: int| if i == k { v[m] } else if i == m { v[k] } else { v[i] }) }
/// one step of SOLC's forward phase
pub open spec fn cfstep(lr: Matrix, li: Matrix, ip: Seq<usize>, k: int, v: Seq<Cx>) -> Seq<Cx> {
    let v1 = cswapv(v, k, ip[k] as int);
    Seq::new(v.len(), |i: int| if i > k { cadd(v1[i], cmul(ca(lr, li, i, k), v1[k])) } else { v1[i] })
}
pub open spec fn cfwd(lr: Matrix, li: Matrix, ip: Seq<usize>, k: nat, v: Seq<Cx>) -> Seq<Cx> decreases k {
    if k == 0 { v } else { cfstep(lr, li, ip, k - 1, cfwd(lr, li, ip, (k - 1) as nat, v)) }
}
pub proof fn lemma_cfwd_len(lr: Matrix, li: Matrix, ip: Seq<usize>, k: nat, v: Seq<Cx>)
    ensures cfwd(lr, li, ip, k, v).len() == v.len()
    decreases k
{ if k > 0 { lemma_cfwd_len(lr, li, ip, (k - 1) as nat, v); } }

pub proof fn lemma_cfwd_frame(l1r: Matrix, l1i: Matrix, l2r: Matrix, l2i: Matrix, ip1: Seq<usize>, ip2: Seq<usize>, k: nat, v: Seq<Cx>)
    requires forall|kk: int| 0 <= kk < k ==> ip1[kk] == ip2[kk],
        forall|i: int, kk: int| 0 <= kk < k && kk < i < v.len() ==> ca(l1r, l1i, i, kk) == ca(l2r, l2i, i, kk),
    ensures cfwd(l1r, l1i, ip1, k, v) == cfwd(l2r, l2i, ip2, k, v)
    decreases k
{
    if k > 0 {
        lemma_cfwd_frame(l1r, l1i, l2r, l2i, ip1, ip2, (k - 1) as nat, v);
        lemma_cfwd_len(l1r, l1i, ip1, (k - 1) as nat, v);
        assert(cfwd(l1r, l1i, ip1, k, v) =~= cfwd(l2r, l2i, ip2, k, v));
    }
}

pub proof fn lemma_cfstep_linear(lr: Matrix, li: Matrix, ip: Seq<usize>, k: int, u: Seq<Cx>, c: Cx, v: Seq<Cx>)
    requires u.len() == v.len(), 0 <= k < u.len(), k <= ip[k] < u.len()
    ensures cfstep(lr, li, ip, k, caxpy(u, c, v)) == caxpy(cfstep(lr, li, ip, k, u), c, cfstep(lr, li, ip, k, v))
{
    let m = ip[k] as int;
    let w = caxpy(u, c, v);
    let lhs = cfstep(lr, li, ip, k, w);
    let rhs = caxpy(cfstep(lr, li, ip, k, u), c, cfstep(lr, li, ip, k, v));
    assert forall|i: int| 0 <= i < u.len() implies lhs[i] == rhs[i] by {
        let u1 = cswapv(u, k, m); let v1 = cswapv(v, k, m); let w1 = cswapv(w, k, m);
        assert(w1[i] == cadd(u1[i], cmul(c, v1[i])));
        assert(w1[k] == cadd(u1[k], cmul(c, v1[k])));
        if i > k { lemma_cx_linear(u1[i], c, v1[i], ca(lr, li, i, k), u1[k], v1[k]); }
    }
    assert(lhs =~= rhs);
}

pub proof fn lemma_cfwd_linear(lr: Matrix, li: Matrix, ip: Seq<usize>, k: nat, u: Seq<Cx>, c: Cx, v: Seq<Cx>)
    requires u.len() == v.len(), k <= u.len(), forall|kk: int| 0 <= kk < k ==> kk <= #[trigger] ip[kk] < u.len()
    ensures cfwd(lr, li, ip, k, caxpy(u, c, v)) == caxpy(cfwd(lr, li, ip, k, u), c, cfwd(lr, li, ip, k, v))
    decreases k
{
    if k > 0 {
        lemma_cfwd_linear(lr, li, ip, (k - 1) as nat, u, c, v);
        lemma_cfwd_len(lr, li, ip, (k - 1) as nat, u);
        lemma_cfwd_len(lr, li, ip, (k - 1) as nat, v);
        lemma_cfstep_linear(lr, li, ip, k - 1, cfwd(lr, li, ip, (k - 1) as nat, u), c, cfwd(lr, li, ip, (k - 1) as nat, v));
    }
}

pub proof fn lemma_cfstep_inj(lr: Matrix, li: Matrix, ip: Seq<usize>, k: int, u: Seq<Cx>, v: Seq<Cx>)
    requires u.len() == v.len(), 0 <= k < u.len(), k <= ip[k] < u.len(), cfstep(lr, li, ip, k, u) == cfstep(lr, li, ip, k, v)
    ensures u == v
{
    let m = ip[k] as int;
    let u1 = cswapv(u, k, m); let v1 = cswapv(v, k, m);
    let fu = cfstep(lr, li, ip, k, u); let fv = cfstep(lr, li, ip, k, v);
    assert(fu[k] == u1[k] && fv[k] == v1[k]);
    assert forall|i: int| 0 <= i < u.len() implies u1[i] == v1[i] by {
        assert(fu[i] == fv[i]);
        assert(u1[k] == v1[k]);
        if i > k {
            let t = cmul(ca(lr, li, i, k), u1[k]);
            assert(fu[i] == cadd(u1[i], t)); assert(fv[i] == cadd(v1[i], t));
            assert(u1[i].re == v1[i].re && u1[i].im == v1[i].im);
        }
        else { assert(fu[i] == u1[i]); assert(fv[i] == v1[i]); }
    }
    assert forall|i: int| 0 <= i < u.len() implies u[i] == v[i] by {
        if i == k { assert(u1[m] == v1[m]); } else if i == m { assert(u1[k] == v1[k]); } else { assert(u1[i] == v1[i]); }
    }
    assert(u =~= v);
}

pub proof fn lemma_cfwd_inj(lr: Matrix, li: Matrix, ip: Seq<usize>, k: nat, u: Seq<Cx>, v: Seq<Cx>)
    requires u.len() == v.len(), k <= u.len(), forall|kk: int| 0 <= kk < k ==> kk <= #[trigger] ip[kk] < u.len(),
        cfwd(lr, li, ip, k, u) == cfwd(lr, li, ip, k, v)
    ensures u == v
    decreases k
{
    if k > 0 {
        lemma_cfwd_len(lr, li, ip, (k - 1) as nat, u);
        lemma_cfwd_len(lr, li, ip, (k - 1) as nat, v);
        lemma_cfstep_inj(lr, li, ip, k - 1, cfwd(lr, li, ip, (k - 1) as nat, u), cfwd(lr, li, ip, (k - 1) as nat, v));
        lemma_cfwd_inj(lr, li, ip, (k - 1) as nat, u, v);
    }
}

pub proof fn lemma_cfwd_zero(lr: Matrix, li: Matrix, ip: Seq<usize>, k: nat, n: int)
    requires 0 <= k <= n, forall|kk: int| 0 <= kk < k ==> kk <= #[trigger] ip[kk] < n
    ensures cfwd(lr, li, ip, k, czerov(n)) == czerov(n)
    decreases k
{
    if k > 0 {
        lemma_cfwd_zero(lr, li, ip, (k - 1) as nat, n);
        let z = czerov(n);
        let f = cfstep(lr, li, ip, k - 1, z);
        assert forall|i: int| 0 <= i < n implies f[i] == cz() by {
            let z1 = cswapv(z, k - 1, ip[k - 1] as int);
            assert(z1[i] == cz() && z1[k - 1] == cz());
            lemma_cmul_zero(ca(lr, li, i, k - 1));
        }
        assert(f =~= z);
    }
}

pub open spec fn clincomb(ar: Matrix, ai: Matrix, n: int, x: Seq<Cx>, j: nat) -> Seq<Cx> decreases j {
    if j == 0 { czerov(n) } else { caxpy(clincomb(ar, ai, n, x, (j - 1) as nat), x[j - 1], ccolv(ar, ai, n, j - 1)) }
}
pub open spec fn clincomb_f(lr: Matrix, li: Matrix, ip: Seq<usize>, k: nat, ar: Matrix, ai: Matrix, n: int, x: Seq<Cx>, j: nat) -> Seq<Cx> decreases j {
    if j == 0 { czerov(n) } else { caxpy(clincomb_f(lr, li, ip, k, ar, ai, n, x, (j - 1) as nat), x[j - 1], cfwd(lr, li, ip, k, ccolv(ar, ai, n, j - 1))) }
}
pub proof fn lemma_clincomb_len(ar: Matrix, ai: Matrix, n: int, x: Seq<Cx>, j: nat)
    requires n >= 0 ensures clincomb(ar, ai, n, x, j).len() == n decreases j
{ if j > 0 { lemma_clincomb_len(ar, ai, n, x, (j - 1) as nat); } }
pub proof fn lemma_clincomb_f_len(lr: Matrix, li: Matrix, ip: Seq<usize>, k: nat, ar: Matrix, ai: Matrix, n: int, x: Seq<Cx>, j: nat)
    requires n >= 0 ensures clincomb_f(lr, li, ip, k, ar, ai, n, x, j).len() == n decreases j
{ if j > 0 { lemma_clincomb_f_len(lr, li, ip, k, ar, ai, n, x, (j - 1) as nat); } }

pub proof fn lemma_cfwd_lincomb(lr: Matrix, li: Matrix, ip: Seq<usize>, k: nat, ar: Matrix, ai: Matrix, n: int, x: Seq<Cx>, j: nat)
    requires 0 <= k <= n, forall|kk: int| 0 <= kk < k ==> kk <= #[trigger] ip[kk] < n
    ensures cfwd(lr, li, ip, k, clincomb(ar, ai, n, x, j)) == clincomb_f(lr, li, ip, k, ar, ai, n, x, j)
    decreases j
{
    if j == 0 { lemma_cfwd_zero(lr, li, ip, k, n); }
    else {
        lemma_cfwd_lincomb(lr, li, ip, k, ar, ai, n, x, (j - 1) as nat);
        lemma_clincomb_len(ar, ai, n, x, (j - 1) as nat);
        lemma_cfwd_linear(lr, li, ip, k, clincomb(ar, ai, n, x, (j - 1) as nat), x[j - 1], ccolv(ar, ai, n, j - 1));
    }
}

/// sum_{lo <= jj < hi} a[i][jj] * x[jj]
pub open spec fn crowsum(ar: Matrix, ai: Matrix, x: Seq<Cx>, i: int, lo: int, hi: int) -> Cx decreases hi - lo {
    if hi <= lo { cz() } else { cadd(crowsum(ar, ai, x, i, lo, hi - 1), cmul(ca(ar, ai, i, hi - 1), x[hi - 1])) }
}
pub open spec fn cue(lr: Matrix, li: Matrix, i: int, j: int) -> Cx { if i <= j { ca(lr, li, i, j) } else { cz() } }
pub open spec fn curow(lr: Matrix, li: Matrix, x: Seq<Cx>, i: int, lo: int, hi: int) -> Cx decreases hi - lo {
    if hi <= lo { cz() } else { cadd(curow(lr, li, x, i, lo, hi - 1), cmul(cue(lr, li, i, hi - 1), x[hi - 1])) }
}
pub open spec fn cucol(lr: Matrix, li: Matrix, n: int, j: int) -> Seq<Cx> { Seq::new(n as nat, |i: int| cue(lr, li, i, j)) }

pub proof fn lemma_clincomb_entry(ar: Matrix, ai: Matrix, n: int, x: Seq<Cx>, j: nat, i: int)
    requires 0 <= i < n
    ensures clincomb(ar, ai, n, x, j)[i] == crowsum(ar, ai, x, i, 0, j as int)
    decreases j
{
    if j > 0 {
        lemma_clincomb_entry(ar, ai, n, x, (j - 1) as nat, i);
        lemma_clincomb_len(ar, ai, n, x, (j - 1) as nat);
        lemma_cmul_comm(x[j - 1], ca(ar, ai, i, j - 1));
    }
}

pub open spec fn cdec_post(a0r: Matrix, a0i: Matrix, lr: Matrix, li: Matrix, ip: Seq<usize>, n: int) -> bool {
    forall|j: int| 0 <= j < n ==> cfwd(lr, li, ip, (n - 1) as nat, #[trigger] ccolv(a0r, a0i, n, j)) == cucol(lr, li, n, j)
}
pub open spec fn csol_post(lr: Matrix, li: Matrix, ip: Seq<usize>, n: int, b0: Seq<Cx>, x: Seq<Cx>) -> bool {
    forall|i: int| 0 <= i < n ==> #[trigger] curow(lr, li, x, i, 0, n) == cfwd(lr, li, ip, (n - 1) as nat, b0)[i]
}

pub proof fn lemma_clincomb_f_entry(lr: Matrix, li: Matrix, ip: Seq<usize>, a0r: Matrix, a0i: Matrix, n: int, x: Seq<Cx>, j: nat, i: int)
    requires 0 <= i < n, j <= n, cdec_post(a0r, a0i, lr, li, ip, n)
    ensures clincomb_f(lr, li, ip, (n - 1) as nat, a0r, a0i, n, x, j)[i] == curow(lr, li, x, i, 0, j as int)
    decreases j
{
    if j > 0 {
        lemma_clincomb_f_entry(lr, li, ip, a0r, a0i, n, x, (j - 1) as nat, i);
        lemma_clincomb_f_len(lr, li, ip, (n - 1) as nat, a0r, a0i, n, x, (j - 1) as nat);
        assert(cfwd(lr, li, ip, (n - 1) as nat, ccolv(a0r, a0i, n, j - 1)) == cucol(lr, li, n, j - 1));
        lemma_cmul_comm(x[j - 1], cue(lr, li, i, j - 1));
    }
}

/// THE THEOREM (exact arithmetic, complex): factorise, then solve  ==>  (AR + i AI) x = b     [C16]
pub proof fn lemma_clu_solve_correct(a0r: Matrix, a0i: Matrix, lr: Matrix, li: Matrix, ip: Seq<usize>, n: int, b0: Seq<Cx>, x: Seq<Cx>)
    requires n >= 1, b0.len() == n, piv_ok(ip, n), cdec_post(a0r, a0i, lr, li, ip, n), csol_post(lr, li, ip, n, b0, x)
    ensures forall|i: int| 0 <= i < n ==> #[trigger] crowsum(a0r, a0i, x, i, 0, n) == b0[i]
{
    let k = (n - 1) as nat;
    let s = clincomb(a0r, a0i, n, x, n as nat);
    lemma_clincomb_len(a0r, a0i, n, x, n as nat);
    lemma_cfwd_lincomb(lr, li, ip, k, a0r, a0i, n, x, n as nat);
    lemma_clincomb_f_len(lr, li, ip, k, a0r, a0i, n, x, n as nat);
    lemma_cfwd_len(lr, li, ip, k, b0);
    lemma_cfwd_len(lr, li, ip, k, s);
    assert forall|i: int| 0 <= i < n implies cfwd(lr, li, ip, k, s)[i] == cfwd(lr, li, ip, k, b0)[i] by {
        lemma_clincomb_f_entry(lr, li, ip, a0r, a0i, n, x, n as nat, i);
        assert(curow(lr, li, x, i, 0, n) == cfwd(lr, li, ip, k, b0)[i]);
    }
    assert(cfwd(lr, li, ip, k, s) =~= cfwd(lr, li, ip, k, b0));
    lemma_cfwd_inj(lr, li, ip, k, s, b0);
    assert forall|i: int| 0 <= i < n implies #[trigger] crowsum(a0r, a0i, x, i, 0, n) == b0[i] by {
        lemma_clincomb_entry(a0r, a0i, n, x, n as nat, i);
    }
}

pub open spec fn cwcol(ar: Matrix, ai: Matrix, n: int, k: int, j: int) -> Seq<Cx> {
    Seq::new(n as nat, |i: int| if j >= k || i <= j { ca(ar, ai, i, j) } else { cz() })
}
pub open spec fn cdec_inv(a0r: Matrix, a0i: Matrix, ar: Matrix, ai: Matrix, ip: Seq<usize>, n: int, k: int) -> bool {
    forall|j: int| 0 <= j < n ==> cfwd(ar, ai, ip, k as nat, #[trigger] ccolv(a0r, a0i, n, j)) == cwcol(ar, ai, n, k, j)
}
pub open spec fn csw(ar: Matrix, ai: Matrix, k: int, m: int, i: int, j: int) -> Cx {
    if i == m { ca(ar, ai, k, j) } else if i == k { ca(ar, ai, m, j) } else { ca(ar, ai, i, j) }
}
/// what one pass of DECC's outer loop does to the matrix (ak before, a1 after), entry by entry; q is the stored reciprocal of the pivot
pub open spec fn cdec_step_rel(akr: Matrix, aki: Matrix, a1r: Matrix, a1i: Matrix, n: int, k: int, m: int, q: Cx) -> bool {
    &&& forall|i: int, j: int| 0 <= i < n && 0 <= j < n && (i < k || j < k) ==> #[trigger] ca(a1r, a1i, i, j) == ca(akr, aki, i, j)
    &&& forall|j: int| k <= j < n ==> #[trigger] ca(a1r, a1i, k, j) == ca(akr, aki, m, j)
    &&& forall|i: int| k < i < n ==> #[trigger] ca(a1r, a1i, i, k) == cneg(cmul(csw(akr, aki, k, m, i, k), q))
    &&& forall|i: int, j: int| k < i < n && k < j < n ==> #[trigger] ca(a1r, a1i, i, j) == cadd(csw(akr, aki, k, m, i, j), cmul(ca(a1r, a1i, i, k), ca(akr, aki, m, j)))
}
pub proof fn lemma_cdec_step(a0r: Matrix, a0i: Matrix, akr: Matrix, aki: Matrix, a1r: Matrix, a1i: Matrix, ipk: Seq<usize>, ip1: Seq<usize>, n: int, k: int, m: int, q: Cx)
    requires 0 <= k < n - 1, k <= m < n, cdec_inv(a0r, a0i, akr, aki, ipk, n, k), ip1[k] == m, forall|kk: int| 0 <= kk < k ==> ip1[kk] == ipk[kk],
        cmul(q, ca(akr, aki, m, k)) == cone(), cdec_step_rel(akr, aki, a1r, a1i, n, k, m, q)
    ensures cdec_inv(a0r, a0i, a1r, a1i, ip1, n, k + 1)
{
    let p = ca(akr, aki, m, k);
    assert forall|j: int| 0 <= j < n implies cfwd(a1r, a1i, ip1, (k + 1) as nat, #[trigger] ccolv(a0r, a0i, n, j)) == cwcol(a1r, a1i, n, k + 1, j) by {
        let c = ccolv(a0r, a0i, n, j);
        lemma_cfwd_frame(a1r, a1i, akr, aki, ip1, ipk, k as nat, c);
        let v = cwcol(akr, aki, n, k, j);
        assert(cfwd(a1r, a1i, ip1, k as nat, c) == v);
        let v1 = cswapv(v, k, m);
        let f = cfstep(a1r, a1i, ip1, k, v);
        let t = cwcol(a1r, a1i, n, k + 1, j);
        assert forall|i: int| 0 <= i < n implies f[i] == t[i] by {
            if j > k {
                assert(v1[k] == ca(akr, aki, m, j));
                assert(v1[i] == csw(akr, aki, k, m, i, j));
            } else if j == k {
                assert(v1[k] == p);
                assert(v1[i] == csw(akr, aki, k, m, i, k));
                if i > k { lemma_cx_eliminate(csw(akr, aki, k, m, i, k), q, p); }
            } else {
                assert(v[k] == cz() && v[m] == cz());
                assert(v1[i] == v[i]);
                lemma_cmul_zero(ca(a1r, a1i, i, k));
            }
        }
        assert(f =~= t);
    }
}
pub proof fn lemma_cdec_init(a0r: Matrix, a0i: Matrix, ip: Seq<usize>, n: int)
    requires n >= 1 ensures cdec_inv(a0r, a0i, a0r, a0i, ip, n, 0)
{
    assert forall|j: int| 0 <= j < n implies cfwd(a0r, a0i, ip, 0, #[trigger] ccolv(a0r, a0i, n, j)) == cwcol(a0r, a0i, n, 0, j) by {
        assert(ccolv(a0r, a0i, n, j) =~= cwcol(a0r, a0i, n, 0, j));
    }
}
pub proof fn lemma_cdec_final(a0r: Matrix, a0i: Matrix, ar: Matrix, ai: Matrix, ip: Seq<usize>, n: int)
    requires n >= 1, cdec_inv(a0r, a0i, ar, ai, ip, n, n - 1) ensures cdec_post(a0r, a0i, ar, ai, ip, n)
{
    assert forall|j: int| 0 <= j < n implies cfwd(ar, ai, ip, (n - 1) as nat, #[trigger] ccolv(a0r, a0i, n, j)) == cucol(ar, ai, n, j) by {
        assert(cwcol(ar, ai, n, n - 1, j) =~= cucol(ar, ai, n, j));
    }
}
/// the first n entries of a pair of f64 slices as complex numbers
pub open spec fn crv(br: Seq<f64>, bi: Seq<f64>, n: int) -> Seq<Cx> { Seq::new(n as nat, |i: int| Cx { re: R(br[i]), im: R(bi[i]) }) }
pub proof fn lemma_curow_split(lr: Matrix, li: Matrix, x: Seq<Cx>, i: int, lo: int, mid: int, hi: int)
    requires lo <= mid <= hi
    ensures curow(lr, li, x, i, lo, hi) == cadd(curow(lr, li, x, i, lo, mid), curow(lr, li, x, i, mid, hi))
    decreases hi - mid
{
    if hi > mid {
        lemma_curow_split(lr, li, x, i, lo, mid, hi - 1);
        let a = curow(lr, li, x, i, lo, mid); let b = curow(lr, li, x, i, mid, hi - 1); let c = cmul(cue(lr, li, i, hi - 1), x[hi - 1]);
        assert(cadd(cadd(a, b), c) == cadd(a, cadd(b, c)));
    } else {
        assert(cadd(curow(lr, li, x, i, lo, mid), cz()) == curow(lr, li, x, i, lo, mid));
    }
}
pub proof fn lemma_curow_front(lr: Matrix, li: Matrix, x: Seq<Cx>, i: int, lo: int, hi: int)
    requires lo < hi
    ensures curow(lr, li, x, i, lo, hi) == cadd(cmul(cue(lr, li, i, lo), x[lo]), curow(lr, li, x, i, lo + 1, hi))
{
    lemma_curow_split(lr, li, x, i, lo, lo + 1, hi);
    assert(curow(lr, li, x, i, lo, lo + 1) == cadd(curow(lr, li, x, i, lo, lo), cmul(cue(lr, li, i, lo), x[lo])));
    assert(cadd(cz(), cmul(cue(lr, li, i, lo), x[lo])) == cmul(cue(lr, li, i, lo), x[lo]));
}
pub proof fn lemma_curow_frame(lr: Matrix, li: Matrix, x1: Seq<Cx>, x2: Seq<Cx>, i: int, lo: int, hi: int)
    requires forall|j: int| lo <= j < hi ==> x1[j] == x2[j]
    ensures curow(lr, li, x1, i, lo, hi) == curow(lr, li, x2, i, lo, hi)
    decreases hi - lo
{ if hi > lo { lemma_curow_frame(lr, li, x1, x2, i, lo, hi - 1); } }
pub proof fn lemma_curow_frame_all(lr: Matrix, li: Matrix, x1: Seq<Cx>, x2: Seq<Cx>, lo: int, hi: int)
    requires forall|j: int| lo <= j < hi ==> x1[j] == x2[j]
    ensures forall|i: int| #[trigger] curow(lr, li, x1, i, lo, hi) == curow(lr, li, x2, i, lo, hi)
{ assert forall|i: int| #[trigger] curow(lr, li, x1, i, lo, hi) == curow(lr, li, x2, i, lo, hi) by { lemma_curow_frame(lr, li, x1, x2, i, lo, hi); } }
pub proof fn lemma_curow_lower_zero(lr: Matrix, li: Matrix, x: Seq<Cx>, i: int, hi: int)
    requires hi <= i
    ensures curow(lr, li, x, i, 0, hi) == cz()
    decreases hi
{ if hi > 0 { lemma_curow_lower_zero(lr, li, x, i, hi - 1); lemma_cmul_comm(cz(), x[hi - 1]); lemma_cmul_zero(x[hi - 1]); } }
}
fn main() {}
