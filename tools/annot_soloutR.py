import sys, re; sys.path.insert(0, '/verif/tools')
from annot import Work
w = Work('/verif/work/solout_R.rs')
# ---- vocabulary (before the spec impl)
w.before('impl<\'a, F: IVP> DefaultSolOut<\'a, F> {', '''
/// how far a lies beyond b in the direction of integration (exact arithmetic)   [C05]
pub open spec fn ahead(tr: &Trace, a: f64, b: f64) -> real { if R(tr.xend) > R(tr.x0) { R(a) - R(b) } else { R(b) - R(a) } }
/// hypotheses of C05 on the requested times: sorted in the direction of integration and inside the span
pub open spec fn teval_sorted_in_span(te: Seq<f64>, tr: &Trace) -> bool {
    &&& forall|a: int, b: int| 0 <= a <= b < te.len() ==> ahead(tr, #[trigger] te[b], #[trigger] te[a]) >= 0real
    &&& forall|a: int| 0 <= a < te.len() ==> in_span(tr.x0, tr.xend, #[trigger] te[a])
}
''')
w.before('    /// what one callback may do to the collected dense segments', '''
    /// J: in t_eval mode and while no terminal event has stopped the run, the reported times are exactly the requested
    /// times that are not beyond the current point -- bit for bit, in order, none skipped   [C05]
    pub open spec fn teval_j(&self, tr: &Trace) -> bool {
        self.t_eval is Some ==> {
            let te = self.t_eval->Some_0@;
            &&& self.t@ == te.take(self.next_idx as int)
            &&& (tr.solout_calls > 0 ==> forall|j: int| 0 <= j < self.next_idx ==> ahead(tr, #[trigger] te[j], tr.last_x) <= R(self.tol))
            &&& (tr.solout_calls > 0 && self.next_idx < te.len() ==> ahead(tr, te[self.next_idx as int], tr.last_x) > 0real)
        }
    }
    /// at Success the run has reached xend, so every requested time has been reported: t == t_eval   [C05]
    pub proof fn lemma_success_reports_exactly_t_eval(&self, tr: &Trace)
        requires self.inv(tr), !tr.stopped, tr.solout_calls > 0, R(tr.last_x) == R(tr.xend), self.t_eval is Some,
        ensures self.t@ == self.t_eval->Some_0@   // [C05] teval.success_reports_exactly_the_requested_times
    {
        let te = self.t_eval->Some_0@;
        if self.next_idx < te.len() {
            assert(in_span(tr.x0, tr.xend, te[self.next_idx as int]));
            assert(ahead(tr, te[self.next_idx as int], tr.last_x) <= 0real);
        }
        assert(te.take(te.len() as int) =~= te);
    }
''')
# ---- inv
w.after('        &&& (calls > 0 ==> self.yold@.len() == self.y_mid_buf@.len())', '''
        &&& R(tr.xend) != R(tr.x0) && R(self.tol) > 0real
        &&& (self.t_eval is Some ==> teval_sorted_in_span(self.t_eval->Some_0@, tr))   // C05's hypotheses (sorted, in span)
        &&& (!tr.stopped ==> self.teval_j(tr))   // [C05] teval.J
''')
# ---- loops: the scan never skips an index without pushing it
J_INV = '''                        self.t@ == t_eval@.take(i as int), self.y@.len() == self.t@.len(), teval_sorted_in_span(t_eval@, tr), *tr == *old(tr), R(self.tol) > 0real, R(tr.xend) != R(tr.x0),   // [C05] teval.prefix_reported
                        forall|j: int| 0 <= j < i ==> ahead(tr, #[trigger] t_eval@[j], *x) <= R(self.tol),   // [C05] teval.none_beyond_current_point'''
w.after('                        i <= t_eval@.len(), self.t_eval is Some && t_eval@ == self.t_eval->Some_0@, self.next_idx == old(self).next_idx, self.next_idx <= i,   // [C05] teval.scan', J_INV + '''
                        R(xold) == R(*x) || (old(tr).solout_calls > 0 && rabs(R(xold) - R(*x)) <= R(self.tol)),   // [C05] teval.tiny_step_branch
                        old(tr).solout_calls > 0 ==> xold == old(tr).last_x && toward(tr.x0, tr.xend, xold, *x) && (i < t_eval@.len() ==> ahead(tr, t_eval@[i as int], xold) > 0real),   // [C05] teval.next_is_ahead_of_previous_point
''', occ=0)
for occ in (0, 1):
    w.after('                            i <= t_eval@.len(), self.t_eval is Some && t_eval@ == self.t_eval->Some_0@, self.next_idx == old(self).next_idx, self.next_idx <= i,   // [C05] teval.scan', J_INV.replace('                        ', '                            ') + '''
                            old(tr).solout_calls > 0, xold == old(tr).last_x, toward(tr.x0, tr.xend, xold, *x), forward == (R(tr.xend) > R(tr.x0)),   // [C05] teval.direction
                            i < t_eval@.len() ==> ahead(tr, t_eval@[i as int], xold) > 0real,   // [C05] teval.next_is_ahead_of_previous_point
''', occ=occ)
w.save()
