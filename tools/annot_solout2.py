import sys; sys.path.insert(0, '/verif/tools')
from annot import Work
w = Work('/verif/work/solout_A.rs')
# ---- spec vocabulary
w.before('/// spec twin of the nested `crossed` helper', '''
/// the (time, event index, state) entries found in one step, and two facts about the index column
pub open spec fn has_idx(d: Seq<(Float, usize, Vec<Float>)>, upto: int, i: int) -> bool { exists|k: int| 0 <= k < upto && (#[trigger] d[k]).1 == i }
pub open spec fn distinct_idx(d: Seq<(Float, usize, Vec<Float>)>) -> bool { forall|a: int, b: int| 0 <= a < b < d.len() ==> (#[trigger] d[a]).1 != (#[trigger] d[b]).1 }
''')
w.before('    /// what one callback may do to the collected dense segments', '''
    /// event function i fired in this callback: a direction-aware sign change between the value stored by
    /// the previous callback and the value `g[i]` at the current point (never on the first callback)   [C09]
    pub open spec fn fired(&self, g: Seq<f64>, i: int) -> bool {
        self.yold@.len() > 0 && crossed_spec(self.prev_event@[i], g[i], self.event_config@[i].direction)
    }
    /// event function i reached its terminal count   [C10]
    pub open spec fn terminal_reached(&self, i: int) -> bool {
        self.event_config@[i].terminal_count is Some && self.event_hits@[i] >= self.event_config@[i].terminal_count->Some_0
    }
    /// the state stored with an event at time te is the step interpolant at te, or one of the two endpoint states   [C08]
    pub open spec fn event_state_ok(te: f64, ye: Seq<f64>, yold: Seq<f64>, y: Seq<f64>, xold: f64, x: f64, interp: Option<&StepInterpolant<'_>>, n: nat) -> bool {
        ||| (te == xold && ye == yold)
        ||| (te == x && ye == y)
        ||| (interp is Some && ye == interp_val((interp->Some_0).interp_fn, (interp->Some_0).cont@, (interp->Some_0).xold, (interp->Some_0).h, te, n))
    }
''')
# ---- postconditions
w.after('            final(self).t_eval is Some ==> final(self).next_idx >= old(self).next_idx,   // [C05] teval.monotone', '''
            old(self).ode.n_events_spec() > 0 ==> final(self).prev_event@ == old(self).ode.g(*old(x), old(y)@),   // [C09] events.prev_refreshed_on_every_path
            forall|i: int| 0 <= i < old(self).ode.n_events_spec() ==> (#[trigger] final(self).t_events@[i])@.len() <= old(self).t_events@[i]@.len() + 1
                && final(self).t_events@[i]@.take(old(self).t_events@[i]@.len() as int) =~= old(self).t_events@[i]@,   // [C08 C09] events.at_most_one_appended
            forall|i: int| 0 <= i < old(self).ode.n_events_spec() && (#[trigger] final(self).t_events@[i])@.len() == old(self).t_events@[i]@.len() + 1
                ==> old(self).fired(old(self).ode.g(*old(x), old(y)@), i),   // [C08 C09] events.only_genuine_crossings
            !(r is Interrupt) ==> forall|i: int| 0 <= i < old(self).ode.n_events_spec() && old(self).fired(old(self).ode.g(*old(x), old(y)@), i)
                ==> (#[trigger] final(self).t_events@[i])@.len() == old(self).t_events@[i]@.len() + 1,   // [C09] events.every_crossing_recorded
            forall|i: int| 0 <= i < old(self).ode.n_events_spec() && (#[trigger] final(self).t_events@[i])@.len() == old(self).t_events@[i]@.len() + 1
                ==> Self::event_state_ok(final(self).t_events@[i]@.last(), final(self).y_events@[i]@.last()@, old(self).yold@, old(y)@, xold, *old(x), interpolant, old(y)@.len()),   // [C08] events.state_is_interpolant
            !(r is Interrupt) ==> forall|i: int| 0 <= i < old(self).ode.n_events_spec() && (#[trigger] final(self).t_events@[i])@.len() == old(self).t_events@[i]@.len() + 1
                ==> !final(self).terminal_reached(i),   // [C10] terminal.continue_means_not_reached
            r is Interrupt ==> exists|i: int| 0 <= i < old(self).ode.n_events_spec() && old(self).fired(old(self).ode.g(*old(x), old(y)@), i) && final(self).terminal_reached(i)
                && final(self).t@ == old(self).t@.push((#[trigger] final(self).t_events@[i])@.last()) && final(self).y@.len() == old(self).y@.len() + 1
                && final(self).y@.last()@ == final(self).y_events@[i]@.last()@,   // [C10] terminal.last_sample_is_event_point
            r is Interrupt ==> final(self).next_idx == old(self).next_idx && final(self).yold@ == old(self).yold@,   // [C10 C05] terminal.no_sampling_after_event
''')
# ---- detection loop
w.after('forall|k: int| 0 <= k < detected_events@.len() ==> (#[trigger] detected_events@[k]).1 < i && detected_events@[k].2@.len() == n,   // [C08] detect.shape', '''
                        forall|a: int, b: int| 0 <= a < b < detected_events@.len() ==> (#[trigger] detected_events@[a]).1 < (#[trigger] detected_events@[b]).1,   // [C09] detect.index_increasing
                        forall|j: int| 0 <= j < i ==> (s1.fired(gx, j) <==> #[trigger] has_idx(detected_events@, detected_events@.len() as int, j)),   // [C09] detect.exactly_the_fired
                        forall|k: int| 0 <= k < detected_events@.len() ==> Self::event_state_ok((#[trigger] detected_events@[k]).0, detected_events@[k].2@, s1.yold@, y@, xold, *x, interpolant, n),   // [C08] detect.state
                        gx == self.ode.g(*x, y@), self.g_curr_buf@ == gx,   // [C09] detect.g
''')
w.after('            let ghost s1 = *self;     // after the event functions were evaluated', '''
            let ghost gx = self.ode.g(*x, y@);
            let ghost mut done = 0int;
''')
w.after('{ //~182', '''
                    let ghost dprev = detected_events@;
''')
w.before('detected_events.push((event_t, i, event_y)); //~293', '''
                        assert(Self::event_state_ok(event_t, event_y@, s1.yold@, y@, xold, *x, interpolant, n));
''')
w.after('detected_events.push((event_t, i, event_y)); //~293', '''
                        proof {
                            let dnew = detected_events@;
                            assert(dnew == dprev.push((event_t, i, event_y)));
                            assert(dnew[dprev.len() as int].1 == i);
                            assert(has_idx(dnew, dnew.len() as int, i as int));
                            assert forall|j: int| 0 <= j < i implies (s1.fired(gx, j) <==> #[trigger] has_idx(dnew, dnew.len() as int, j)) by {
                                if has_idx(dprev, dprev.len() as int, j) { let k = choose|k: int| 0 <= k < dprev.len() && (#[trigger] dprev[k]).1 == j; assert(dnew[k].1 == j); }
                                if has_idx(dnew, dnew.len() as int, j) { let k = choose|k: int| 0 <= k < dnew.len() && (#[trigger] dnew[k]).1 == j; assert(k < dprev.len()); assert(dprev[k].1 == j); }
                            }
                        }
''')
w.after('} //~294', '''
                    proof {
                        // whether or not function i fired, the table now covers 0..=i
                        let dnow = detected_events@;
                        if !crossed_spec(g_prev, g_curr, config.direction) {
                            assert(dnow == dprev);
                            assert(!has_idx(dnow, dnow.len() as int, i as int)) by {
                                if has_idx(dnow, dnow.len() as int, i as int) { let k = choose|k: int| 0 <= k < dnow.len() && (#[trigger] dnow[k]).1 == i; assert(dnow[k].1 < i); }
                            }
                        }
                        assert(s1.fired(gx, i as int) == crossed_spec(g_prev, g_curr, config.direction));
                    }
''')
w.save()
