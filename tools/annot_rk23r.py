import sys, re; sys.path.insert(0, '/verif/tools')
from annot import Work
w = Work('/verif/work/rk23_R.rs')
LENS = "y.len() == n, k1.len() == n, k2.len() == n, k3.len() == n, k4.len() == n, yt.len() == n, ye.len() == n, cont.len() == 4 * n, atol.ok(n as nat), rtol.ok(n as nat),"
w.after('pub fn solve < F, S >', '''
        requires
            4 * y0@.len() <= usize::MAX, self.max_steps < 0x7fff_0000,
            atol.ok(y0@.len() as nat), rtol.ok(y0@.len() as nat),
            R(xend) != R(x0),
            // configuration precondition of the low-level API (the default 0.2 and everything solve_ivp passes satisfy it)
            R(self.scale_min) <= 1real,
            self.first_step is Some && self.max_step is Some ==> rabs(R(self.first_step->Some_0)) <= rabs(R(self.max_step->Some_0)),
            self.first_step is Some ==> rabs(R(self.first_step->Some_0)) <= rabs(R(xend) - R(x0)),
            old(tr).solout_calls == 0, !old(tr).stopped, old(tr).x0 == x0, old(tr).xend == xend,
        ensures
            final(tr).x0 == x0 && final(tr).xend == xend,   // [C03] trace.span_kept
            r is Ok && (r->Ok_0).status is Success && solout is Some ==> R(final(tr).last_x) == R(xend),   // [C03] span.success_lands_on_xend
            r is Ok ==> ((r->Ok_0).status is UserInterrupt <==> final(tr).stopped),   // [C03 C10] status.interrupt
''')
i = w.find('pub fn solve < F, S >')
j = next(k for k in range(i, len(w.L)) if w.L[k].strip().startswith('{ //~'))
w.L[j + 1:j + 1] = ['        let ghost so_some = solout is Some;', '        proof { if vac(1) { assert(false); } }   // [vacuity] vac.solve_entry']
i = w.find('        loop //~')
w.L[i + 1:i + 1] = ('''            invariant_except_break
                !tr.stopped, status is Success,   // [C03 C10] status.running
                rabs(R(h)) <= R(hmax),   // [C11] step.bounded_by_max_step
                R(x) != R(xend),   // [C03] span.not_yet_at_xend
            invariant
                ''' + LENS + '''   // [C04] safety.lens
                nmax == self.max_steps, nmax < 0x7fff_0000, steps.total <= nmax, steps.accepted <= steps.total, steps.rejected <= steps.total, evals.ode <= 5 * steps.total + 3,   // [C04] safety.counters
                tr.x0 == x0, tr.xend == xend, dir_ok(x0, xend, posneg),   // [C03] span.direction
                in_span(x0, xend, x),   // [C03] span.x_in_span
                h_dir(posneg, h),   // [C03 C13] span.h_points_toward_xend
                0real < R(scale_min) <= 1real, R(scale_min) < R(scale_max), 0real < R(safety_factor),   // [C11] step.controller_ranges
                0real <= R(hmax) <= rabs(R(xend) - R(x0)),   // [C03 C11] span.hmax_within_span
                self.max_step is Some ==> R(hmax) <= rabs(R(self.max_step->Some_0)),   // [C11] step.hmax_is_max_step
                tr.solout_calls > 0 ==> tr.last_x == x,   // [C03 C19] proto.contiguous_inv
                tr.solout_calls > 0 ==> tr.last_y == y@,   // [C06] dense.last_sample_is_state
                (solout is Some) == so_some, so_some ==> tr.solout_calls > 0, !so_some ==> tr.solout_calls == 0,   // [C19] proto.handler_kept
            ensures
                (status is UserInterrupt) == tr.stopped,   // [C03 C10] status.interrupt_loop
                status is Success ==> R(x) == R(xend) && (so_some ==> tr.last_x == x),   // [C03] span.success_lands_on_xend_loop
                tr.x0 == x0 && tr.xend == xend, (solout is Some) == so_some,   // [C03] trace.span_kept_loop
            decreases nmax - steps.total,   // [C04] term.main''').split('\n')
j = next(k for k in range(i, len(w.L)) if w.L[k].strip().startswith('{ //~'))
w.L[j + 1:j + 1] = ['            proof { if vac(2) { assert(false); } }   // [vacuity] vac.main_loop']
out = []
in_solve = False
for idx, l in enumerate(w.L):
    out.append(l)
    if 'pub fn solve < F, S >' in l: in_solve = True
    if in_solve and re.match(r'\s+for i in 0 \.\. n //~', l):
        out.append('                invariant ' + LENS + '   // [C04] safety.lens')
w.L = out
w.after('            steps.total = steps.total + (1); //~', '''
            proof {
                // after the landing block the step does not pass xend
                assert(R(posneg) == 1real ==> R(x) + R(h) <= R(xend));   // [C03] span.step_stays_in_span
                assert(R(posneg) == 0real - 1real ==> R(x) + R(h) >= R(xend));
                assert(h_dir(posneg, h));
            }
''')
i = w.find('        if let Some(sol) = solout.as_mut() //~')
w.L[i:i] = ['        assert(self.first_step is Some ==> rabs(R(h)) == rabs(R(self.first_step->Some_0)));   // [C11] step.first_trial_is_first_step']
w.save()
