import sys; sys.path.insert(0, '/verif/tools')
from annot import Work
w = Work('/verif/work/solout_A.rs')
w.before('    // ---- what one callback does to the event tables, clause by clause', '''
    /// all event-table clauses of one callback, bundled for carrying through the sampling code
    pub open spec fn ev_all(&self, o: &Self, g: Seq<f64>, y: Seq<f64>, xold: f64, x: f64, interp: Option<&StepInterpolant<'_>>) -> bool {
        self.ev_refresh(o, g) && self.ev_append(o) && self.ev_genuine(o, g) && self.ev_complete(o, g) && self.ev_state(o, y, xold, x, interp) && self.ev_not_terminal(o)
    }
''')
# detection loop: config link
w.after('                        gx == self.ode.g(*x, y@), self.g_curr_buf@ == gx,   // [C09] detect.g', '''
                        s1.event_config@ == self.event_config@, s1.ode == self.ode,   // [C09] detect.cfg
''')
# end of processing-loop body: A and B for idx+1
w.before('                } //~326', '''
                    proof {
                        assert(self.recorded(&s1, det[idx]));
                        assert(!self.terminal_reached(i as int));
                        assert forall|j: int| 0 <= j < n_events && !has_idx(det, idx + 1, j) implies #[trigger] self.untouched(&s1, j) by {
                            if j == i { assert(det[idx].1 == i); assert(has_idx(det, idx + 1, j)); }
                            assert(!has_idx(det, idx, j)) by { if has_idx(det, idx, j) { let k = choose|k: int| 0 <= k < idx && (#[trigger] det[k]).1 == j; assert(has_idx(det, idx + 1, j)); } }
                            assert(pre.untouched(&s1, j));
                        }
                        assert forall|k: int| 0 <= k < idx + 1 implies #[trigger] self.recorded(&s1, det[k]) && !self.terminal_reached(det[k].1 as int) by {
                            if k < idx { assert(det[k].1 != det[idx].1); assert(pre.recorded(&s1, det[k]) && !pre.terminal_reached(det[k].1 as int)); }
                        }
                    }
''')
# after the processing loop and the refresh: all clauses hold
w.after('                self.prev_event.copy_from_slice(&self.g_curr_buf); //~329', '''
                proof {
                    let o = old(self);
                    assert forall|j: int| 0 <= j < n_events implies (#[trigger] self.t_events@[j])@.len() <= o.t_events@[j]@.len() + 1
                            && self.t_events@[j]@.take(o.t_events@[j]@.len() as int) =~= o.t_events@[j]@
                            && (self.t_events@[j]@.len() == o.t_events@[j]@.len() + 1 <==> o.fired(gx, j))
                            && (self.t_events@[j]@.len() == o.t_events@[j]@.len() + 1 ==> !self.terminal_reached(j)
                                && Self::event_state_ok(self.t_events@[j]@.last(), self.y_events@[j]@.last()@, o.yold@, y@, xold, *x, interpolant, n)) by {
                        assert(o.fired(gx, j) == s1.fired(gx, j));
                        if has_idx(det, det.len() as int, j) {
                            let k = choose|k: int| 0 <= k < det.len() && (#[trigger] det[k]).1 == j;
                            assert(self.recorded(&s1, det[k]) && !self.terminal_reached(det[k].1 as int));
                        } else { assert(self.untouched(&s1, j)); }
                    }
                    assert(self.ev_all(o, gx, y@, xold, *x, interpolant));
                }
''')
w.before('        if self.yold.len() != y.len() //~334', '''
        let ghost s2 = *self;     // after event handling
        let ghost g0 = self.ode.g(*x, y@);
        assert(s2.ev_all(old(self), g0, y@, xold, *x, interpolant)) by {
            if n_events > 0 && old(self).yold@.len() == 0 {
                assert forall|j: int| 0 <= j < n_events implies #[trigger] s2.t_events@[j] == old(self).t_events@[j] by {}
            }
        }
        assert(s2.t@ == old(self).t@ && s2.y@ == old(self).y@ && s2.next_idx == old(self).next_idx && s2.first_output_done == old(self).first_output_done);
''')
EVC = "self.same_events(&s2), s2.ev_all(old(self), g0, y@, xold, *x, interpolant),   // [C08 C09 C10] events.carried"
for mark in ('decreases t_eval@.len() - i,   // [C04] term.teval_initial', 'decreases t_eval@.len() - i,   // [C04] term.teval_fwd', 'decreases t_eval@.len() - i,   // [C04] term.teval_bwd'):
    i = w.find(mark)
    w.L[i:i] = ['                            ' + EVC]
w.save()
