"""authoring aid: translate a stage expression of the solver source (as laid out by vx) into the World-R
real expression used in a stage contract, with the constants replaced by their exact rational values.

  y[i] + h * (A31 * k1[i] + A32 * k2[i])   ->   R(y@[j]) + R(h) * ((3real / 40real) * R(k1@[j]) + (9real / 40real) * R(k2@[j]))

The shape (association order) follows Rust's precedence exactly, because products of two symbolic reals are
opaque to Z3 and must appear in the same shape on both sides.  `snap` maps a buffer name to the ghost snapshot
to be used for it (e.g. k4 -> K4 when the loop overwrites k4 in place)."""
import sys
sys.path.insert(0, '/verif')
from vx.lexer import lex
from vx import gen, core

def consts_of(repo_file):
    toks = core.read_tokens('/repo', repo_file)
    out = {}
    for (name, ty, expr, ln) in core.const_items(toks):
        if ty in ('Float', 'f64'):
            out[name] = gen.eval_const(expr)
    return out

def to_real(expr_text, consts, idx='j', snap=None, scalars=('h',)):
    snap = snap or {}
    toks = lex(expr_text)
    pos = [0]
    def peek():
        return toks[pos[0]] if pos[0] < len(toks) else None
    def take():
        pos[0] += 1; return toks[pos[0] - 1]
    def atom():
        t = take()
        if t.text == '(':
            v = expr()
            assert take().text == ')'
            return '(' + v + ')'
        if t.text == 'vneg':
            assert take().text == '('
            v = expr()
            assert take().text == ')'
            return '(0real - ' + v + ')'
        if t.text == '-':
            return '(0real - ' + atom() + ')'
        if t.kind == 'num':
            return gen.real(gen.lit_value(t.text))
        if t.kind == 'id':
            if t.text in consts:
                return gen.real(consts[t.text])
            nxt = peek()
            if nxt is not None and nxt.text == '[':
                take()
                # index expression: i, n + i, 2 * n + i ...
                depth = 1; inner = []
                while depth:
                    u = take()
                    if u.text == '[': depth += 1
                    elif u.text == ']':
                        depth -= 1
                        if depth == 0: break
                    inner.append(u.text)
                itxt = ' '.join(inner).replace('i', idx) if inner != ['i'] else idx
                itxt = ' '.join(idx if w == 'i' else w for w in inner)
                name = snap.get(t.text, t.text + '@')
                return 'R(%s[%s])' % (name, itxt)
            return 'R(%s)' % t.text
        raise SystemExit('stage_expr: unsupported token %r in %r' % (t.text, expr_text))
    def term():
        v = atom()
        while peek() is not None and peek().text in ('*', '/'):
            op = take().text
            w = atom()
            v = '%s %s %s' % (v, op, w)
        return v
    def expr():
        v = term()
        while peek() is not None and peek().text in ('+', '-'):
            op = take().text
            w = term()
            v = '%s %s %s' % (v, op, w)
        return v
    r = expr()
    assert pos[0] == len(toks), expr_text
    return r

if __name__ == '__main__':
    c = consts_of(sys.argv[1])
    print(to_real(sys.argv[2], c))
