#!/usr/bin/env python3
"""development aid: weave the Radau World-A contracts into a fresh work file (work/radau_A.rs)."""
import re, sys
p = '/verif/work/radau_A.rs'
L = open(p).read().split('\n')
out = []
BUFS = "y.len() == n, z1.len() == n, z2.len() == n, z3.len() == n, f0.len() == n, f1.len() == n, f2.len() == n, f3.len() == n, scal.len() == n, cont.len() == 4 * n, ip1.len() == n, ip2.len() == n, "
MATS = ("e1.wf() && e1.n == n && e1.m == n && e1.storage is Full, e2r.wf() && e2r.n == n && e2r.m == n && e2r.storage is Full, e2i.wf() && e2i.n == n && e2i.m == n && e2i.storage is Full, "
        "jac.wf() && jac.n == n && jac.m == n && jac.storage == self.jac_storage, mass.wf() && mass.n == n && mass.m == n, ")
MISC = "rtol.ok(n as nat), atol.ok(n as nat), nind1 + nind2 + nind3 == n, n >= 1, 4 * n <= usize::MAX,"
LENS = BUFS + MATS + MISC
PIV = "call_decomp || (piv_ok(ip1@, n as int) && piv_ok(ip2@, n as int)),   // [C16 C04] lu.factors_kept_while_reused"
COUNT = '''nmax == self.max_steps, 1 <= nmax < 0x7fff_0000, max_newton == self.newton_maxiter, 1 <= max_newton < 0x7fff_0000, kcap == 3 * max_newton + 4,   // [C04] safety.counters
                steps.accepted <= steps.total,   // [C18] nstep.inv
                steps.rejected <= 2 * steps.total,   // [C04] safety.rejected
                0 <= singular_count <= 5,   // [C04] term.singular_retries_bounded
                tr.same_run(old(tr)),   // [C19] trace.same_run_inv
                evals.ode == (tr.ode_calls - old(tr).ode_calls) - (tr.fd_ode_calls - old(tr).fd_ode_calls),   // [C18] nfev.inv
                evals.jac == tr.jac_calls - old(tr).jac_calls,   // [C18] njev.inv
                iters <= steps.total + 6 * steps.accepted + singular_count, evals.jac <= iters, evals.lu <= 3 * iters + steps.total,   // [C04] safety.njev_bound
                tr.solout_calls > 0 ==> tr.last_x == x,   // [C19 C06] proto.contiguous_inv
                (solout is Some) == so_some,   // [C19] proto.handler_kept
                solout is Some ==> solout->Some_0.inv(tr.solout_calls, tr.last_x),   // [C19] proto.handler_inv_kept
                solout is Some ==> solout->Some_0.dim() == n && (solout->Some_0.needs_interp() ==> self.dense_output),   // [C19 C06] proto.handler_static
                solout is Some ==> tr.solout_calls == steps.accepted + 1,   // [C18 C19] naccpt.inv
                solout is None ==> tr.solout_calls == 0,   // [C19] proto.none_inv
                f.jac_supports(self.jac_storage),   // [C15] jac.storage_supported'''
in_solve = False; in_interp = False
for i, l in enumerate(L):
    if 'pub fn lu_decomp(a' in l:
        out.append(l)
        out += '''    requires old(a).wf(), old(a).storage is Full, old(a).n >= 1,
    ensures
        final(a).wf(), final(a).n == old(a).n, final(a).m == old(a).m, final(a).storage is Full, final(ip)@.len() == old(ip)@.len(),
        r is Ok ==> piv_ok(final(ip)@, old(a).n as int),'''.split('\n')
        continue
    if 'pub fn lu_decomp_complex(' in l:
        out.append(l)
        out += '''    requires old(ar).wf(), old(ar).storage is Full, old(ar).n >= 1, old(ai).wf(), old(ai).storage is Full,
    ensures
        final(ar).wf(), final(ar).n == old(ar).n, final(ar).m == old(ar).m, final(ar).storage is Full,
        final(ai).wf(), final(ai).n == old(ai).n, final(ai).m == old(ai).m, final(ai).storage is Full, final(ip)@.len() == old(ip)@.len(),
        r is Ok ==> piv_ok(final(ip)@, old(ar).n as int),'''.split('\n')
        continue
    if 'pub fn lin_solve(a' in l:
        out.append(l)
        out += '''    requires a.wf(), a.n == a.m, a.n >= 1, old(b)@.len() >= a.n, ip@.len() == a.n, piv_ok(ip@, a.n as int),
    ensures final(b)@.len() == old(b)@.len()'''.split('\n')
        continue
    if 'pub fn lin_solve_complex(' in l:
        out.append(l)
        out += '''    requires ar.wf(), ar.n == ar.m, ar.n >= 1, ai.wf(), ai.n == ar.n, ai.m == ar.n, old(br)@.len() >= ar.n, old(bi)@.len() >= ar.n, ip@.len() == ar.n, piv_ok(ip@, ar.n as int),
    ensures final(br)@.len() == old(br)@.len(), final(bi)@.len() == old(bi)@.len()'''.split('\n')
        continue
    if l.startswith('#[verifier::external_body] pub fn lu_decomp(a') or False:
        pass
    if l.startswith('pub struct RADAU'):
        out += ["/// what lu_decomp / lu_decomp_complex guarantee about the recorded pivot rows on Ok (lu_A: lu.pivot_indices_in_range)",
                "pub open spec fn piv_ok(ip: Seq<usize>, n: int) -> bool { forall|k: int| 0 <= k < n - 1 ==> k <= #[trigger] ip[k] < n }",
                "/// sizes for which Matrix::from_storage(n, n, s) does not overflow (its stated precondition)",
                "pub open spec fn storage_fits(s: MatrixStorage, n: int) -> bool { s is Banded ==> s->ml + s->mu < IMAX() && (s->ml + s->mu + 1) * n <= usize::MAX }"]
    out.append(l)
    if 'pub fn solve < F, S >' in l and 'rtol: Tolerance' in l:
        in_solve = True
        out += '''        requires
            1 <= y0@.len(), 4 * y0@.len() <= usize::MAX,
            self.max_steps < 0x7fff_0000, self.newton_maxiter < 0x7fff_0000,
            self.nind1 is Some ==> self.nind1->Some_0 < 0x7fff_0000, self.nind2 is Some ==> self.nind2->Some_0 < 0x7fff_0000, self.nind3 is Some ==> self.nind3->Some_0 < 0x7fff_0000,
            atol.ok(y0@.len() as nat), rtol.ok(y0@.len() as nat),
            y0@.len() <= IMAX(), y0@.len() * y0@.len() <= usize::MAX, storage_fits(self.jac_storage, y0@.len() as int), storage_fits(self.mass_storage, y0@.len() as int),
            f.jac_supports(self.jac_storage),
            old(tr).solout_calls == 0, !old(tr).stopped, old(tr).x0 == x0, old(tr).y0 == y0@,
            finite(x0),
            solout is Some ==> old(solout->Some_0).inv(0, old(tr).last_x) && old(solout->Some_0).dim() == y0@.len(),
            solout is Some && old(solout->Some_0).needs_interp() ==> self.dense_output,
        ensures
            final(tr).same_run(old(tr)),   // [C19] trace.same_run
            r is Ok ==> (r->Ok_0).evals.ode == (final(tr).ode_calls - old(tr).ode_calls) - (final(tr).fd_ode_calls - old(tr).fd_ode_calls),      // [C18] nfev.exact
            r is Ok ==> (r->Ok_0).evals.jac == final(tr).jac_calls - old(tr).jac_calls,      // [C18] njev.exact
            r is Ok && solout is Some ==> final(tr).solout_calls == (r->Ok_0).steps.accepted + 1,   // [C18 C19] naccpt.callbacks
            r is Ok && solout is None ==> final(tr).solout_calls == 0,                       // [C19] proto.no_callback_without_handler
            r is Ok ==> (r->Ok_0).steps.accepted <= (r->Ok_0).steps.total,                  // [C18] nstep.ge_naccpt
            r is Ok ==> ((r->Ok_0).status is UserInterrupt <==> final(tr).stopped),          // [C19 C10 C03] status.interrupt
            r is Ok ==> !((r->Ok_0).status is ProbablyStiff) && !((r->Ok_0).status is PoorConvergence),   // [C03] status.range
            r is Ok && (r->Ok_0).status is NeedLargerNMax ==> (r->Ok_0).steps.total > self.max_steps,   // [C11] budget.exhausted
            r is Ok ==> (r->Ok_0).steps.total <= self.max_steps + 1,                         // [C11] budget.bound
            r is Err ==> final(tr).ode_calls == old(tr).ode_calls && final(tr).jac_calls == old(tr).jac_calls && final(tr).solout_calls == 0,   // [C18] err.no_calls'''.split('\n')
    if in_solve and l.strip().startswith('{ //~') and 'pub fn solve' in L[i-1]:
        out += ['        let ghost so_some = solout is Some;',
                '        proof { if vac(1) { assert(false); } }   // [vacuity] vac.solve_entry']
    if 'pub fn interpolate(xi' in l:
        in_solve = False; in_interp = True
        out += ['        requires cont@.len() == 4 * old(yi)@.len()   // [C04 C06] interp.layout',
                '        ensures final(yi)@.len() == old(yi)@.len()   // [C04 C06] interp.len']
    if in_solve and re.match(r"\s+'main: loop //~", l):
        out += ('''            invariant_except_break
                !tr.stopped,   // [C19 C10 C03] status.running
            invariant
                ''' + LENS + '''   // [C04] safety.lens
                ''' + PIV + '''
                steps.total <= nmax,   // [C11] budget.inv
                evals.ode <= kcap * steps.total + 2,   // [C04] safety.nfev_bound
                ''' + COUNT + '''
            ensures
                (status is UserInterrupt) == tr.stopped,   // [C19 C10 C03] status.interrupt_loop
                !(status is ProbablyStiff) && !(status is PoorConvergence),   // [C03] status.range_loop
                status is NeedLargerNMax ==> steps.total > nmax,   // [C11] budget.exhausted_loop
                steps.total <= nmax + 1,   // [C11] budget.bound_loop
                steps.accepted <= steps.total,   // [C18] nstep.loop
                tr.same_run(old(tr)),   // [C19] trace.same_run_loop
                evals.ode == (tr.ode_calls - old(tr).ode_calls) - (tr.fd_ode_calls - old(tr).fd_ode_calls),   // [C18] nfev.loop
                evals.jac == tr.jac_calls - old(tr).jac_calls,   // [C18] njev.loop
                (solout is Some) == so_some,   // [C19] proto.handler_kept_loop
                solout is Some ==> tr.solout_calls == steps.accepted + 1,   // [C18 C19] naccpt.loop
                solout is None ==> tr.solout_calls == 0,   // [C19] proto.none_loop
            decreases nmax + 2 - steps.total, 6 - singular_count,   // [C04] term.main''').split('\n')
    if in_solve and l.strip().startswith('{ //~') and re.match(r"\s+'main: loop //~", L[i-1]):
        out += ['            proof { if vac(2) { assert(false); } iters = iters + 1; }   // [vacuity] vac.main_loop']
    if in_solve and re.match(r"\s+'newton: loop //~", l):
        # insert the attribute before the loop line
        out.pop()
        out += ['            let ghost base: int = evals.ode as int;',
                '            #[verifier::loop_isolation(false)]', l]
        out += ('''                invariant
                ''' + LENS + '''   // [C04] safety.lens
                piv_ok(ip1@, n as int) && piv_ok(ip2@, n as int),   // [C16 C04] lu.factors_in_place_for_newton
                1 <= steps.total <= nmax, !tr.stopped,   // [C11] budget.newton
                0 <= newt_iter <= max_newton, evals.ode == base + 3 * newt_iter, base <= kcap * (steps.total - 1) + 2,   // [C04] safety.nfev_newton
                ''' + COUNT.replace("steps.rejected <= 2 * steps.total", "steps.rejected <= 2 * steps.total - 2") + '''
                decreases max_newton + 1 - newt_iter,   // [C04] term.newton''').split('\n')
    if in_solve and l.strip().startswith('{ //~') and re.match(r"\s+'newton: loop //~", L[i-1]):
        out += ['                proof { if vac(3) { assert(false); } }   // [vacuity] vac.newton_loop']
    m = re.match(r'(\s+)for (\w+) in .* //~(\d+)', l)
    if in_solve and m:
        ln = int(m.group(3))
        ind = m.group(1)
        if ln < 300:
            out += [ind + '    invariant y.len() == n, rtol.ok(n as nat), atol.ok(n as nat),   // [C04] safety.lens']
        else:
            extra = ''
            if m.group(2) == 'c':
                extra = ' r < n,'
            if m.group(2) == 'j':
                extra = ' i < n,'
            out += [ind + '    invariant ' + LENS + extra + '   // [C04] safety.lens']
    if in_interp and re.match(r'\s+for i in 0 \.\. n //~', l):
        out += ['            invariant n == cont@.len() / 4, yi@.len() == n, cont@.len() == 4 * n, cont@.len() <= usize::MAX, c0@.len() == n, c1@.len() == n, c2@.len() == n, c3@.len() == n,   // [C04] safety.lens']
open(p, 'w').write('\n'.join(out))
