"""development aid: insert contract lines into a work file at anchors given by a code-line substring.
Used once when a contract is authored; the frozen vspec is what the checks use."""
import sys

class Work:
    def __init__(self, path):
        self.path = path
        self.L = open(path).read().split("\n")
        self.lo_marker = None
    def find(self, marker, occ=0):
        lo = 0 if self.lo_marker is None else min(i for i, l in enumerate(self.L) if self.lo_marker in l)
        hits = [i for i, l in enumerate(self.L) if marker in l and i >= lo]
        if occ == -1 and hits: return hits[-1]
        if len(hits) <= occ:
            raise SystemExit("anchor not found (%d hits): %r" % (len(hits), marker))
        return hits[occ]
    def after(self, marker, text, occ=0):
        i = self.find(marker, occ)
        self.L[i + 1:i + 1] = text.strip("\n").split("\n")
    def before(self, marker, text, occ=0):
        i = self.find(marker, occ)
        self.L[i:i] = text.strip("\n").split("\n")
    def save(self):
        open(self.path, "w").write("\n".join(self.L))
