import sys, re; sys.path.insert(0, '/verif/tools')
from annot import Work
w = Work('/verif/work/cont_R.rs')
w.before('//#take src/solve/cont.rs impl ContinuousOutput :: t_span', '''
/// t lies in segment s up to the lookup slack 1e-12 (exact arithmetic)
pub open spec fn seg_has(s: &DenseSegment, t: f64) -> bool {
    rmin(R(s.xold), R(s.xold) + R(s.h)) - (1real / 1000000000000real) <= R(t) <= rmax(R(s.xold), R(s.xold) + R(s.h)) + (1real / 1000000000000real)
}
impl ContinuousOutput {
    /// representation invariant: every segment has the layout its interpolation function needs
    pub open spec fn wf(&self) -> bool {
        forall|k: int| 0 <= k < self.segs@.len() ==> interp_layout_ok((#[trigger] self.segs@[k]).interp_fn, self.segs@[k].cont@.len(), self.n_states as nat)
    }
    /// the segments of one run: non-degenerate, all in one direction, each starting where the previous one ended   [C06]
    pub open spec fn contiguous(&self) -> bool {
        &&& self.segs@.len() > 0
        &&& (forall|k: int| 0 <= k < self.segs@.len() ==> R((#[trigger] self.segs@[k]).h) > 0real) || (forall|k: int| 0 <= k < self.segs@.len() ==> R((#[trigger] self.segs@[k]).h) < 0real)
        &&& forall|k: int| 0 <= k < self.segs@.len() - 1 ==> R((#[trigger] self.segs@[k + 1]).xold) == R(self.segs@[k].xold) + R(self.segs@[k].h)
    }
    pub open spec fn span_lo(&self) -> real { rmin(R(self.segs@[0].xold), R(self.segs@.last().xold) + R(self.segs@.last().h)) }
    pub open spec fn span_hi(&self) -> real { rmax(R(self.segs@[0].xold), R(self.segs@.last().xold) + R(self.segs@.last().h)) }
    /// the left end of segment k in the direction of the run: every earlier segment ends at or before it
    pub proof fn lemma_chain(&self, k: int)
        requires self.contiguous(), 0 <= k < self.segs@.len()
        ensures
            R(self.segs@[0].h) > 0real ==> R(self.segs@[0].xold) <= R(self.segs@[k].xold) && R(self.segs@[k].xold) + R(self.segs@[k].h) <= R(self.segs@.last().xold) + R(self.segs@.last().h),
            R(self.segs@[0].h) < 0real ==> R(self.segs@[0].xold) >= R(self.segs@[k].xold) && R(self.segs@[k].xold) + R(self.segs@[k].h) >= R(self.segs@.last().xold) + R(self.segs@.last().h),
        decreases self.segs@.len() - k + k
    {
        let n = self.segs@.len() as int;
        // forward induction for the left ends, backward induction for the right ends
        self.lemma_left(k);
        self.lemma_right(k);
    }
    pub proof fn lemma_left(&self, k: int)
        requires self.contiguous(), 0 <= k < self.segs@.len()
        ensures R(self.segs@[0].h) > 0real ==> R(self.segs@[0].xold) <= R(self.segs@[k].xold), R(self.segs@[0].h) < 0real ==> R(self.segs@[0].xold) >= R(self.segs@[k].xold),
        decreases k
    {
        if k > 0 { self.lemma_left(k - 1); assert(R(self.segs@[k - 1 + 1].xold) == R(self.segs@[k - 1].xold) + R(self.segs@[k - 1].h)); }
    }
    pub proof fn lemma_right(&self, k: int)
        requires self.contiguous(), 0 <= k < self.segs@.len()
        ensures R(self.segs@[0].h) > 0real ==> R(self.segs@[k].xold) + R(self.segs@[k].h) <= R(self.segs@.last().xold) + R(self.segs@.last().h),
            R(self.segs@[0].h) < 0real ==> R(self.segs@[k].xold) + R(self.segs@[k].h) >= R(self.segs@.last().xold) + R(self.segs@.last().h),
        decreases self.segs@.len() - k
    {
        if k < self.segs@.len() - 1 { self.lemma_right(k + 1); assert(R(self.segs@[k + 1].xold) == R(self.segs@[k].xold) + R(self.segs@[k].h)); }
    }
}
''')
w.after('    pub fn interpolate(&self, xi: Float, yi: &mut [Float]) //~', '''
        requires interp_layout_ok(self.interp_fn, self.cont@.len(), old(yi)@.len())
        ensures final(yi)@.len() == old(yi)@.len(), final(yi)@ == interp_val(self.interp_fn, self.cont@, self.xold, self.h, xi, old(yi)@.len())   // [C06] seg.interpolate_is_the_solver_polynomial
''')
w.after('    pub fn t_span(&self) -> (r: Option < (Float, Float) >) //~', '''
        ensures self.segs@.len() == 0 <==> r is None,   // [C06] cont.span_none_iff_empty
            r is Some ==> r->Some_0.0 == self.segs@[0].xold && r->Some_0.1 == self.segs@.last().xold.add_spec(self.segs@.last().h),   // [C06] cont.span_is_first_start_to_last_end
''')
FIND_ENS = '''
        ensures
            r is Some ==> (exists|k: int| 0 <= k < self.segs@.len() && *(r->Some_0) == #[trigger] self.segs@[k]),   // [C06 C04] cont.found_segment_is_stored
            %s
            // no gaps: every t of the covered span lies in some segment, in either direction of integration   [C06]
            self.contiguous() && self.span_lo() <= R(t) <= self.span_hi() ==> r is Some,   // [C06] cont.%s_covers_the_whole_span
'''
w.after('    fn find_segment(&self, t: Float) -> (r: Option < &DenseSegment >) //~', FIND_ENS % ('r is Some ==> seg_has(r->Some_0, t),   // [C06] cont.found_segment_contains_t', 'lookup'))
w.after('    fn find_segment_extrapolate(&self, t: Float) -> (r: Option < &DenseSegment >) //~', FIND_ENS % ('self.segs@.len() > 0 && self.contiguous() ==> r is Some,   // [C06 C20] cont.extrapolating_lookup_is_total', 'extrapolating_lookup'))
LOOPINV = '''
            invariant
                it.snapshot@.remaining().len() == self.segs@.len(), forall|j: int| 0 <= j < self.segs@.len() ==> *(#[trigger] it.snapshot@.remaining()[j]) == self.segs@[j],   // [C04] cont.iteration_over_stored_segments
                it.iter.remaining() == it.snapshot@.remaining().skip(it.index@), 0 <= it.index@ <= self.segs@.len(), R(tol) == 1real / 1000000000000real,   // [C04] cont.iteration
                forall|j: int| 0 <= j < it.index@ ==> !seg_has(&#[trigger] self.segs@[j], t),   // [C06] cont.earlier_segments_do_not_contain_t
'''
for occ in (0, 1):
    i = w.find('        for seg in it: &self.segs //~', occ)
    pass
    w.L[i + 1:i + 1] = LOOPINV.strip('\n').split('\n')
w.after('    pub fn evaluate(&self, t: Float) -> (r: Option < Vec < Float > >) //~', '''
        requires self.wf()
        ensures r is Some ==> r->Some_0@.len() == self.n_states,   // [C06 C03] cont.value_has_problem_dimension
            self.contiguous() && self.span_lo() <= R(t) <= self.span_hi() ==> r is Some,   // [C06] cont.evaluate_total_on_span
''')
w.after('    pub fn evaluate_extrapolate(&self, t: Float) -> (r: Option < Vec < Float > >) //~', '''
        requires self.wf()
        ensures r is Some ==> r->Some_0@.len() == self.n_states,   // [C06 C20] cont.extrapolated_value_has_problem_dimension
            self.contiguous() ==> r is Some,   // [C20 C06] cont.evaluate_extrapolate_total
''')
w.after('    pub fn sol(&self, t: Float) -> (r: Result < Vec < Float >, Error >) //~', '''
        requires self.continuous_sol is Some ==> self.continuous_sol->Some_0.wf()
        ensures
            self.continuous_sol is None ==> r == Err::<Vec<Float>, Error>(Error::Interpolation(InterpolationError::NotEnabled)),   // [C06] sol.not_enabled
            // with dense output, sol(t) succeeds for every t between the first and the last covered time ...   [C06]
            self.continuous_sol is Some && self.continuous_sol->Some_0.contiguous()
                && self.continuous_sol->Some_0.span_lo() <= R(t) <= self.continuous_sol->Some_0.span_hi() ==> r is Ok && r->Ok_0@.len() == self.continuous_sol->Some_0.n_states,   // [C06] sol.succeeds_on_the_whole_span
            // ... and reports an out-of-range error outside
            self.continuous_sol is Some && self.continuous_sol->Some_0.contiguous()
                && !(self.continuous_sol->Some_0.span_lo() <= R(t) <= self.continuous_sol->Some_0.span_hi()) ==> r is Err && r->Err_0 is Interpolation && r->Err_0->Interpolation_0 is OutOfRange,   // [C06] sol.out_of_range_outside
''')
w.after('    pub fn sol_span(&self) -> (r: Option < (Float, Float) >) //~', '''
        ensures self.continuous_sol is None ==> r is None   // [C06] sol_span.none_without_dense_output
''')
w.save()
