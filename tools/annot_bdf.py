#!/usr/bin/env python3
"""development aid: weave the BDF World-A contracts into a fresh work file (work/bdf_A.rs)."""
import re, sys
p = '/verif/work/bdf_A.rs'
L = open(p).read().split('\n')
out = []
DROWS = "d.len() == 8, forall|kk: int| 0 <= kk < 8 ==> (#[trigger] d[kk]).len() == n, "
BUFS = ("y.len() == n, f0.len() == n, psi.len() == n, scale.len() == n, y_predict.len() == n, y_new.len() == n, delta.len() == n, rhs.len() == n, pivot.len() == n, "
        "CONT_BLOCK == 7, cont.len() == n * 7, " + DROWS +
        "scratch_change.len() == 6, forall|kk: int| 0 <= kk < 6 ==> (#[trigger] scratch_change[kk]).len() == n, ")
MATS = "lu_matrix.wf() && lu_matrix.n == n && lu_matrix.m == n && lu_matrix.storage is Full, jac.wf() && jac.n == n && jac.m == n && jac.storage == self.jac_storage, "
MISC = "rtol.ok(n as nat), atol.ok(n as nat), n >= 1, 7 * n <= usize::MAX, 1 <= order <= 5,"
LENS = BUFS + MATS + MISC
COUNT = '''nmax == self.max_steps, 1 <= nmax < 0x7fff_0000, 1 <= newton_maxiter_val < 0x7fff_0000, kcap == newton_maxiter_val + 2,   // [C04] safety.counters
                steps.accepted <= steps.total,   // [C18] nstep.inv
                steps.rejected <= steps.total, n_equal_steps <= steps.accepted,   // [C04] safety.rejected
                tr.same_run(old(tr)),   // [C19] trace.same_run_inv
                evals.ode == (tr.ode_calls - old(tr).ode_calls) - (tr.fd_ode_calls - old(tr).fd_ode_calls),   // [C18] nfev.inv
                evals.jac == tr.jac_calls - old(tr).jac_calls,   // [C18] njev.inv
                evals.jac <= 2 * steps.total + 2, evals.lu <= steps.total,   // [C04] safety.njev_bound
                tr.solout_calls > 0 ==> tr.last_x == x,   // [C19 C06] proto.contiguous_inv
                (solout is Some) == so_some,   // [C19] proto.handler_kept
                solout is Some ==> solout->Some_0.inv(tr.solout_calls, tr.last_x),   // [C19] proto.handler_inv_kept
                solout is Some ==> solout->Some_0.dim() == n,   // [C19 C06] proto.handler_static
                solout is Some ==> tr.solout_calls == steps.accepted + 1,   // [C18 C19] naccpt.inv
                solout is None ==> tr.solout_calls == 0,   // [C19] proto.none_inv
                f.jac_supports(self.jac_storage),   // [C15] jac.storage_supported'''
in_solve = False; in_interp = False
for i, l in enumerate(L):
    if 'pub fn lu_decomp(a' in l:
        out.append(l)
        out += '''    requires old(a).wf(), old(a).storage is Full, old(a).n >= 1,
    ensures
        final(a).wf(), final(a).n == old(a).n, final(a).m == old(a).m, final(a).storage is Full, final(ip)@.len() == old(ip)@.len(),
        r is Ok ==> piv_ok(final(ip)@, old(a).n as int),'''.split('\n')
        continue
    if 'pub fn lin_solve(a' in l:
        out.append(l)
        out += '''    requires a.wf(), a.n == a.m, a.n >= 1, old(b)@.len() >= a.n, ip@.len() == a.n, piv_ok(ip@, a.n as int),
    ensures final(b)@.len() == old(b)@.len()'''.split('\n')
        continue
    if 'fn change_d(d:' in l:
        out.append(l)
        out += '''    requires order <= 5 ==> old(d)@.len() > order && old(scratch)@.len() > order,
        old(d)@.len() >= 6 && old(scratch)@.len() >= 6,
        forall|k: int, j: int| 0 <= k < old(d)@.len() && 0 <= j < old(scratch)@.len() ==> (#[trigger] old(d)@[k]).len() == (#[trigger] old(scratch)@[j]).len(),
    ensures final(d)@.len() == old(d)@.len(), final(scratch)@.len() == old(scratch)@.len(),
        forall|k: int| 0 <= k < old(d)@.len() ==> (#[trigger] final(d)@[k]).len() == old(d)@[k].len(),
        forall|k: int| 0 <= k < old(scratch)@.len() ==> (#[trigger] final(scratch)@[k]).len() == old(scratch)@[k].len(),'''.split('\n')
        continue
    if l.startswith('fn weighted_rms_scaled('):
        out.append(l)
        out += ['    ensures true']
        continue
    if l.startswith('pub struct BDF'):
        out += ["/// what lu_decomp guarantees about the recorded pivot rows on Ok (lu_A: lu.pivot_indices_in_range)",
                "pub open spec fn piv_ok(ip: Seq<usize>, n: int) -> bool { forall|k: int| 0 <= k < n - 1 ==> k <= #[trigger] ip[k] < n }",
                "/// sizes for which Matrix::from_storage(n, n, s) does not overflow (its stated precondition)",
                "pub open spec fn storage_fits(s: MatrixStorage, n: int) -> bool { s is Banded ==> s->ml + s->mu < IMAX() && (s->ml + s->mu + 1) * n <= usize::MAX }"]
    out.append(l)
    if 'pub fn solve < F, S >' in l and 'rtol: Tolerance' in l:
        in_solve = True
        out += '''        requires
            1 <= y0@.len(), 7 * y0@.len() <= usize::MAX,
            self.max_steps < 0x7fff_0000, self.newton_maxiter < 0x7fff_0000,
            atol.ok(y0@.len() as nat), rtol.ok(y0@.len() as nat),
            y0@.len() <= IMAX(), y0@.len() * y0@.len() <= usize::MAX, storage_fits(self.jac_storage, y0@.len() as int),
            f.jac_supports(self.jac_storage),
            old(tr).solout_calls == 0, !old(tr).stopped, old(tr).x0 == x0, old(tr).y0 == y0@,
            finite(x0),
            solout is Some ==> old(solout->Some_0).inv(0, old(tr).last_x) && old(solout->Some_0).dim() == y0@.len(),
        ensures
            final(tr).same_run(old(tr)),   // [C19] trace.same_run
            r is Ok ==> (r->Ok_0).evals.ode == (final(tr).ode_calls - old(tr).ode_calls) - (final(tr).fd_ode_calls - old(tr).fd_ode_calls),      // [C18] nfev.exact
            r is Ok ==> (r->Ok_0).evals.jac == final(tr).jac_calls - old(tr).jac_calls,      // [C18] njev.exact
            r is Ok && solout is Some ==> final(tr).solout_calls == (r->Ok_0).steps.accepted + 1,   // [C18 C19] naccpt.callbacks
            r is Ok && solout is None ==> final(tr).solout_calls == 0,                       // [C19] proto.no_callback_without_handler
            r is Ok ==> (r->Ok_0).steps.accepted <= (r->Ok_0).steps.total,                  // [C18] nstep.ge_naccpt
            r is Ok ==> ((r->Ok_0).status is UserInterrupt <==> final(tr).stopped),          // [C19 C10 C03] status.interrupt
            r is Ok ==> ((r->Ok_0).status is Success || (r->Ok_0).status is UserInterrupt || (r->Ok_0).status is NeedLargerNMax || (r->Ok_0).status is StepSizeTooSmall),   // [C03] status.range
            r is Ok && (r->Ok_0).status is NeedLargerNMax ==> (r->Ok_0).steps.total >= self.max_steps,   // [C11] budget.exhausted
            r is Ok ==> (r->Ok_0).steps.total <= self.max_steps,                         // [C11] budget.bound
            r is Err ==> final(tr).solout_calls == 0,   // [C19] err.no_callbacks'''.split('\n')
    if in_solve and l.strip().startswith('{ //~') and 'pub fn solve' in L[i-1]:
        out += ['        let ghost so_some = solout is Some;',
                '        proof { if vac(1) { assert(false); } }   // [vacuity] vac.solve_entry']
    if 'pub fn interpolate(xi' in l:
        in_solve = False; in_interp = True
        out += ['        requires cont@.len() == 7 * old(yi)@.len()   // [C04 C06] interp.layout',
                '        ensures final(yi)@.len() == old(yi)@.len()   // [C04 C06] interp.len']
    if in_solve and re.match(r"\s+'main_loop: loop //~", l):
        out += ('''            invariant_except_break
                !tr.stopped,   // [C19 C10 C03] status.running
            invariant
                ''' + LENS + '''   // [C04] safety.lens
                lu_is_current ==> piv_ok(pivot@, n as int),   // [C16 C04] lu.factors_kept_while_reused
                steps.total <= nmax,   // [C11] budget.inv
                evals.ode <= kcap * steps.total + 3,   // [C04] safety.nfev_bound
                ''' + COUNT + '''
            ensures
                (status is UserInterrupt) == tr.stopped,   // [C19 C10 C03] status.interrupt_loop
                status is Success || status is UserInterrupt || status is NeedLargerNMax || status is StepSizeTooSmall,   // [C03] status.range_loop
                status is NeedLargerNMax ==> steps.total >= nmax,   // [C11] budget.exhausted_loop
                steps.total <= nmax,   // [C11] budget.bound_loop
                steps.accepted <= steps.total,   // [C18] nstep.loop
                tr.same_run(old(tr)),   // [C19] trace.same_run_loop
                evals.ode == (tr.ode_calls - old(tr).ode_calls) - (tr.fd_ode_calls - old(tr).fd_ode_calls),   // [C18] nfev.loop
                evals.jac == tr.jac_calls - old(tr).jac_calls,   // [C18] njev.loop
                (solout is Some) == so_some,   // [C19] proto.handler_kept_loop
                solout is Some ==> tr.solout_calls == steps.accepted + 1,   // [C18 C19] naccpt.loop
                solout is None ==> tr.solout_calls == 0,   // [C19] proto.none_loop
            decreases nmax + 1 - steps.total,   // [C04] term.main''').split('\n')
    if in_solve and l.strip().startswith('{ //~') and re.match(r"\s+'main_loop: loop //~", L[i-1]):
        out += ['            proof { if vac(2) { assert(false); } }   // [vacuity] vac.main_loop']
    if in_solve and re.match(r"\s+while iters < newton_maxiter_val //~", l):
        out += ('''                invariant
                ''' + LENS + '''   // [C04] safety.lens
                piv_ok(pivot@, n as int), !tr.stopped,   // [C16 C04] lu.factors_in_place_for_newton
                1 <= steps.total <= nmax,   // [C11] budget.newton
                0 <= iters <= newton_maxiter_val, evals.ode <= base + iters + 1, (iters < newton_maxiter_val ==> evals.ode == base + iters), base <= kcap * (steps.total - 1) + 3,   // [C04] safety.nfev_newton
                ''' + COUNT + '''
                decreases newton_maxiter_val - iters,   // [C04] term.newton''').split('\n')
    m = re.match(r'(\s+)for (\w+) in (.*) //~(\d+)', l)
    if in_solve and m:
        ln = int(m.group(4))
        ind = m.group(1)
        if ln < 120:
            out += [ind + '    invariant y.len() == n, rtol.ok(n as nat), atol.ok(n as nat),   // [C04] safety.lens']
        elif ln < 180:
            out += [ind + '    invariant true,   // [C04] safety.lens']
        elif ln < 230:
            out += [ind + '    invariant y.len() == n, f0.len() == n, ' + DROWS + '   // [C04] safety.lens']
        else:
            extra = ''
            if m.group(2) == 'c_idx':
                extra = ' r < n,'
            if m.group(2) in ('k', 'j') and 'order' in m.group(3):
                extra = ' i < n,'
            out += [ind + '    invariant ' + LENS + extra + '   // [C04] safety.lens']
    if in_interp and re.match(r'\s+for i in 0 \.\. n //~', l):
        out += ['            invariant yi@.len() == n, cont@.len() == 7 * n, BLOCK == 7, order <= 5, n >= 1,   // [C04] safety.lens']
    if in_interp and re.match(r'\s+for k in 0 \.\. order //~', l):
        out += ['            invariant yi@.len() == n, cont@.len() == 7 * n, BLOCK == 7, order <= 5, n >= 1,   // [C04] safety.lens']
open(p, 'w').write('\n'.join(out))
