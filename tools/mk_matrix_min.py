#!/usr/bin/env python3
"""contracts/matrix_min_A.vspec = contracts/matrix_core_A.vspec restricted to what the implicit solvers use (index,
index_mut, nrows, ncols, from_storage, zeros), every function a TRUSTED take that carries exactly the contract
matrix_core_A proves in unit matrix_A (the header `+` lines are copied verbatim; bodies and their proof hints are dropped).
`generate()` is also called by vx/bridges.py on every run: a matrix_min_A that is not the derived text decides nothing."""
import re, os
ROOT = os.path.dirname(os.path.dirname(os.path.abspath(__file__)))
KEEP = ['nrows', 'ncols', 'from_storage', 'zeros', 'diagonal']
def headers_only(blk, keep=None):
    res = []; k = 0
    while k < len(blk) and not re.match(r"^ {5}pub fn (\w+)", blk[k]):
        if blk[k].startswith(' '): res.append(blk[k])
        k += 1
    while k < len(blk):
        m = re.match(r"^ {5}pub fn (\w+)", blk[k])
        if not m: k += 1; continue
        name = m.group(1)
        j = k + 1; hdr = []
        while blk[j].startswith('+'): hdr.append(blk[j]); j += 1
        n = j
        while n < len(blk) and not re.match(r"^ {5}pub fn (\w+)", blk[n]): n += 1
        if keep is None or name in keep:
            res.append(blk[k].replace("     pub fn", "     #[verifier::external_body] pub fn", 1))
            res += hdr
            res += ["     {", "         unimplemented!()", "     }"]
        k = n
    res.append(" }")
    return res
def generate():
    L = open(os.path.join(ROOT, 'contracts', 'matrix_core_A.vspec')).read().split('\n')
    out = []; i = 0
    while i < len(L):
        l = L[i]
        if l.startswith('#unit'): out.append('#unit matrix_min_A'); i += 1; continue
        if l.startswith('#take src/matrix/index.rs impl') or l.startswith('#take src/matrix/base.rs impl Matrix ::'):
            j = i
            while not L[j].startswith('#endtake'): j += 1
            blk = L[i + 1:j]
            if 'impl Matrix ::' in l:
                out.append('#take src/matrix/base.rs impl Matrix :: ' + ' '.join(KEEP) + ' | trusted')
                out += headers_only(blk, KEEP)
            else:
                out.append(l + ' trusted')
                out += headers_only(blk)
            out.append('#endtake')
            i = j + 1; continue
        out.append(l); i += 1
    return '\n'.join(out)
if __name__ == '__main__':
    open(os.path.join(ROOT, 'contracts', 'matrix_min_A.vspec'), 'w').write(generate())
