#!/bin/sh
# run every claimed check once (quick tier) on the current tree; used before committing evidence
cd "$(dirname "$0")/.."
rc=0
for p in $(python3 -c "import json; print(' '.join(c['property_id'] for c in json.load(open('MANIFEST.json'))['checks']))"); do
  ./check $p --jobs 8 | tail -1 || rc=1
done
exit $rc
