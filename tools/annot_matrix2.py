import sys, re; sys.path.insert(0, '/verif/tools')
from annot import Work
w = Work('/verif/work/matrix_A.rs')
# index_mut proof hint
i = w.find('    pub fn index_mut(&mut self, p1_: (usize, usize))')
j = next(k for k in range(i, len(w.L)) if 'let (i, j) = p1_; //~' in w.L[k])
w.L[j + 1:j + 1] = ['        proof { if vac(2) { assert(false); } }   // [vacuity] vac.index_mut_entry',
                    '        proof { if self.storage is Full { Self::lemma_slot(i as int, j as int, self.n as int, self.m as int); }',
                    '                if let MatrixStorage::Banded { ml, mu } = self.storage { Self::lemma_slot(i - j + mu, j as int, ml + mu + 1, self.m as int); } }',
                    '        let ghost o = *self;',
                    '        proof {',
                    '            // distinct entries live in distinct slots (row-major injectivity)',
                    '            assert forall|a: int, b: int| 0 <= a < o.n && 0 <= b < o.m && !(a == i && b == j) && o.writable(a, b) implies #[trigger] o.slot_of(a, b) != o.slot_of(i as int, j as int) by {',
                    '                if o.storage is Full { assert(a * o.m + b != i * o.m + j) by (nonlinear_arith) requires 0 <= a, 0 <= b < o.m, 0 <= i, 0 <= j < o.m, !(a == i && b == j); }',
                    '                if o.storage is Banded { let mu = o.storage->mu as int; assert((a - b + mu) * o.m + b != (i - j + mu) * o.m + j) by (nonlinear_arith) requires 0 <= a - b + mu, 0 <= i - j + mu, 0 <= b < o.m, 0 <= j < o.m, !(a == i && b == j); }',
                    '            }',
                    '        }']
SIZE = "n <= IMAX() && m <= IMAX() && n * m <= usize::MAX"
w.after('    pub fn identity(n: usize) -> (r: Self) //~', '''
        requires n <= IMAX()
        ensures r.wf(), r.n == n, r.m == n, r.storage is Identity,   // [C17 C15] ctor.identity_shape
            forall|i: int, j: int| 0 <= i < n && 0 <= j < n ==> #[trigger] r.at(i, j) == (if i == j { 1.0f64 } else { 0.0f64 }),   // [C17 C15] ctor.identity_entries
''')
w.after('    pub fn from_vec(n: usize, m: usize, data: Vec < Float >) -> (r: Self) //~', '''
        requires n <= IMAX() && m <= IMAX() && n * m <= usize::MAX, data@.len() == n * m   // (documented panic on a length mismatch)
        ensures r.wf(), r.n == n, r.m == m, r.storage is Full, r.data@ == data@,   // [C17] ctor.from_vec
''')
w.after('    pub fn from_storage(n: usize, m: usize, storage: MatrixStorage) -> (r: Self) //~', '''
        requires n <= IMAX() && m <= IMAX() && n * m <= usize::MAX,
            !(storage is Full) ==> n == m,
            storage is Banded ==> storage->ml + storage->mu < IMAX() && (storage->ml + storage->mu + 1) * n <= usize::MAX,
        ensures r.wf(), r.n == n, r.m == m, r.storage == storage,   // [C17 C15] ctor.from_storage_shape
            !(storage is Identity) ==> r.all_stored(0.0f64),   // [C17 C15] ctor.from_storage_entries (with lemma_uniform_entries: every entry is 0; Identity: at() is the identity by definition)
''')
for nm in ('full', 'zeros'):
    w.after('    pub fn %s(n: usize, m: usize) -> (r: Self) //~' % nm, '''
        requires n <= IMAX() && m <= IMAX() && n * m <= usize::MAX
        ensures r.wf(), r.n == n, r.m == m, r.storage is Full,   // [C17] ctor.%s_shape
            r.all_stored(0.0f64),   // [C17] ctor.%s_entries
''' % (nm, nm))
w.after('    pub fn square(n: usize) -> (r: Self) //~', '''
        requires n <= IMAX() && n * n <= usize::MAX
        ensures r.wf(), r.n == n, r.m == n, r.storage is Full,   // [C17] ctor.square_shape
            r.all_stored(0.0f64),   // [C17] ctor.square_entries_readable
''')
w.after('    pub fn banded(n: usize, ml: usize, mu: usize) -> (r: Self) //~', '''
        requires n <= IMAX(), ml + mu < IMAX(), (ml + mu + 1) * n <= usize::MAX
        ensures r.wf(), r.n == n, r.m == n, r.storage == (MatrixStorage::Banded { ml, mu }),   // [C17] ctor.banded_shape
            r.all_stored(0.0f64),   // [C17] ctor.banded_entries
''')
w.after('    pub fn diagonal(diag: Vec < Float >) -> (r: Self) //~', '''
        requires diag@.len() <= IMAX()
        ensures r.wf(), r.n == diag@.len(), r.m == r.n, r.storage == (MatrixStorage::Banded { ml: 0, mu: 0 }),   // [C17] ctor.diagonal_shape
            r.data@ == diag@,   // [C17] ctor.diagonal_entries (with lemma_diagonal_entries)
''')
for nm, sh in (('lower_triangular', 'ml: (if n >= 1 { n - 1 } else { 0 }) as usize, mu: 0'), ('upper_triangular', 'ml: 0, mu: (if n >= 1 { n - 1 } else { 0 }) as usize')):
    w.after('    pub fn %s(n: usize) -> (r: Self) //~' % nm, '''
        requires n < IMAX(), n * n <= usize::MAX
        ensures r.wf(), r.n == n, r.m == n, r.storage == (MatrixStorage::Banded { %s }),   // [C17] ctor.%s_shape
            r.all_stored(0.0f64),   // [C17] ctor.%s_entries
''' % (sh, nm, nm))
w.after('    pub fn nrows(&self) -> (r: usize) //~', '        ensures r == self.n')
w.after('    pub fn ncols(&self) -> (r: usize) //~', '        ensures r == self.m')
w.after('    pub fn dims(&self) -> (r: (usize, usize)) //~', '        ensures r.0 == self.n && r.1 == self.m')
w.after('    pub fn is_identity(&self) -> (r: bool) //~', '''
        requires self.wf()
        ensures r <==> forall|i: int, j: int| 0 <= i < self.n && 0 <= j < self.m ==> (if i == j { (#[trigger] self.at(i, j)).eq_spec(&1.0f64) } else { self.at(i, j).eq_spec(&0.0f64) }),   // [C17] is_identity.dense_definition
''')

i = w.find('    pub fn diagonal(diag: Vec < Float >) -> (r: Self) //~')
j = next(k for k in range(i, len(w.L)) if 'let n = diag.len(); //~' in w.L[k])
w.L[j + 1:j + 1] = ['        proof { assert((0 + 0 + 1) * (n as int) == n) by (nonlinear_arith); }']
# is_identity loops
i = w.find('    pub fn is_identity(&self) -> (r: bool) //~')
k = next(q for q in range(i, len(w.L)) if 'for i in 0 .. self.n //~' in w.L[q])
w.L[k + 1:k + 1] = ['                    invariant self.wf(), !(self.storage is Identity),   // [C04] safety.wf',
                    '                        forall|a: int, b: int| 0 <= a < i && 0 <= b < self.m ==> (if a == b { (#[trigger] self.at(a, b)).eq_spec(&1.0f64) } else { self.at(a, b).eq_spec(&0.0f64) }),   // [C17] is_identity.rows_checked']
k = next(q for q in range(k, len(w.L)) if 'for j in 0 .. self.m //~' in w.L[q])
w.L[k + 1:k + 1] = ['                        invariant self.wf(), !(self.storage is Identity), i < self.n,   // [C04] safety.wf',
                    '                            forall|a: int, b: int| 0 <= a < i && 0 <= b < self.m ==> (if a == b { (#[trigger] self.at(a, b)).eq_spec(&1.0f64) } else { self.at(a, b).eq_spec(&0.0f64) }),   // [C17] is_identity.rows_checked',
                    '                            forall|b: int| 0 <= b < j ==> (if i == b { (#[trigger] self.at(i as int, b)).eq_spec(&1.0f64) } else { self.at(i as int, b).eq_spec(&0.0f64) }),   // [C17] is_identity.row_prefix_checked']
w.save()
