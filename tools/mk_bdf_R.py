#!/usr/bin/env python3
"""development aid: derive the skeleton of contracts/bdf_R.vspec (World R) from contracts/bdf_A.vspec:
same takes and safety invariants, World-A-only clauses (call counters, IEEE clamp bounds, mass products) removed."""
import re
L = open('/verif/contracts/bdf_A.vspec').read().split('\n')
out = []
drop_pat = re.compile(r"clamp_cast|tr\.ode_calls|tr\)\.ode_calls|jac_calls|fd_ode_calls|same_run|old\(tr\)\.y0|finite\(x0\)|inv\(tr\.solout_calls, tr\.last_x\)|inv\(0, old\(tr\)\.last_x\)|f_ge\(|radau_hmax|mrow_acc|e_entries_ok|neg_le_self|xph == x\.add_spec|// f64::clamp panics|let ghost \(a0, b0, c0\)")
i = 0
while i < len(L):
    l = L[i]
    if l.startswith('#unit'): l = '#unit bdf_R'
    elif l.startswith('#world'): l = '#world R'
    elif l.startswith('#include prelude/fp_a.rs'): l = '#include prelude/fp_r.rs'
    elif l.startswith('#include prelude/ieee_axioms.rs'): i += 1; continue
    elif l.startswith('#include prelude/use_a.rs'): l = '#gen world_r src/methods/bdf.rs\n#include prelude/use_r.rs'
    elif l.startswith('#use contracts/matrix_core_A') or l.startswith('#use contracts/matrix_min_A'): l = '#use contracts/matrix_min_A.vspec'
    elif l.startswith('#use contracts/common_A'): l = '#use contracts/common_R.vspec'
    elif l.startswith('#use contracts/ivp_full_A'): l = '#use contracts/ivp_full_R.vspec'
    elif l.startswith('#use contracts/tolerance_A'): l = '#use contracts/tolerance_R.vspec'
    if l.startswith('+'):
        l = l.replace(" f_le(hmin, hmax),", "")
        if re.match(r"\+(/// row i of the mass|/// entry \(r, c\)|/// the step-size cap)", l):
            while L[i].rstrip() != '+}': i += 1
            i += 1; continue
        if re.match(r"\+\s+proof \{\s*$", l):
            j = i
            while not re.match(r"\+\s+\}\s*$", L[j]): j += 1
            blk = L[i:j + 1]
            if any(drop_pat.search(b) for b in blk):
                i = j + 1; continue
            out += blk; i = j + 1; continue
        if drop_pat.search(l):
            if l[1:].lstrip().startswith('invariant ') and i + 1 < len(L) and L[i + 1].startswith('+') and not L[i + 1][1:].lstrip().startswith(('invariant', 'ensures', 'decreases')):
                nl = L[i + 1]; k = len(nl) - len(nl[1:].lstrip()); L[i + 1] = nl[:k] + 'invariant ' + nl[k:]
            i += 1; continue
    out.append(l); i += 1
open('/verif/contracts/bdf_R.vspec', 'w').write('\n'.join(out))
