import sys, re; sys.path.insert(0, '/verif/tools')
from annot import Work
w = Work('/verif/work/rk4_R.rs')
LENS = "y.len() == n, k1.len() == n, k2.len() == n, k3.len() == n, k4.len() == n, yt.len() == n, cont.len() == 4 * n,"
w.after('pub fn solve < F, S >', '''
        requires
            4 * y0@.len() <= usize::MAX, self.max_steps < 0x7fff_0000,
            R(xend) != R(x0),
            old(tr).solout_calls == 0, !old(tr).stopped, old(tr).x0 == x0, old(tr).xend == xend,
        ensures
            final(tr).x0 == x0 && final(tr).xend == xend,   // [C03] trace.span_kept
            r is Ok && (r->Ok_0).status is Success && solout is Some ==> R(final(tr).last_x) == R(xend),   // [C03] span.success_lands_on_xend
            r is Ok ==> ((r->Ok_0).status is UserInterrupt <==> final(tr).stopped),   // [C03 C10] status.interrupt
''')
i = w.find('pub fn solve < F, S >')
j = next(k for k in range(i, len(w.L)) if w.L[k].strip().startswith('{ //~'))
w.L[j + 1:j + 1] = ['        let ghost so_some = solout is Some;', '        let ghost h0 = h;', '        proof { if vac(1) { assert(false); } }   // [vacuity] vac.solve_entry']
i = w.find('        loop //~')
w.L[i + 1:i + 1] = ('''            invariant_except_break
                !tr.stopped, status is Success,   // [C03 C10] status.running
                R(x) != R(xend),   // [C03] span.not_yet_at_xend
                h == h0,   // [C11] step.fixed_step_is_first_step
            invariant
                ''' + LENS + '''   // [C04] safety.lens
                nmax == self.max_steps, nmax < 0x7fff_0000, steps.total <= nmax, steps.accepted <= steps.total, evals.ode <= 5 * steps.total + 2,   // [C04] safety.counters
                tr.x0 == x0, tr.xend == xend, dir_ok(x0, xend, posneg),   // [C03] span.direction
                in_span(x0, xend, x),   // [C03] span.x_in_span
                h_dir(posneg, h) && R(h) != 0real,   // [C03 C13] span.h_points_toward_xend
                tr.solout_calls > 0 ==> tr.last_x == x,   // [C03 C19] proto.contiguous_inv
                tr.solout_calls > 0 ==> tr.last_y == y@,   // [C06] dense.last_sample_is_state
                (solout is Some) == so_some, so_some ==> tr.solout_calls > 0, !so_some ==> tr.solout_calls == 0,   // [C19] proto.handler_kept
            ensures
                (status is UserInterrupt) == tr.stopped,   // [C03 C10] status.interrupt_loop
                status is Success ==> R(x) == R(xend) && (so_some ==> tr.last_x == x),   // [C03] span.success_lands_on_xend_loop
                tr.x0 == x0 && tr.xend == xend, (solout is Some) == so_some,   // [C03] trace.span_kept_loop
            decreases nmax - steps.total,   // [C04] term.main''').split('\n')
j = next(k for k in range(i, len(w.L)) if w.L[k].strip().startswith('{ //~'))
w.L[j + 1:j + 1] = ['            proof { if vac(2) { assert(false); } }   // [vacuity] vac.main_loop']
out = []
in_solve = False
for idx, l in enumerate(w.L):
    out.append(l)
    if 'pub fn solve < F, S >' in l: in_solve = True
    if 'pub fn interpolate' in l: in_solve = False
    if in_solve and re.match(r'\s+for i in 0 \.\. n //~', l):
        out.append('                invariant ' + LENS + '   // [C04] safety.lens')
w.L = out
i = w.find('            for i in 0 .. n //~')   # first stage loop: facts after the landing block
w.L[i:i] = '''            proof {
                assert(R(posneg) == 1real ==> R(x) + R(h) <= R(xend));   // [C03] span.step_stays_in_span
                assert(R(posneg) == 0real - 1real ==> R(x) + R(h) >= R(xend));
                assert(last ==> R(x) + R(h) == R(xend));   // [C03] span.landing_step_is_exact
                assert(rabs(R(h)) <= (101real / 100real) * rabs(R(h0)));   // [C11] step.landing_stretch_at_most_1_percent
            }'''.split('\n')
w.save()
