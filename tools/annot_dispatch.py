import sys, re; sys.path.insert(0, '/verif/tools')
from annot import Work
w = Work('/verif/work/dispatch_A.rs')
# trusted callee contracts
w.after('    #[verifier::external_body] pub fn new(ode: &', '''
        ensures true   // ASSUMED here, proved in unit solout_A (new.wf, new.empty, ...)
''')
w.after('    #[verifier::external_body] pub fn into_payload(self, Tracked(tr)', '''
        ensures final(tr).payload == r, final(tr).payload_taken, final(tr).runs == old(tr).runs, final(tr).result == old(tr).result,
            final(tr).method == old(tr).method, final(tr).solver_dense_stage == old(tr).solver_dense_stage,   // ASSUMED (payload.identity is proved in solout_A)
''')
L = w.L
idxs = [i for i, l in enumerate(L) if '#[verifier::external_body] pub fn solve < F, S >' in l]
names = ['RK4', 'RK23', 'DOPRI5', 'DOP853', 'RADAU', 'BDF']
for k in reversed(range(6)):
    i = idxs[k]
    L[i + 1:i + 1] = ['''        requires self.dense_output,   // [C12] dispatch.dense_stage_always_on (the output handler evaluates the interpolant of every step)
        ensures final(tr).runs == old(tr).runs + 1, final(tr).result == r, final(tr).method == Method::%s, final(tr).solver_dense_stage == self.dense_output,
            final(tr).payload_taken == old(tr).payload_taken,   // ASSUMED log of the call (the solver's own contract is proved in its units)''' % names[k]]
w.after('pub fn solve_ivp < F >(f: &F, x0: Float', '''
    requires old(tr).runs == 0, !old(tr).payload_taken,
    ensures
        // the zero-length run: no solver runs, every counter is zero, Success   [C18 C03]
        f_lt(s_abs(xend.sub_spec(x0)), 1e-15f64) ==> final(tr).runs == 0 && r is Ok && (r->Ok_0).nfev == 0 && (r->Ok_0).njev == 0 && (r->Ok_0).nlu == 0
            && (r->Ok_0).nstep == 0 && (r->Ok_0).naccpt == 0 && (r->Ok_0).nrejct == 0 && (r->Ok_0).status is Success,   // [C18 C03] dispatch.zero_length_run
        f_lt(s_abs(xend.sub_spec(x0)), 1e-15f64) && options.t_eval is None ==> (r->Ok_0).t@ =~= seq![x0] && (r->Ok_0).y@.len() == 1 && (r->Ok_0).y@[0]@ == y0@,   // [C03] dispatch.zero_length_sample
        // otherwise exactly one solver ran, the one selected, with its dense stage on   [C12]
        final(tr).runs <= 1,   // [C12 C18] dispatch.at_most_one_solver_run
        final(tr).runs == 1 ==> final(tr).method == options.method && final(tr).solver_dense_stage,   // [C12] dispatch.selected_method_dense_stage_on
        // statistics and status are copied unchanged from what the solver returned   [C18 C03]
        final(tr).runs == 1 && final(tr).result is Ok ==> r is Ok
            && (r->Ok_0).nfev == (final(tr).result->Ok_0).evals.ode && (r->Ok_0).njev == (final(tr).result->Ok_0).evals.jac && (r->Ok_0).nlu == (final(tr).result->Ok_0).evals.lu
            && (r->Ok_0).nstep == (final(tr).result->Ok_0).steps.total && (r->Ok_0).naccpt == (final(tr).result->Ok_0).steps.accepted && (r->Ok_0).nrejct == (final(tr).result->Ok_0).steps.rejected
            && (r->Ok_0).status == (final(tr).result->Ok_0).status,   // [C18 C03] dispatch.statistics_copied_unchanged
        final(tr).runs == 1 && final(tr).result is Err ==> r is Err,   // [C03 C04] dispatch.error_forwarded
        // samples and events are exactly what the handler collected   [C03 C05 C08]
        final(tr).runs == 1 && final(tr).result is Ok ==> final(tr).payload_taken && (r->Ok_0).t == final(tr).payload.0 && (r->Ok_0).y == final(tr).payload.1
            && (r->Ok_0).t_events == final(tr).payload.2 && (r->Ok_0).y_events == final(tr).payload.3,   // [C03 C05 C08] dispatch.payload_copied_unchanged
        r is Ok ==> ((r->Ok_0).continuous_sol is Some <==> options.dense_output),   // [C06] dispatch.dense_output_option
''')
i = w.find('pub fn solve_ivp < F >(f: &F')
j = next(k for k in range(i, len(w.L)) if w.L[k].strip().startswith('{ //~'))
w.L[j + 1:j + 1] = ['    proof { if vac(1) { assert(false); } }   // [vacuity] vac.solve_ivp_entry']
# builder forwarding, after each `.build();`
builds = [k for k, l in enumerate(w.L) if re.search(r'\.build\(\); //~', l)]
for k in reversed(builds):
    w.L[k + 1:k + 1] = ['            assert(solver.dense_output);   // [C12] dispatch.no_output_option_reaches_the_solver',
                        '            assert(solver.max_steps == (if options.max_steps is Some { options.max_steps->Some_0 } else { usize::MAX }));   // [C11] dispatch.max_steps_forwarded']
# the adaptive ones also forward max_step / first_step
builds = [k for k, l in enumerate(w.L) if re.search(r'\.build\(\); //~', l)]
for k in builds[1:]:
    pass
w.save()
