#!/usr/bin/env python3
"""development aid: author the lucx_R contracts on a freshly extracted work file (run after `vxcli edit lucx_R` on the
contract-free skeleton). The frozen vspec is what the checks use."""
import sys
sys.path.insert(0, '/verif/tools')
from annot import Work
w = Work('/verif/work/lucx_R.rs')
w.before("//#take src/matrix/lu.rs fn lu_decomp_complex", open('/verif/tools/lucx_math.txt').read() + '''
pub open spec fn cx(re: real, im: real) -> Cx { Cx { re: re, im: im } }
pub proof fn lemma_cmul_neg_r(a: Cx, x: Cx) ensures cmul(a, cneg(x)) == cneg(cmul(a, x))
{ lemma_cmul_comm(a, cneg(x)); lemma_cmul_neg(x, a); lemma_cmul_comm(x, a); }
/// |re| + |im| == 0 exactly for the complex zero (the singularity / skip tests of DECC)
pub proof fn lemma_norm1_zero(x: Cx) ensures (rabs(x.re) + rabs(x.im) == 0real) == (x == cz()) { }
pub proof fn lemma_mul_zero_r(x: real, y: real) requires y == 0real ensures x * y == 0real { assert(x * 0real == 0real) by (nonlinear_arith); }
''')

def C(r, i, row, col, trig=True):
    return "cx(R(%s%s.at(%s, %s)), R(%s.at(%s, %s)))" % ("#[trigger] " if trig else "", r, row, col, i, row, col)

# ------------------------------------------------------------------ lu_decomp_complex
w.lo_marker = "//#take src/matrix/lu.rs fn lu_decomp_complex"
LENS = ("ar.wf(), ar.storage is Full, ar.n == n, ar.m == n, ai.wf(), ai.storage is Full, ai.n == n, ai.m == n, ip@.len() == n, n >= 2, nm1 == n - 1, "
        "n == old(ar).n, n == old(ar).m, n == old(ai).n, n == old(ai).m, old(ip)@.len() == n,   // [C04] safety.lens")
w.after("pub fn lu_decomp_complex(ar: &mut Matrix, ai: &mut Matrix, ip: &mut [usize]) -> (r: Result < (), Error >) //~178", """
    requires old(ar).wf(), old(ar).storage is Full, old(ar).n >= 1, old(ai).wf(), old(ai).storage is Full,
    ensures
        final(ar).wf(), final(ar).n == old(ar).n, final(ar).m == old(ar).m, final(ar).storage is Full,   // [C16 C04] lucx.shape_kept
        final(ai).wf(), final(ai).n == old(ai).n, final(ai).m == old(ai).m, final(ai).storage is Full, final(ip)@.len() == old(ip)@.len(),   // [C16 C04] lucx.shape_kept_imag
        r is Ok ==> old(ar).n == old(ar).m && old(ai).n == old(ar).n && old(ai).m == old(ar).n && old(ip)@.len() == old(ar).n,   // [C16] lucx.ok_only_for_square_with_matching_pivot_slice
        r is Ok ==> piv_ok(final(ip)@, old(ar).n as int),   // [C16] lucx.pivot_indices_in_range
        r is Ok ==> forall|k: int| 0 <= k < old(ar).n ==> #[trigger] ca(*final(ar), *final(ai), k, k) != cz(),   // [C16] lucx.ok_means_no_zero_pivot
        r is Ok ==> forall|k: int, i: int| 0 <= k < i < old(ar).n ==> msq(#[trigger] ca(*final(ar), *final(ai), i, k)) <= 1real,   // [C16] lucx.multipliers_at_most_one_in_modulus
        r is Ok ==> cdec_post(*old(ar), *old(ai), *final(ar), *final(ai), final(ip)@, old(ar).n as int),   // [C16] lucx.forward_phase_maps_every_column_of_A_to_U
""")
w.after("{ //~178", """
    proof { if vac(1) { assert(false); } }   // [vacuity] vac.lucx_entry
    let ghost a0r = *ar;
    let ghost a0i = *ai;
""")
w.before("ip[0] = 0; //~198", """
        proof {
            lemma_norm1_zero(ca(*ar, *ai, 0, 0));
            assert forall|j: int| 0 <= j < 1 implies cfwd(*ar, *ai, ip@, 0, #[trigger] ccolv(a0r, a0i, 1, j)) == cucol(*ar, *ai, 1, j) by { assert(ccolv(a0r, a0i, 1, j) =~= cucol(*ar, *ai, 1, j)); }
        }
""")
w.before("for k in 0 .. nm1 //~203", """
    proof { lemma_cdec_init(a0r, a0i, ip@, n as int); }
""")
w.after("for k in 0 .. nm1 //~203", """
        invariant """ + LENS + """
            a0r == *old(ar), a0i == *old(ai),
            cdec_inv(a0r, a0i, *ar, *ai, ip@, n as int, k as int),   // [C16] lucx.k_forward_steps_map_A_to_the_work_matrix
            forall|kk: int| 0 <= kk < k ==> kk <= #[trigger] ip@[kk] < n,   // [C16] lucx.pivot_indices_inv
            forall|kk: int| 0 <= kk < k ==> """ + C("ar", "ai", "kk", "kk") + """ != cz(),   // [C16] lucx.nonzero_pivots_inv
            forall|kk: int, i: int| 0 <= kk < k && kk < i < n ==> msq(""" + C("ar", "ai", "i", "kk") + """) <= 1real,   // [C16] lucx.multipliers_inv
""")
w.after("let mut max_val = (* ar.index((k, k))) * (* ar.index((k, k))) + (* ai.index((k, k))) * (* ai.index((k, k))); //~208", """
        let ghost akr = *ar;
        let ghost aki = *ai;
        let ghost ipk = ip@;
""")
w.after("for i in kp1 .. n //~209", """
            invariant """ + LENS + """
                k < nm1, kp1 == k + 1, k <= m < n, m < i, *ar == akr, *ai == aki,
                R(max_val) == msq(ca(akr, aki, m as int, k as int)),   // [C16] lucx.max_tracks_candidate
                forall|ii: int| k <= ii < i ==> msq(cx(R(#[trigger] akr.at(ii, k as int)), R(aki.at(ii, k as int)))) <= msq(ca(akr, aki, m as int, k as int)),   // [C16] lucx.candidate_is_maximal_so_far
""")
w.after("let mut ti = (* ai.index((m, k))); //~220", """
        let ghost p = ca(akr, aki, m as int, k as int);
        assert(ip@[k as int] == m && forall|kk: int| 0 <= kk < k ==> #[trigger] ip@[kk] == ipk[kk]);   // [C16] lucx.recorded_pivot_is_the_selected_row
        proof { lemma_norm1_zero(p); }
        assert(forall|ii: int| k <= ii < n ==> msq(#[trigger] ca(akr, aki, ii, k as int)) <= msq(p));   // [C16] lucx.pivot_has_maximal_modulus
""")
w.after("} //~235", """
        let ghost a_sr = *ar;
        let ghost a_si = *ai;
        assert(p != cz());   // [C16] lucx.pivot_is_not_zero
        assert(forall|ii: int, jj: int| 0 <= ii < n && 0 <= jj < n ==> #[trigger] a_sr.at(ii, jj) == (if jj == k && ii == m { akr.at(k as int, k as int) } else if jj == k && ii == k { akr.at(m as int, k as int) } else { akr.at(ii, jj) }));   // [C16] lucx.column_k_interchanged
        assert(forall|ii: int, jj: int| 0 <= ii < n && 0 <= jj < n ==> #[trigger] a_si.at(ii, jj) == (if jj == k && ii == m { aki.at(k as int, k as int) } else if jj == k && ii == k { aki.at(m as int, k as int) } else { aki.at(ii, jj) }));   // [C16] lucx.column_k_interchanged_imag
""")
w.after("let den = tr * tr + ti * ti; //~238", """
        let ghost denr = p.re * p.re + p.im * p.im;
        assert(R(den) == denr);   // [C16] lucx.squared_modulus
        proof { assert(denr > 0real) by (nonlinear_arith) requires denr == p.re * p.re + p.im * p.im, p.re != 0real || p.im != 0real; }
""")
w.after("ti = vneg(ti) / den; //~240", """
        let ghost q = cx(R(tr), R(ti));
        assert(q.re == p.re / denr && q.im == (0real - p.im) / denr);   // [C16] lucx.reciprocal_of_the_pivot
        proof { lemma_cx_recip(p, denr, q); }
""")
w.after("for i in kp1 .. n //~243", """
            invariant """ + LENS + """
                k < nm1, kp1 == k + 1, k <= m < n, q == cx(R(tr), R(ti)), a_sr.wf(), a_sr.n == n, a_sr.m == n, a_si.wf(), a_si.n == n, a_si.m == n,
                forall|ii: int| k < ii < i ==> """ + C("ar", "ai", "ii", "k as int") + """ == cneg(cmul(ca(a_sr, a_si, ii, k as int), q)),   // [C16] lucx.multipliers_stored_negated
                forall|ii: int, jj: int| 0 <= ii < n && 0 <= jj < n && !(jj == k && k < ii < i) ==> #[trigger] ar.at(ii, jj) == a_sr.at(ii, jj),   // [C16] lucx.scaling_touches_only_column_k_below_the_diagonal
                forall|ii: int, jj: int| 0 <= ii < n && 0 <= jj < n && !(jj == k && k < ii < i) ==> #[trigger] ai.at(ii, jj) == a_si.at(ii, jj),   // [C16] lucx.scaling_touches_only_column_k_below_the_diagonal_imag
""")
w.after("(* ai.index_mut((i, k))) = vneg(prod_i); //~247", """
                assert(""" + C("ar", "ai", "i as int", "k as int", False) + """ == cneg(cmul(ca(a_sr, a_si, i as int, k as int), q)));   // [C16] lucx.multiplier_value
""")
w.before("for j in kp1 .. n //~251", """
        let ghost a_cr = *ar;
        let ghost a_ci = *ai;
""")
w.after("for j in kp1 .. n //~251", """
            invariant """ + LENS + """
                k < nm1, kp1 == k + 1, k <= m < n, a_cr.wf(), a_cr.n == n, a_cr.m == n, a_ci.wf(), a_ci.n == n, a_ci.m == n, akr.wf(), akr.n == n, akr.m == n, aki.wf(), aki.n == n, aki.m == n,
                forall|ii: int, jj: int| 0 <= ii < n && k < jj < n ==> #[trigger] a_cr.at(ii, jj) == akr.at(ii, jj),
                forall|ii: int, jj: int| 0 <= ii < n && k < jj < n ==> #[trigger] a_ci.at(ii, jj) == aki.at(ii, jj),
                forall|ii: int, jj: int| 0 <= ii < n && 0 <= jj < n && (jj <= k || jj >= j) ==> #[trigger] ar.at(ii, jj) == a_cr.at(ii, jj),   // [C16] lucx.columns_not_yet_eliminated_untouched
                forall|ii: int, jj: int| 0 <= ii < n && 0 <= jj < n && (jj <= k || jj >= j) ==> #[trigger] ai.at(ii, jj) == a_ci.at(ii, jj),   // [C16] lucx.columns_not_yet_eliminated_untouched_imag
                forall|ii: int, jj: int| 0 <= ii < k && 0 <= jj < n ==> #[trigger] ar.at(ii, jj) == a_cr.at(ii, jj),   // [C16] lucx.rows_above_untouched
                forall|ii: int, jj: int| 0 <= ii < k && 0 <= jj < n ==> #[trigger] ai.at(ii, jj) == a_ci.at(ii, jj),   // [C16] lucx.rows_above_untouched_imag
                forall|jj: int| k < jj < j ==> """ + C("ar", "ai", "k as int", "jj") + """ == ca(akr, aki, m as int, jj),   // [C16] lucx.pivot_row_moved_up
                forall|ii: int, jj: int| k < ii < n && k < jj < j ==> """ + C("ar", "ai", "ii", "jj") + """ == cadd(csw(akr, aki, k as int, m as int, ii, jj), cmul(ca(a_cr, a_ci, ii, k as int), ca(akr, aki, m as int, jj))),   // [C16] lucx.eliminated_columns
""")
w.after("let mi = (* ai.index((m, j))); //~254", """
            assert(mr == akr.at(m as int, j as int) && mi == aki.at(m as int, j as int));   // [C16] lucx.multiplier_is_the_pivot_row_entry
            let ghost t = cx(R(mr), R(mi));
            let ghost a_br = *ar;
            let ghost a_bi = *ai;
""")
w.after("} //~264", """
            let ghost a_jr = *ar;
            let ghost a_ji = *ai;
            assert(forall|ii: int, jj: int| 0 <= ii < n && 0 <= jj < n ==> #[trigger] a_jr.at(ii, jj) == (if jj == j && ii == m { akr.at(k as int, j as int) } else if jj == j && ii == k { akr.at(m as int, j as int) } else { a_br.at(ii, jj) }));   // [C16] lucx.row_entries_interchanged
            assert(forall|ii: int, jj: int| 0 <= ii < n && 0 <= jj < n ==> #[trigger] a_ji.at(ii, jj) == (if jj == j && ii == m { aki.at(k as int, j as int) } else if jj == j && ii == k { aki.at(m as int, j as int) } else { a_bi.at(ii, jj) }));   // [C16] lucx.row_entries_interchanged_imag
            proof { lemma_norm1_zero(t); }
""")
INNER = """
                        invariant """ + LENS + """
                            k < nm1, kp1 == k + 1, k <= m < n, kp1 <= j < n, a_jr.wf(), a_jr.n == n, a_jr.m == n, a_ji.wf(), a_ji.n == n, a_ji.m == n, t == cx(R(mr), R(mi)), %s
                            forall|ii: int| k < ii < i ==> """ + C("ar", "ai", "ii", "j as int") + """ == cadd(ca(a_jr, a_ji, ii, j as int), cmul(ca(a_jr, a_ji, ii, k as int), t)),   // [C16] lucx.column_j_rows_done%s
                            forall|ii: int, jj: int| 0 <= ii < n && 0 <= jj < n && !(jj == j && k < ii < i) ==> #[trigger] ar.at(ii, jj) == a_jr.at(ii, jj),   // [C16] lucx.elimination_touches_only_column_j_below_row_k%s
                            forall|ii: int, jj: int| 0 <= ii < n && 0 <= jj < n && !(jj == j && k < ii < i) ==> #[trigger] ai.at(ii, jj) == a_ji.at(ii, jj),   // [C16] lucx.elimination_touches_only_column_j_below_row_k_imag%s
"""
w.after("for i in kp1 .. n //~269", INNER % ("R(mi) == 0real,", "_real_multiplier", "_real_multiplier", "_real_multiplier"))
w.after("(* ai.index_mut((i, j))) = (* ai.index((i, j))) + (prod_i); //~273", """
                        proof {
                            let mu = ca(a_jr, a_ji, i as int, k as int);
                            lemma_mul_zero_r(mu.im, t.im); lemma_mul_zero_r(mu.re, t.im);
                            assert(""" + C("ar", "ai", "i as int", "j as int", False) + """ == cadd(ca(a_jr, a_ji, i as int, j as int), cmul(mu, t)));   // [C16] lucx.real_multiplier_update
                        }
""")
w.after("for i in kp1 .. n //~277", INNER % ("R(mr) == 0real,", "_imaginary_multiplier", "_imaginary_multiplier", "_imaginary_multiplier"))
w.after("(* ai.index_mut((i, j))) = (* ai.index((i, j))) + (prod_i); //~281", """
                        proof {
                            let mu = ca(a_jr, a_ji, i as int, k as int);
                            lemma_mul_zero_r(mu.im, t.re); lemma_mul_zero_r(mu.re, t.re);
                            assert((0real - mu.im) * t.im == 0real - mu.im * t.im) by (nonlinear_arith);
                            assert(""" + C("ar", "ai", "i as int", "j as int", False) + """ == cadd(ca(a_jr, a_ji, i as int, j as int), cmul(mu, t)));   // [C16] lucx.imaginary_multiplier_update
                        }
""")
w.after("for i in kp1 .. n //~285", INNER % ("", "_general_multiplier", "_general_multiplier", "_general_multiplier"))
w.after("(* ai.index_mut((i, j))) = (* ai.index((i, j))) + (prod_i); //~289", """
                        assert(""" + C("ar", "ai", "i as int", "j as int", False) + """ == cadd(ca(a_jr, a_ji, i as int, j as int), cmul(ca(a_jr, a_ji, i as int, k as int), t)));   // [C16] lucx.general_multiplier_update
""")
w.after("} //~292", """
            proof {
                assert forall|ii: int| k < ii < n implies """ + C("ar", "ai", "ii", "j as int") + """ == cadd(csw(akr, aki, k as int, m as int, ii, j as int), cmul(ca(a_cr, a_ci, ii, k as int), ca(akr, aki, m as int, j as int))) by {
                    assert(ca(a_jr, a_ji, ii, j as int) == csw(akr, aki, k as int, m as int, ii, j as int));
                    assert(a_jr.at(ii, k as int) == a_cr.at(ii, k as int) && a_ji.at(ii, k as int) == a_ci.at(ii, k as int));
                    assert(t == ca(akr, aki, m as int, j as int));
                    if t == cz() {
                        lemma_cmul_zero(ca(a_cr, a_ci, ii, k as int));
                        assert(ar.at(ii, j as int) == a_jr.at(ii, j as int) && ai.at(ii, j as int) == a_ji.at(ii, j as int));
                    }
                }
            }
""")
w.after("} //~293", """
        proof {
            assert(cdec_step_rel(akr, aki, *ar, *ai, n as int, k as int, m as int, q)) by {
                assert forall|i: int| k < i < n implies #[trigger] ca(*ar, *ai, i, k as int) == cneg(cmul(csw(akr, aki, k as int, m as int, i, k as int), q)) by {
                    assert(ar.at(i, k as int) == a_cr.at(i, k as int) && ai.at(i, k as int) == a_ci.at(i, k as int));
                    assert(ca(a_sr, a_si, i, k as int) == csw(akr, aki, k as int, m as int, i, k as int));
                }
                assert forall|i: int, j: int| k < i < n && k < j < n implies #[trigger] ca(*ar, *ai, i, j) == cadd(csw(akr, aki, k as int, m as int, i, j), cmul(ca(*ar, *ai, i, k as int), ca(akr, aki, m as int, j))) by {
                    assert(ar.at(i, k as int) == a_cr.at(i, k as int) && ai.at(i, k as int) == a_ci.at(i, k as int));
                    assert(ar.at(i, j) == ar.at(i, j));
                }
                assert forall|j: int| k <= j < n implies #[trigger] ca(*ar, *ai, k as int, j) == ca(akr, aki, m as int, j) by {
                    if j == k {
                        assert(ar.at(k as int, k as int) == a_cr.at(k as int, k as int) && a_cr.at(k as int, k as int) == a_sr.at(k as int, k as int));
                        assert(ai.at(k as int, k as int) == a_ci.at(k as int, k as int) && a_ci.at(k as int, k as int) == a_si.at(k as int, k as int));
                    } else { assert(ar.at(k as int, j) == ar.at(k as int, j)); }
                }
                assert forall|i: int, j: int| 0 <= i < n && 0 <= j < n && (i < k || j < k) implies #[trigger] ca(*ar, *ai, i, j) == ca(akr, aki, i, j) by {
                    assert(ar.at(i, j) == a_cr.at(i, j)); assert(a_cr.at(i, j) == a_sr.at(i, j)); assert(a_sr.at(i, j) == akr.at(i, j));
                    assert(ai.at(i, j) == a_ci.at(i, j)); assert(a_ci.at(i, j) == a_si.at(i, j)); assert(a_si.at(i, j) == aki.at(i, j));
                }
            }
            lemma_cdec_step(a0r, a0i, akr, aki, *ar, *ai, ipk, ip@, n as int, k as int, m as int, q);
            assert forall|kk: int, i: int| 0 <= kk < k + 1 && kk < i < n implies msq(""" + C("ar", "ai", "i", "kk") + """) <= 1real by {
                if kk == k {
                    let s = csw(akr, aki, k as int, m as int, i, k as int);
                    assert(msq(s) <= msq(p)) by { if i == m { assert(s == ca(akr, aki, k as int, k as int)); } else { assert(s == ca(akr, aki, i, k as int)); } }
                    assert(ca(*ar, *ai, i, k as int) == cneg(cmul(s, q)));
                    lemma_cx_mult_le_one(s, p, q);
                } else { assert(ca(*ar, *ai, i, kk) == ca(akr, aki, i, kk)); }
            }
            assert forall|kk: int| 0 <= kk < k + 1 implies """ + C("ar", "ai", "kk", "kk") + """ != cz() by {
                if kk < k { assert(ca(*ar, *ai, kk, kk) == ca(akr, aki, kk, kk)); } else { assert(ca(*ar, *ai, k as int, k as int) == p); }
            }
        }
""")
w.before("if (* ar.index((n - 1, n - 1))).abs() + (* ai.index((n - 1, n - 1))).abs() == 0.0 //~297", """
    proof { lemma_norm1_zero(ca(*ar, *ai, n - 1, n - 1)); }
""")
w.before("Ok(()) //~301", """
    proof { lemma_cdec_final(a0r, a0i, *ar, *ai, ip@, n as int); }
""")

# ------------------------------------------------------------------ lin_solve_complex
w.lo_marker = "//#take src/matrix/linear.rs fn lin_solve_complex"
LENS_S = ("ar.wf(), ar.n == n, ar.m == n, ai.wf(), ai.n == n, ai.m == n, br@.len() == old(br)@.len(), bi@.len() == old(bi)@.len(), br@.len() >= n, bi@.len() >= n, ip@.len() == n, n >= 2, nm1 == n - 1, "
          "piv_ok(ip@, n as int), forall|kk: int| 0 <= kk < n ==> #[trigger] ca(*ar, *ai, kk, kk) != cz(),   // [C04] safety.lens")
B = lambda i, trig=True: "cx(R(%sbr@[%s]), R(bi@[%s]))" % ("#[trigger] " if trig else "", i, i)
w.after("pub fn lin_solve_complex(ar: &Matrix, ai: &Matrix, br: &mut [Float], bi: &mut [Float], ip: &[usize],) //~140", """
    requires ar.wf(), ar.n == ar.m, ar.n >= 1, ai.wf(), ai.n == ar.n, ai.m == ar.n, old(br)@.len() >= ar.n, old(bi)@.len() >= ar.n, ip@.len() == ar.n, piv_ok(ip@, ar.n as int),
        forall|k: int| 0 <= k < ar.n ==> #[trigger] ca(*ar, *ai, k, k) != cz(),   // what lu_decomp_complex guarantees on Ok: no zero on the diagonal of U
    ensures final(br)@.len() == old(br)@.len(), final(bi)@.len() == old(bi)@.len(),   // [C16 C04] solvecx.only_rhs_modified (matrices and ip are shared references: frame by type)
        forall|i: int| ar.n <= i < old(br)@.len() ==> final(br)@[i] == old(br)@[i],   // [C16] solvecx.entries_beyond_n_untouched
        forall|i: int| ar.n <= i < old(bi)@.len() ==> final(bi)@[i] == old(bi)@[i],   // [C16] solvecx.entries_beyond_n_untouched_imag
        csol_post(*ar, *ai, ip@, ar.n as int, crv(old(br)@, old(bi)@, ar.n as int), crv(final(br)@, final(bi)@, ar.n as int)),   // [C16] solvecx.upper_triangular_system_solved_for_the_forward_image
""")
w.after("{ //~146", """
    proof { if vac(2) { assert(false); } }   // [vacuity] vac.solvecx_entry
    let ghost b0 = crv(br@, bi@, ar.n as int);
""")
DIV = """
        let ghost %(d)s = ca(*ar, *ai, %(k)s, %(k)s);
        let ghost %(den)s = %(d)s.re * %(d)s.re + %(d)s.im * %(d)s.im;
        assert(R(den) == %(den)s);   // [C16] solvecx.squared_modulus_of_the_diagonal%(sfx)s
        proof { assert(%(den)s > 0real) by (nonlinear_arith) requires %(den)s == %(d)s.re * %(d)s.re + %(d)s.im * %(d)s.im, %(d)s.re != 0real || %(d)s.im != 0real; }
"""
w.after("let den = (* ar.index((0, 0))) * (* ar.index((0, 0))) + (* ai.index((0, 0))) * (* ai.index((0, 0))); //~152", DIV % dict(d="d1", den="den1", k="0", sfx="_scalar_case"))
w.after("bi[0] = temp_i; //~156", """
        proof {
            let x = crv(br@, bi@, 1);
            assert(x[0].re == (b0[0].re * d1.re + b0[0].im * d1.im) / den1 && x[0].im == (b0[0].im * d1.re - b0[0].re * d1.im) / den1);   // [C16] solvecx.scalar_case
            lemma_cx_div(b0[0], d1, den1, x[0]);
            assert(curow(*ar, *ai, x, 0, 0, 1) == cadd(curow(*ar, *ai, x, 0, 0, 0), cmul(cue(*ar, *ai, 0, 0), x[0])));
            assert(cfwd(*ar, *ai, ip@, 0, b0) == b0);
        }
""")
w.after("for k in 0 .. nm1 //~163", """
        invariant """ + LENS_S + """
            forall|i: int| n <= i < br@.len() ==> br@[i] == old(br)@[i],   // [C16] solvecx.tail_kept
            forall|i: int| n <= i < bi@.len() ==> bi@[i] == old(bi)@[i],   // [C16] solvecx.tail_kept_imag
            b0 == crv(old(br)@, old(bi)@, n as int), crv(br@, bi@, n as int) == cfwd(*ar, *ai, ip@, k as nat, b0),   // [C16] solvecx.forward_phase_is_fwd
""")
w.after("bi[k] = ti; //~175", """
        let ghost v = cfwd(*ar, *ai, ip@, k as nat, b0);
        let ghost v1 = cswapv(v, k as int, ip@[k as int] as int);
        proof { lemma_cfwd_len(*ar, *ai, ip@, k as nat, b0); assert(crv(br@, bi@, n as int) =~= v1); assert(v1[k as int] == cx(R(tr), R(ti))); }
""")
w.after("for i in kp1 .. n //~178", """
            invariant """ + LENS_S + """
                k < nm1, kp1 == k + 1, v.len() == n, v1 == cswapv(v, k as int, ip@[k as int] as int), v1[k as int] == cx(R(tr), R(ti)),
                forall|ii: int| n <= ii < br@.len() ==> br@[ii] == old(br)@[ii],   // [C16] solvecx.tail_kept
                forall|ii: int| n <= ii < bi@.len() ==> bi@[ii] == old(bi)@[ii],   // [C16] solvecx.tail_kept_imag
                forall|ii: int| 0 <= ii < n ==> """ + B("ii") + """ == (if k < ii < i { cadd(v1[ii], cmul(ca(*ar, *ai, ii, k as int), v1[k as int])) } else { v1[ii] }),   // [C16] solvecx.forward_step_rows_done
""")
w.after("} //~184", """
        proof { assert(crv(br@, bi@, n as int) =~= cfstep(*ar, *ai, ip@, k as int, v)); }
""")
w.before("for kb in 1 .. n //~188", """
    let ghost y = cfwd(*ar, *ai, ip@, nm1 as nat, b0);
    proof { lemma_cfwd_len(*ar, *ai, ip@, nm1 as nat, b0); }
""")
BACK = "y == cfwd(*ar, *ai, ip@, nm1 as nat, b0), y.len() == n, b0 == crv(old(br)@, old(bi)@, n as int),"
w.after("for kb in 1 .. n //~188", """
        invariant """ + LENS_S + """
            """ + BACK + """
            forall|i: int| n <= i < br@.len() ==> br@[i] == old(br)@[i],   // [C16] solvecx.tail_kept
            forall|i: int| n <= i < bi@.len() ==> bi@[i] == old(bi)@[i],   // [C16] solvecx.tail_kept_imag
            forall|i: int| n - kb < i < n ==> #[trigger] curow(*ar, *ai, crv(br@, bi@, n as int), i, i, n as int) == y[i],   // [C16] solvecx.rows_below_are_solved
            forall|i: int| 0 <= i <= n - kb ==> """ + B("i") + """ == csub(y[i], curow(*ar, *ai, crv(br@, bi@, n as int), i, n - kb + 1, n as int)),   // [C16] solvecx.rows_above_carry_the_partial_residual
""")
w.after("let k = n - kb; //~189", """
        let ghost x_0 = crv(br@, bi@, n as int);
        let ghost bk_0 = """ + B("k as int", False) + """;
        proof { assert(bk_0 == csub(y[k as int], curow(*ar, *ai, x_0, k as int, k + 1, n as int))); }   // [C16] solvecx.row_k_carries_its_partial_residual
""")
w.after("let den = (* ar.index((k, k))) * (* ar.index((k, k))) + (* ai.index((k, k))) * (* ai.index((k, k))); //~192", DIV % dict(d="d", den="denr", k="k as int", sfx=""))
w.after("bi[k] = temp_i; //~196", """
        let ghost x_1 = crv(br@, bi@, n as int);
        proof {
            lemma_curow_frame_all(*ar, *ai, x_0, x_1, k + 1, n as int);
            let s = curow(*ar, *ai, x_0, k as int, k + 1, n as int);
            assert(x_1[k as int].re == (bk_0.re * d.re + bk_0.im * d.im) / denr && x_1[k as int].im == (bk_0.im * d.re - bk_0.re * d.im) / denr);   // [C16] solvecx.division_by_the_diagonal
            lemma_cx_div(bk_0, d, denr, x_1[k as int]);
            lemma_curow_front(*ar, *ai, x_1, k as int, k as int, n as int);
            assert(curow(*ar, *ai, x_1, k as int, k as int, n as int) == y[k as int]);
            assert forall|i: int| k < i < n implies #[trigger] curow(*ar, *ai, x_1, i, i, n as int) == y[i] by {
                lemma_curow_frame(*ar, *ai, x_0, x_1, i, i, n as int);
            }
        }
""")
w.after("for i in 0 .. k //~203", """
            invariant """ + LENS_S + """
                """ + BACK + """ k == n - kb, 1 <= kb < n, x_1.len() == n, R(tr) == 0real - x_1[k as int].re, R(ti) == 0real - x_1[k as int].im,
                forall|ii: int| n <= ii < br@.len() ==> br@[ii] == old(br)@[ii],   // [C16] solvecx.tail_kept
                forall|ii: int| n <= ii < bi@.len() ==> bi@[ii] == old(bi)@[ii],   // [C16] solvecx.tail_kept_imag
                forall|ii: int| k <= ii < n ==> """ + B("ii") + """ == x_1[ii],   // [C16] solvecx.solved_rows_kept
                forall|ii: int| k <= ii < n ==> #[trigger] curow(*ar, *ai, x_1, ii, ii, n as int) == y[ii],   // [C16] solvecx.rows_below_are_solved_inner
                forall|ii: int| i <= ii < k ==> """ + B("ii") + """ == csub(y[ii], curow(*ar, *ai, x_1, ii, k + 1, n as int)),   // [C16] solvecx.rows_not_yet_updated
                forall|ii: int| 0 <= ii < i ==> """ + B("ii") + """ == csub(y[ii], curow(*ar, *ai, x_1, ii, k as int, n as int)),   // [C16] solvecx.rows_updated
""")
w.after("bi[i] = bi[i] + (prod_i); //~207", """
            proof {
                lemma_curow_front(*ar, *ai, x_1, i as int, k as int, n as int);
                assert(cue(*ar, *ai, i as int, k as int) == ca(*ar, *ai, i as int, k as int));
                let nx = cx(R(tr), R(ti));
                assert(nx == cneg(x_1[k as int]));
                assert(""" + B("i as int", False) + """ == cadd(csub(y[i as int], curow(*ar, *ai, x_1, i as int, k + 1, n as int)), cmul(ca(*ar, *ai, i as int, k as int), nx)));   // [C16] solvecx.back_substitution_update
                lemma_cmul_neg_r(ca(*ar, *ai, i as int, k as int), x_1[k as int]);
            }
""")
w.after("} //~208", """
        proof {
            let x_2 = crv(br@, bi@, n as int);
            lemma_curow_frame_all(*ar, *ai, x_1, x_2, k as int, n as int);
            assert forall|i: int| k <= i < n implies #[trigger] curow(*ar, *ai, x_2, i, i, n as int) == y[i] by {
                lemma_curow_frame(*ar, *ai, x_1, x_2, i, i, n as int);
            }
        }
""")
w.before("let den = (* ar.index((0, 0))) * (* ar.index((0, 0))) + (* ai.index((0, 0))) * (* ai.index((0, 0))); //~212", """
    let ghost x_3 = crv(br@, bi@, n as int);
    let ghost b3 = """ + B("0", False) + """;
    proof { assert(b3 == csub(y[0], curow(*ar, *ai, x_3, 0, 1, n as int))); }   // [C16] solvecx.first_row_carries_its_partial_residual
""")
w.after("let den = (* ar.index((0, 0))) * (* ar.index((0, 0))) + (* ai.index((0, 0))) * (* ai.index((0, 0))); //~212", DIV % dict(d="d3", den="den3", k="0", sfx="_first_row"))
w.after("bi[0] = temp_i; //~216", """
    proof {
        let x = crv(br@, bi@, n as int);
        lemma_curow_frame_all(*ar, *ai, x_3, x, 1, n as int);
        assert(x[0].re == (b3.re * d3.re + b3.im * d3.im) / den3 && x[0].im == (b3.im * d3.re - b3.re * d3.im) / den3);   // [C16] solvecx.first_row_division
        lemma_cx_div(b3, d3, den3, x[0]);
        lemma_curow_front(*ar, *ai, x, 0, 0, n as int);
        assert forall|i: int| 0 <= i < n implies #[trigger] curow(*ar, *ai, x, i, 0, n as int) == y[i] by {
            if i > 0 { lemma_curow_frame(*ar, *ai, x_3, x, i, i, n as int); }
            lemma_curow_split(*ar, *ai, x, i, 0, i, n as int);
            lemma_curow_lower_zero(*ar, *ai, x, i, i);
        }
    }
""")
w.lo_marker = None
w.before("} // verus!", """
/// composition check (not code of the crate): on Ok, lu_decomp_complex's postcondition is lin_solve_complex's precondition, and
/// the two contracts together give (AR + i AI) x = b in exact arithmetic for the ORIGINAL matrix and right-hand side
pub fn check_factor_then_solve_complex(ar: &mut Matrix, ai: &mut Matrix, ip: &mut [usize], br: &mut [Float], bi: &mut [Float]) -> (r: Result<(), Error>)
    requires old(ar).wf(), old(ar).storage is Full, old(ar).n >= 1, old(ai).wf(), old(ai).storage is Full, old(br)@.len() >= old(ar).n, old(bi)@.len() >= old(ar).n,
    ensures r is Ok ==> forall|i: int| 0 <= i < old(ar).n ==> #[trigger] crowsum(*old(ar), *old(ai), crv(final(br)@, final(bi)@, old(ar).n as int), i, 0, old(ar).n as int) == cx(R(old(br)@[i]), R(old(bi)@[i])),   // [C16] compose.complex_factor_then_solve_gives_the_exact_solution
{
    let ghost a0r = *ar;
    let ghost a0i = *ai;
    let ghost n = ar.n as int;
    let ghost b0 = crv(br@, bi@, n);
    match lu_decomp_complex(ar, ai, ip) {
        Ok(()) => {
            lin_solve_complex(ar, ai, br, bi, ip);
            proof { lemma_clu_solve_correct(a0r, a0i, *ar, *ai, ip@, n, b0, crv(br@, bi@, n)); }
            Ok(())
        },
        Err(e) => Err(e),
    }
}
""", occ=-1)
w.save()
