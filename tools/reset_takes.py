#!/usr/bin/env python3
"""development aid: drop every contract line inside the take sections of a vspec (keeps the skeleton)"""
import sys
p = '/verif/contracts/%s.vspec' % sys.argv[1]
out = []; intake = False
for l in open(p).read().split('\n'):
    if l.startswith('#take'): intake = True; out.append(l); continue
    if l.startswith('#endtake'): intake = False; out.append(l); continue
    if intake: continue
    out.append(l)
open(p, 'w').write('\n'.join(out))
