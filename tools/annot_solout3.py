import sys; sys.path.insert(0, '/verif/tools')
from annot import Work
w = Work('/verif/work/solout_A.rs')
w.before('    /// what one callback may do to the collected dense segments', '''
    /// bookkeeping of one step's events: function i was not touched / entry e was recorded exactly once
    pub open spec fn untouched(&self, s: &Self, i: int) -> bool {
        self.t_events@[i] == s.t_events@[i] && self.y_events@[i] == s.y_events@[i] && self.event_hits@[i] == s.event_hits@[i]
    }
    pub open spec fn recorded(&self, s: &Self, e: (Float, usize, Vec<Float>)) -> bool {
        let i = e.1 as int;
        &&& self.t_events@[i]@ == s.t_events@[i]@.push(e.0)
        &&& self.y_events@[i]@.len() == s.y_events@[i]@.len() + 1 && self.y_events@[i]@.last()@ == e.2@
        &&& self.event_hits@[i] == s.event_hits@[i] + 1
    }
    pub open spec fn same_events(&self, s: &Self) -> bool {
        self.t_events@ == s.t_events@ && self.y_events@ == s.y_events@ && self.event_hits@ == s.event_hits@ && self.prev_event@ == s.prev_event@
            && self.event_config@ == s.event_config@
    }
    /// processing-loop invariant: after `idx` entries of `det`, exactly those were recorded (once each, none terminal)
    pub open spec fn processed(&self, s: &Self, det: Seq<(Float, usize, Vec<Float>)>, idx: int, ne: int) -> bool {
        &&& forall|j: int| 0 <= j < ne && !has_idx(det, idx, j) ==> #[trigger] self.untouched(s, j)
        &&& forall|k: int| 0 <= k < idx ==> (#[trigger] self.recorded(s, det[k])) && !self.terminal_reached(det[k].1 as int)
    }
    pub proof fn lemma_process_step(pre: &Self, post: &Self, s: &Self, det: Seq<(Float, usize, Vec<Float>)>, idx: int, ne: int)
        requires
            pre.processed(s, det, idx, ne), distinct_idx(det), 0 <= idx < det.len(), forall|k: int| 0 <= k < det.len() ==> (#[trigger] det[k]).1 < ne,
            post.event_config@ == pre.event_config@,
            forall|j: int| 0 <= j < ne && j != det[idx].1 ==> (#[trigger] post.t_events@[j]) == pre.t_events@[j] && post.y_events@[j] == pre.y_events@[j] && post.event_hits@[j] == pre.event_hits@[j],
            post.recorded(s, det[idx]), !post.terminal_reached(det[idx].1 as int),
        ensures post.processed(s, det, idx + 1, ne)
    {
        let i = det[idx].1 as int;
        assert forall|j: int| 0 <= j < ne && !has_idx(det, idx + 1, j) implies #[trigger] post.untouched(s, j) by {
            if j == i { assert(has_idx(det, idx + 1, j)); }
            if has_idx(det, idx, j) { let k = choose|k: int| 0 <= k < idx && (#[trigger] det[k]).1 == j; assert(has_idx(det, idx + 1, j)); }
            assert(pre.untouched(s, j));
        }
        assert forall|k: int| 0 <= k < idx + 1 implies (#[trigger] post.recorded(s, det[k])) && !post.terminal_reached(det[k].1 as int) by {
            if k < idx {
                assert(det[k].1 != det[idx].1);
                assert(pre.recorded(s, det[k]));
                assert(!pre.terminal_reached(det[k].1 as int));
                let j = det[k].1 as int;
                assert(post.t_events@[j] == pre.t_events@[j] && post.y_events@[j] == pre.y_events@[j] && post.event_hits@[j] == pre.event_hits@[j]);
                assert(post.recorded(s, det[k]));
            } else { assert(k == idx); }
        }
    }
    /// not yet processed entry: its function is untouched so far
    pub proof fn lemma_fresh_index(pre: &Self, s: &Self, det: Seq<(Float, usize, Vec<Float>)>, idx: int, ne: int)
        requires pre.processed(s, det, idx, ne), distinct_idx(det), 0 <= idx < det.len(), det[idx].1 < ne,
        ensures pre.untouched(s, det[idx].1 as int)
    {
        let i = det[idx].1 as int;
        if has_idx(det, idx, i) { let k = choose|k: int| 0 <= k < idx && (#[trigger] det[k]).1 == i; assert(det[k].1 != det[idx].1); }
    }
    /// what the bookkeeping says about function j after `idx` entries
    pub proof fn lemma_processed_facts(cur: &Self, s: &Self, det: Seq<(Float, usize, Vec<Float>)>, idx: int, ne: int, j: int)
        requires cur.processed(s, det, idx, ne), 0 <= j < ne, 0 <= idx <= det.len(),
        ensures
            cur.t_events@[j]@.len() <= s.t_events@[j]@.len() + 1,
            cur.t_events@[j]@.take(s.t_events@[j]@.len() as int) =~= s.t_events@[j]@,
            cur.t_events@[j]@.len() == s.t_events@[j]@.len() + 1 <==> has_idx(det, idx, j),
            has_idx(det, idx, j) ==> exists|k: int| 0 <= k < idx && (#[trigger] det[k]).1 == j && cur.t_events@[j]@.last() == det[k].0
                && cur.y_events@[j]@.last()@ == det[k].2@ && !cur.terminal_reached(j),
    {
        if has_idx(det, idx, j) {
            let k = choose|k: int| 0 <= k < idx && (#[trigger] det[k]).1 == j;
            assert(cur.recorded(s, det[k]) && !cur.terminal_reached(det[k].1 as int));
        } else { assert(cur.untouched(s, j)); }
    }
    // ---- what one callback does to the event tables, clause by clause (self = after, o = before, g = event values now)
    pub open spec fn ev_refresh(&self, o: &Self, g: Seq<f64>) -> bool { o.ode.n_events_spec() > 0 ==> self.prev_event@ == g }
    pub open spec fn ev_append(&self, o: &Self) -> bool {
        forall|i: int| 0 <= i < o.ode.n_events_spec() ==> (#[trigger] self.t_events@[i])@.len() <= o.t_events@[i]@.len() + 1
            && self.t_events@[i]@.take(o.t_events@[i]@.len() as int) =~= o.t_events@[i]@
    }
    pub open spec fn ev_genuine(&self, o: &Self, g: Seq<f64>) -> bool {
        forall|i: int| 0 <= i < o.ode.n_events_spec() && (#[trigger] self.t_events@[i])@.len() == o.t_events@[i]@.len() + 1 ==> o.fired(g, i)
    }
    pub open spec fn ev_complete(&self, o: &Self, g: Seq<f64>) -> bool {
        forall|i: int| 0 <= i < o.ode.n_events_spec() && o.fired(g, i) ==> (#[trigger] self.t_events@[i])@.len() == o.t_events@[i]@.len() + 1
    }
    pub open spec fn ev_state(&self, o: &Self, y: Seq<f64>, xold: f64, x: f64, interp: Option<&StepInterpolant<'_>>) -> bool {
        forall|i: int| 0 <= i < o.ode.n_events_spec() && (#[trigger] self.t_events@[i])@.len() == o.t_events@[i]@.len() + 1
            ==> Self::event_state_ok(self.t_events@[i]@.last(), self.y_events@[i]@.last()@, o.yold@, y, xold, x, interp, y.len())
    }
    pub open spec fn ev_not_terminal(&self, o: &Self) -> bool {
        forall|i: int| 0 <= i < o.ode.n_events_spec() && (#[trigger] self.t_events@[i])@.len() == o.t_events@[i]@.len() + 1 ==> !self.terminal_reached(i)
    }
    /// all event-table clauses of one callback, bundled for carrying through the sampling code
    pub open spec fn ev_all(&self, o: &Self, g: Seq<f64>, y: Seq<f64>, xold: f64, x: f64, interp: Option<&StepInterpolant<'_>>) -> bool {
        self.ev_refresh(o, g) && self.ev_append(o) && self.ev_genuine(o, g) && self.ev_complete(o, g) && self.ev_state(o, y, xold, x, interp) && self.ev_not_terminal(o)
    }
    /// the table of this step's events determines every clause (complete = the loop ran to the end)
    pub proof fn lemma_events_done(cur: &Self, s: &Self, det: Seq<(Float, usize, Vec<Float>)>, idx: int, g: Seq<f64>, y: Seq<f64>, xold: f64, x: f64, interp: Option<&StepInterpolant<'_>>, complete: bool)
        requires
            cur.processed(s, det, idx, s.ode.n_events_spec() as int), 0 <= idx <= det.len(), complete ==> idx == det.len(),
            forall|j: int| 0 <= j < s.ode.n_events_spec() ==> (s.fired(g, j) <==> #[trigger] has_idx(det, det.len() as int, j)),
            forall|k: int| 0 <= k < det.len() ==> Self::event_state_ok((#[trigger] det[k]).0, det[k].2@, s.yold@, y, xold, x, interp, y.len()),
        ensures
            cur.ev_append(s), cur.ev_genuine(s, g), complete ==> cur.ev_complete(s, g), cur.ev_state(s, y, xold, x, interp), cur.ev_not_terminal(s),
    {
        let ne = s.ode.n_events_spec() as int;
        assert forall|j: int| 0 <= j < ne implies (#[trigger] cur.t_events@[j])@.len() <= s.t_events@[j]@.len() + 1
                && cur.t_events@[j]@.take(s.t_events@[j]@.len() as int) =~= s.t_events@[j]@
                && (cur.t_events@[j]@.len() == s.t_events@[j]@.len() + 1 ==> s.fired(g, j) && !cur.terminal_reached(j)
                    && Self::event_state_ok(cur.t_events@[j]@.last(), cur.y_events@[j]@.last()@, s.yold@, y, xold, x, interp, y.len()))
                && (complete && s.fired(g, j) ==> cur.t_events@[j]@.len() == s.t_events@[j]@.len() + 1) by {
            Self::lemma_processed_facts(cur, s, det, idx, ne, j);
            if has_idx(det, idx, j) {
                let k = choose|k: int| 0 <= k < idx && (#[trigger] det[k]).1 == j && cur.t_events@[j]@.last() == det[k].0 && cur.y_events@[j]@.last()@ == det[k].2@ && !cur.terminal_reached(j);
                assert(has_idx(det, det.len() as int, j));
            }
        }
    }
''')
w.before('impl<\'a, F: IVP> DefaultSolOut<\'a, F> {', '''
/// a table sorted by time is a permutation of the table in detection order: the index column keeps its two properties
pub proof fn lemma_sorted_table(det0: Seq<(Float, usize, Vec<Float>)>, det: Seq<(Float, usize, Vec<Float>)>, pp: Seq<int>, qq: Seq<int>)
    requires is_perm_of(det, det0, pp, qq), forall|a: int, b: int| 0 <= a < b < det0.len() ==> (#[trigger] det0[a]).1 < (#[trigger] det0[b]).1,
    ensures distinct_idx(det), forall|j: int| has_idx(det0, det0.len() as int, j) <==> #[trigger] has_idx(det, det.len() as int, j),
{
    assert forall|a: int, b: int| 0 <= a < b < det.len() implies (#[trigger] det[a]).1 != (#[trigger] det[b]).1 by {
        assert(det[a] == det0[pp[a]] && det[b] == det0[pp[b]]);
        if det[a].1 == det[b].1 {
            if pp[a] < pp[b] { assert(det0[pp[a]].1 < det0[pp[b]].1); } else if pp[b] < pp[a] { assert(det0[pp[b]].1 < det0[pp[a]].1); }
            else { assert(qq[pp[a]] == a && qq[pp[b]] == b); }
        }
    }
    assert forall|j: int| has_idx(det0, det0.len() as int, j) <==> #[trigger] has_idx(det, det.len() as int, j) by {
        if has_idx(det0, det0.len() as int, j) { let k = choose|k: int| 0 <= k < det0.len() && (#[trigger] det0[k]).1 == j; assert(det[qq[k]] == det0[pp[qq[k]]]); assert(det[qq[k]].1 == j); }
        if has_idx(det, det.len() as int, j) { let k = choose|k: int| 0 <= k < det.len() && (#[trigger] det[k]).1 == j; assert(det[k] == det0[pp[k]]); assert(det0[pp[k]].1 == j); }
    }
}
''')
# replace the postconditions written by annot_solout2 by the predicate forms
i0 = w.find('            old(self).ode.n_events_spec() > 0 ==> final(self).prev_event@ == old(self).ode.g(*old(x), old(y)@),   // [C09]')
i1 = w.find('            r is Interrupt ==> exists|i: int| 0 <= i < old(self).ode.n_events_spec()')
w.L[i0:i1] = '''            final(self).ev_refresh(old(self), old(self).ode.g(*old(x), old(y)@)),   // [C09] events.prev_refreshed_on_every_path
            final(self).ev_append(old(self)),   // [C08 C09] events.at_most_one_appended
            final(self).ev_genuine(old(self), old(self).ode.g(*old(x), old(y)@)),   // [C08 C09] events.only_genuine_crossings
            !(r is Interrupt) ==> final(self).ev_complete(old(self), old(self).ode.g(*old(x), old(y)@)),   // [C09] events.every_crossing_recorded
            final(self).ev_state(old(self), old(y)@, xold, *old(x), interpolant),   // [C08] events.state_is_interpolant
            !(r is Interrupt) ==> final(self).ev_not_terminal(old(self)),   // [C10] terminal.continue_means_not_reached'''.split('\n')
# detection loop: config link
w.after('                        gx == self.ode.g(*x, y@), self.g_curr_buf@ == gx,   // [C09] detect.g', '''
                        s1.event_config@ == self.event_config@, s1.ode == self.ode,   // [C09] detect.cfg
''')
# ---- after sorting: transfer the table facts through the permutation
w.after("assert forall|k: int| 0 <= k < det.len() implies (#[trigger] det[k]).1 < n_events && det[k].2@.len() == n by { assert(det[k] == det0[pp[k]]); }", '''
                proof {
                    assert forall|k: int| 0 <= k < det.len() implies Self::event_state_ok((#[trigger] det[k]).0, det[k].2@, s1.yold@, y@, xold, *x, interpolant, n) by { assert(det[k] == det0[pp[k]]); }
                    lemma_sorted_table(det0, det, pp, qq);
                    done = 0;
                    assert forall|j: int| 0 <= j < n_events implies #[trigger] self.untouched(&s1, j) by {}
                }
''')
j = w.find('{ //~306')
w.L[j:j] = '''                        distinct_idx(det), gx == self.ode.g(*x, y@), self.g_curr_buf@ == gx, n_events == s1.ode.n_events_spec(), self.same_cfg(&s1),   // [C09] process.table
                        forall|j: int| 0 <= j < n_events ==> (s1.fired(gx, j) <==> #[trigger] has_idx(det, det.len() as int, j)),   // [C09] process.exactly_the_fired
                        forall|k: int| 0 <= k < det.len() ==> Self::event_state_ok((#[trigger] det[k]).0, det[k].2@, s1.yold@, y@, xold, *x, interpolant, n),   // [C08] process.state
                        self.processed(&s1, det, it.index@, n_events as int), done == it.index@,   // [C09 C10] process.recorded_once
                        s1.same_events(old(self)) && s1.yold@ == old(self).yold@ && s1.t@ == old(self).t@ && s1.y@ == old(self).y@ && s1.ode == old(self).ode && s1.next_idx == old(self).next_idx,   // [C09 C10] process.start_state'''.split('\n')
w.after('{ //~306', '''
                    let ghost idx = it.index@;
                    let ghost pre = *self;
                    proof { done = idx + 1; }
                    proof {
                        assert(det[idx] == (event_t, i, event_y));
                        Self::lemma_fresh_index(&pre, &s1, det, idx, n_events as int);
                    }
''')
w.before('                            assert(self.wf());', '''
                            proof {
                                let cur = *self;
                                assert(cur.recorded(&s1, det[idx]));
                                assert(has_idx(det, det.len() as int, i as int)) by { assert(det[idx].1 == i); }
                                assert(s1.fired(gx, i as int) && cur.terminal_reached(i as int));
                                // the terminal entry counts as recorded for the "earlier events are kept" clauses; it IS terminal, so drop that conjunct
                                assert(cur.ev_append(&s1) && cur.ev_genuine(&s1, gx) && cur.ev_state(&s1, y@, xold, *x, interpolant)) by {
                                    assert forall|j: int| 0 <= j < n_events implies (#[trigger] cur.t_events@[j])@.len() <= s1.t_events@[j]@.len() + 1
                                            && cur.t_events@[j]@.take(s1.t_events@[j]@.len() as int) =~= s1.t_events@[j]@
                                            && (cur.t_events@[j]@.len() == s1.t_events@[j]@.len() + 1 ==> s1.fired(gx, j)
                                                && Self::event_state_ok(cur.t_events@[j]@.last(), cur.y_events@[j]@.last()@, s1.yold@, y@, xold, *x, interpolant, n)) by {
                                        if j != i {
                                            Self::lemma_processed_facts(&pre, &s1, det, idx, n_events as int, j);
                                            if has_idx(det, idx, j) {
                                                let k = choose|k: int| 0 <= k < idx && (#[trigger] det[k]).1 == j && pre.t_events@[j]@.last() == det[k].0 && pre.y_events@[j]@.last()@ == det[k].2@ && !pre.terminal_reached(j);
                                                assert(has_idx(det, det.len() as int, j));
                                            }
                                        }
                                    }
                                }
                            }
''')
w.before('                } //~326', '''
                    proof { Self::lemma_process_step(&pre, &*self, &s1, det, idx, n_events as int); }
''')
w.before('                self.prev_event.copy_from_slice(&self.g_curr_buf); //~329', '''
                proof { assert(done == det.len()); Self::lemma_events_done(&*self, &s1, det, det.len() as int, gx, y@, xold, *x, interpolant, true); }
''')
w.before('        if self.yold.len() != y.len() //~334', '''
        let ghost s2 = *self;     // after event handling
        let ghost g0 = self.ode.g(*x, y@);
        assert(s2.ev_all(old(self), g0, y@, xold, *x, interpolant)) by {
            assert forall|j: int| 0 <= j < n_events implies old(self).fired(g0, j) == s0.fired(g0, j) by {}
            if !(n_events > 0 && old(self).yold@.len() > 0) {
                assert forall|j: int| 0 <= j < n_events implies (#[trigger] s2.t_events@[j]) == old(self).t_events@[j] by {}
            }
        }
        assert(s2.t@ == old(self).t@ && s2.y@ == old(self).y@ && s2.next_idx == old(self).next_idx && s2.first_output_done == old(self).first_output_done);
''')
EVC = "self.same_events(&s2), s2.ev_all(old(self), g0, y@, xold, *x, interpolant),   // [C08 C09 C10] events.carried"
for mark in ('decreases t_eval@.len() - i,   // [C04] term.teval_initial', 'decreases t_eval@.len() - i,   // [C04] term.teval_fwd', 'decreases t_eval@.len() - i,   // [C04] term.teval_bwd'):
    i = w.find(mark)
    w.L[i:i] = ['                            ' + EVC]
w.save()
