#!/usr/bin/env python3
"""seed_eval.py <seed-id> <source dir with patch.diff demo.rs meta.json> [props...]
1. confirms the seeded change in a scratch worktree (suite passes, demo fails with / passes without);
2. stores it as /verif/seeded/<id>/;
3. applies it to /repo, runs the property's check (and any extra listed), undoes it; records which obligations fired."""
import sys, os, json, subprocess, shutil, re
sid, src = sys.argv[1], sys.argv[2]
extra = sys.argv[3:]
dst = '/verif/seeded/' + sid
os.makedirs(dst, exist_ok=True)
for f in ('patch.diff', 'demo.rs', 'meta.json'):
    if os.path.abspath(src) != os.path.abspath(dst): shutil.copy(os.path.join(src, f), os.path.join(dst, f))
meta = json.load(open(os.path.join(dst, 'meta.json')))
prop = meta.get('property')
def sh(cmd, cwd=None, timeout=3000):
    p = subprocess.run(cmd, shell=True, cwd=cwd, capture_output=True, text=True, timeout=timeout)
    return p.returncode, p.stdout + p.stderr
RECHECK = os.environ.get('SEED_RECHECK') == '1' and meta.get('evaluation', {}).get('confirmed')
wt = '/tmp/sv-' + sid
if RECHECK:
    prev = meta['evaluation']
    base_ok, applied, demo_fails, suite_ok = prev['baseline_demo_passes'], prev['patch_applies'], prev['demo_fails_with_patch'], prev['suite_passes_with_patch']
if not RECHECK:
    sh('git -C /repo worktree remove --force %s' % wt)
    rc, out = sh('git -C /repo worktree add -q %s HEAD' % wt)
    env = 'CARGO_TARGET_DIR=%s/target CARGO_NET_OFFLINE=true' % wt
    shutil.copy(os.path.join(dst, 'demo.rs'), wt + '/tests/seed_demo.rs')
    rc0, out0 = sh('%s cargo test --offline --test seed_demo 2>&1 | tail -15' % env, cwd=wt)
    base_ok = 'test result: ok' in out0
    rc, out = sh('git apply %s/patch.diff' % dst, cwd=wt)
    applied = rc == 0
    rc1, out1 = sh('%s cargo test --offline --test seed_demo 2>&1 | tail -15' % env, cwd=wt)
    demo_fails = 'test result: FAILED' in out1 or 'panicked' in out1
    os.remove(wt + '/tests/seed_demo.rs')
    rc2, out2 = sh('%s cargo test --offline --no-fail-fast 2>&1 | grep -E "^test result|^error" ' % env, cwd=wt)
    suite_ok = 'FAILED' not in out2 and '\nerror' not in ('\n' + out2) and 'test result: ok' in out2
    sh('git -C /repo worktree remove --force %s' % wt)
confirmed = base_ok and applied and demo_fails and suite_ok
res = {'confirmed': confirmed, 'baseline_demo_passes': base_ok, 'patch_applies': applied, 'demo_fails_with_patch': demo_fails, 'suite_passes_with_patch': suite_ok}
det = {}
if confirmed:
    rc, out = sh('git -C /repo status --porcelain')
    assert out.strip() == '', 'repo not clean: ' + out
    rc, out = sh('git -C /repo apply %s/patch.diff' % dst)
    try:
        for p in [prop] + extra:
            rc, out = sh('./check %s --jobs 8' % p, cwd='/verif')
            det[p] = {'exit': rc, 'lines': [l for l in out.split('\n') if l.startswith(('VIOLATION', 'UNDECIDED', 'OK', 'KNOWN'))][:12]}
    finally:
        sh('git -C /repo checkout -- .')
        sh('git -C /verif checkout -- evidence')      # evidence files are only ever committed from runs on the unchanged tree
res['checks'] = det
res['detected'] = bool(det.get(prop, {}).get('exit') == 1)
meta['evaluation'] = res
json.dump(meta, open(os.path.join(dst, 'meta.json'), 'w'), indent=1)
print(json.dumps(res, indent=1))
