#!/usr/bin/env python3
"""MANIFEST.json is generated from props.json (what is claimed, at which level, with which
assumptions) and registry.json (which units serve which property) so that the two never drift."""
import json, os
ROOT = os.path.dirname(os.path.dirname(os.path.abspath(__file__)))
props = json.load(open(os.path.join(ROOT, "props.json")))
reg = json.load(open(os.path.join(ROOT, "registry.json")))
allp = [json.loads(l) for l in open(os.path.join(ROOT, "properties.jsonl"))]
checks = []; na = []
for p in allp:
    pid = p["id"]
    m = props.get(pid)
    units = [u["name"] for u in reg["units"] if pid in u.get("properties", [])]
    engines = [e["name"] for e in reg.get("engines", []) if pid in e.get("properties", [])]
    if m and m.get("claimed") and (units or engines):
        checks.append({
            "property_id": pid,
            "quick_cmd": "./check %s --tier quick" % pid,
            "thorough_cmd": "./check %s --tier thorough" % pid,
            "evidence_file": "/verif/evidence/%s.json" % pid,
            "replay_cmd_template": "./check %s --replay {path}" % pid,
            "engine": "vx+verus",
            "level_claimed": {"category": "proof", "text": m["level_text"], "design_ref": m.get("design_ref", "DESIGN.md §6 " + pid)},
            "level_note": m["level_note"],
            "technique": m.get("technique", "contract-based deductive verification (Verus) of the functions extracted mechanically from /repo on every run"),
        })
    else:
        na.append({"property_id": pid, "reason": (m or {}).get("na_reason", "no contract within reach of the installed verifiers decides this property (see DESIGN.md §6)")})
man = {
    "version": 1,
    "setup_cmd": "./setup.sh",
    "hooks": {"guard": "none", "enable": "no hook is compiled into /repo: contracts are woven into a mechanically extracted copy of the functions on every run (vx), Kani attributes are inserted into a scratch copy", "baseline_off_cmd": "cd /repo && cargo test --workspace --no-fail-fast --offline", "source_commits": [], "add_only": True},
    "engines": [
        {"name": "vx", "path": "/verif/vx", "serves_properties": [c["property_id"] for c in checks], "kind_free_text": "extractor + contract weaver (python3 stdlib): copies the named items verbatim from /repo/src on every run, applies the fixed rewrite list of DESIGN.md §3, weaves contracts/*.vspec, runs Verus, maps every diagnostic back to a named clause"},
        {"name": "verus", "path": "/opt/veriftools/verus", "serves_properties": [c["property_id"] for c in checks], "kind_free_text": "deductive verifier (Z3 back end), single-file mode"},
        {"name": "coef", "path": "/verif/coef", "serves_properties": sorted({p for e in reg.get("engines", []) if e["kind"].startswith("coef") for p in e.get("properties", [])}), "kind_free_text": "generators of coefficient lemmas (order conditions, continuous order conditions, Radau collocation conditions) from the constants and statements of /repo/src/methods on every run; discharged by Verus by(compute_only)"},
        {"name": "kani", "path": "/verif/kani/fltlemmas", "serves_properties": sorted({p for e in reg.get("engines", []) if e["kind"].startswith("kani") for p in e.get("properties", [])}), "kind_free_text": "Kani/CBMC lemma base: every IEEE axiom of prelude/ieee_axioms.rs is proved bit-precisely by a loop-free harness of the same name (complete proofs over all f64 bit patterns)"},
        {"name": "replay", "path": "/verif/replay", "serves_properties": [c["property_id"] for c in checks], "kind_free_text": "scenarios run against the real crate: supply the concrete failing input of a refuted obligation; in the thorough tier also run proactively (tests, never counted as proof)"},
    ],
    "checks": checks,
    "not_applicable": na,
    "notes": "Fix commits in /repo are listed in known_findings.json (fixed:) and DESIGN.md §8. exit 2 from a check = undecided (lost anchor / verifier resource-out / vacuity guard), never an alarm. When a unit is undecided the quick tier also runs the replay scenarios mapped to it (tests against the real crate): a failing one is reported as VIOLATION ... obligation=replay/<scenario> with its input, otherwise the exit code stays 2; the thorough tier always runs the scenarios of the property. Scenarios are never counted as obligations discharged.",
}
json.dump(man, open(os.path.join(ROOT, "MANIFEST.json"), "w"), indent=1)
print("claimed:", [c["property_id"] for c in checks]); print("not_applicable:", [n["property_id"] for n in na])
