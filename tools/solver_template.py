#!/usr/bin/env python3
"""development aid: weave the explicit-solver World-A contract template into a fresh work file.
usage: solver_template.py <unit> <k> <bufs comma list> <nfev_factor> [stiff]"""
import re, sys
unit, k, bufs, fac = sys.argv[1], int(sys.argv[2]), sys.argv[3].split(","), int(sys.argv[4])
stiff = len(sys.argv) > 5 and sys.argv[5] == "stiff"
total_first = len(sys.argv) > 6 and sys.argv[6] == "ge"   # budget test is `>= nmax` (total <= nmax) instead of `> nmax`
p = '/verif/work/%s.rs' % unit
L = open(p).read().split('\n')
out = []
LENS = ", ".join("%s.len() == n" % b for b in bufs) + ", cont.len() == %d * n, atol.ok(n as nat), rtol.ok(n as nat)," % k
in_solve = False; in_interp = False
bound = "nmax" if total_first else "nmax + 1"
exh = ">= nmax" if total_first else "> nmax"
for i, l in enumerate(L):
    out.append(l)
    if 'pub fn solve < F, S >' in l:
        in_solve = True
        out += ('''        requires
            %d * y0@.len() <= usize::MAX,
            self.max_steps < 0x7fff_0000,
            atol.ok(y0@.len() as nat), rtol.ok(y0@.len() as nat),
            old(tr).solout_calls == 0, !old(tr).stopped, old(tr).x0 == x0, old(tr).y0 == y0@,
        ensures
            final(tr).same_run(old(tr)),   // [C19] trace.same_run
            r is Ok ==> (r->Ok_0).evals.ode == final(tr).ode_calls - old(tr).ode_calls,      // [C18] nfev.exact
            r is Ok ==> (r->Ok_0).evals.jac == final(tr).jac_calls - old(tr).jac_calls,      // [C18] njev.exact
            r is Ok && solout is Some ==> final(tr).solout_calls == (r->Ok_0).steps.accepted + 1,   // [C18 C19] naccpt.callbacks
            r is Ok && solout is None ==> final(tr).solout_calls == 0,                       // [C19] proto.no_callback_without_handler
            r is Ok ==> (r->Ok_0).steps.accepted <= (r->Ok_0).steps.total,                  // [C18] nstep.ge_naccpt
            r is Ok ==> ((r->Ok_0).status is UserInterrupt <==> final(tr).stopped),          // [C19 C10 C03] status.interrupt
            r is Ok ==> !((r->Ok_0).status is SingularMatrix) && !((r->Ok_0).status is PoorConvergence),   // [C03] status.range
            r is Ok && (r->Ok_0).status is NeedLargerNMax ==> (r->Ok_0).steps.total %s,   // [C11] budget.exhausted
            r is Ok ==> (r->Ok_0).steps.total <= %s,                         // [C11] budget.bound
            r is Err ==> final(tr).ode_calls == old(tr).ode_calls && final(tr).solout_calls == 0,   // [C18] err.no_calls''' % (k, exh.replace("nmax", "self.max_steps"), bound.replace("nmax", "self.max_steps"))).split('\n')
    if in_solve and l.strip().startswith('{ //~') and 'pub fn solve' in L[i-1]:
        out += ['        let ghost so_some = solout is Some;',
                '        proof { if vac(1) { assert(false); } }   // [vacuity] vac.solve_entry']
    if 'pub fn interpolate' in l:
        in_solve = False; in_interp = True
        out += ['        requires cont@.len() == %d * old(yi)@.len()   // [C04 C06] interp.layout' % k,
                '        ensures final(yi)@.len() == old(yi)@.len()   // [C04 C06] interp.len']
    if in_solve and re.match(r'\s+loop //~', l):
        out += ('''            invariant_except_break
                !tr.stopped,   // [C19 C10 C03] status.running
''' + ('''                0 <= iasti < 15,   // [C04] safety.iasti
''' if stiff else '') + '''            invariant
                ''' + LENS + '''   // [C04] safety.lens
                nmax == self.max_steps, nmax < 0x7fff_0000,''' + (''' nstiff > 0, 0 <= nonstiff <= steps.accepted,''' if stiff else '') + '''   // [C04] safety.counters
                steps.total <= ''' + bound + ''',   // [C11] budget.inv
                steps.accepted <= steps.total,   // [C18] nstep.inv
                steps.rejected <= steps.total,   // [C04] safety.rejected
                tr.same_run(old(tr)),   // [C19] trace.same_run_inv
                evals.ode == tr.ode_calls - old(tr).ode_calls,   // [C18] nfev.inv
                evals.jac == 0, tr.jac_calls == old(tr).jac_calls,   // [C18] njev.inv
                evals.ode <= ''' + str(fac) + ''' * steps.total + 3,   // [C04] safety.nfev_bound
                k1@ == f.rhs(x, y@),   // [C19 C02] fsal.inv
                tr.solout_calls > 0 ==> tr.last_x == x,   // [C19 C06] proto.contiguous_inv
                (solout is Some) == so_some,   // [C19] proto.handler_kept
                solout is Some ==> tr.solout_calls == steps.accepted + 1,   // [C18 C19] naccpt.inv
                solout is None ==> tr.solout_calls == 0,   // [C19] proto.none_inv
            ensures
                (status is UserInterrupt) == tr.stopped,   // [C19 C10 C03] status.interrupt_loop
                !(status is SingularMatrix) && !(status is PoorConvergence),   // [C03] status.range_loop
                status is NeedLargerNMax ==> steps.total ''' + exh + ''',   // [C11] budget.exhausted_loop
                steps.total <= ''' + bound + ''',   // [C11] budget.bound_loop
                steps.accepted <= steps.total,   // [C18] nstep.loop
                tr.same_run(old(tr)),   // [C19] trace.same_run_loop
                evals.ode == tr.ode_calls - old(tr).ode_calls,   // [C18] nfev.loop
                evals.jac == 0, tr.jac_calls == old(tr).jac_calls,   // [C18] njev.loop
                (solout is Some) == so_some,   // [C19] proto.handler_kept_loop
                solout is Some ==> tr.solout_calls == steps.accepted + 1,   // [C18 C19] naccpt.loop
                solout is None ==> tr.solout_calls == 0,   // [C19] proto.none_loop
            decreases nmax + 2 - steps.total,   // [C04] term.main''').split('\n')
    if in_solve and l.strip().startswith('{ //~') and re.match(r'\s+loop //~', L[i-1]):
        out += ['            proof { if vac(2) { assert(false); } }   // [vacuity] vac.main_loop']
    if in_solve and re.match(r'\s+for i in 0 \.\. n //~', l):
        out += ['                invariant ' + LENS + '   // [C04] safety.lens']
    if in_interp and re.match(r'\s+for i in 0 \.\. n //~', l):
        out += ['            invariant n == cont@.len() / %d, yi@.len() == n, cont@.len() == %d * n, cont@.len() <= usize::MAX,   // [C04] safety.lens' % (k, k)]
open(p, 'w').write('\n'.join(out))
