import sys, re; sys.path.insert(0, '/verif/tools')
from annot import Work
unit = sys.argv[1]
R = unit.endswith('_R')
w = Work('/verif/work/%s.rs' % unit)
i = w.find('while k < t_eval.len() && (if forward //~')
w.L[i:i] = ['                                let ghost sT = *self;     // before the requested times that precede the event are emitted',
            '                                #[verifier::loop_isolation(false)]']
j = w.find('let mut yi = vec![0.0; y.len()]; //~324') - 1     # the body brace line
assert w.L[j].strip().startswith('{ //~'), w.L[j]
inv = '''                                    invariant
                                        self.wf(), k <= t_eval@.len(), sT.next_idx <= k, self.t_eval is Some && t_eval@ == self.t_eval->Some_0@,   // [C04 C05] terminal.scan
                                        *self == (DefaultSolOut { t: self.t, y: self.y, ..sT }),   // [C12 C10] terminal.only_samples_appended
                                        self.t@.len() >= sT.t@.len() && self.t@.take(sT.t@.len() as int) =~= sT.t@,   // [C10 C05] terminal.earlier_samples_kept'''
if R:
    inv += '''
                                        self.t@ =~= sT.t@ + t_eval@.subrange(sT.next_idx as int, k as int),   // [C05] terminal.requested_times_appended_in_order'''
inv += '''
                                    decreases t_eval@.len() - k,   // [C04] term.teval_terminal'''
w.L[j:j] = inv.split('\n')
# postconditions
a = w.find('                && final(self).t@ == old(self).t@.push((#[trigger] final(self).t_events@[i])@.last()) && final(self).y@.len() == old(self).y@.len() + 1')
w.L[a] = '                && final(self).t@.len() >= old(self).t@.len() + 1 && final(self).t@.take(old(self).t@.len() as int) =~= old(self).t@ && final(self).t@.last() == (#[trigger] final(self).t_events@[i])@.last()'
if not R:
    b = w.find('            r is Interrupt ==> final(self).next_idx == old(self).next_idx && final(self).yold@ == old(self).yold@,   // [C10 C05] terminal.no_sampling_after_event')
    w.L[b] = '            r is Interrupt ==> final(self).yold@ == old(self).yold@,   // [C10] terminal.no_state_history_update_after_event'
else:
    b = w.find('// [C05] teval.requested_times_before_terminal_event_reported')
    w.L[b + 1:b + 1] = ['''            r is Interrupt && old(self).t_eval is Some && !old(tr).stopped ==> final(self).t@ =~= old(self).t_eval->Some_0@.take(final(self).next_idx as int).push(final(self).t@.last()),   // [C05] teval.terminal_run_reports_requested_prefix_then_event_point''']
w.save()
