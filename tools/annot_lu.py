import sys, re; sys.path.insert(0, '/verif/tools')
from annot import Work
w = Work('/verif/work/lu_A.rs')
INV = "a.wf(), a.storage is Full, a.n == n, a.m == n, ip@.len() == n, n >= 2, nm1 == n - 1, n == old(a).n, n == old(a).m, old(ip)@.len() == n,"
w.after('pub fn lu_decomp(a: &mut Matrix, ip: &mut [usize]) -> (r: Result < (), Error >) //~', '''
    requires old(a).wf(), old(a).storage is Full, old(a).n >= 1,   // (a 0x0 matrix underflows `n - 1`: stated precondition)
    ensures
        final(a).wf(), final(a).n == old(a).n, final(a).m == old(a).m, final(a).storage is Full, final(ip)@.len() == old(ip)@.len(),   // [C16 C04] lu.shape_kept
        old(a).n != old(a).m ==> r == Err::<(), Error>(Error::LinearAlgebra(LinearAlgebraError::NonSquareMatrix { rows: old(a).n, cols: old(a).m })),   // [C16] lu.err_non_square
        old(a).n == old(a).m && old(ip)@.len() != old(a).n ==> r == Err::<(), Error>(Error::LinearAlgebra(LinearAlgebraError::PivotSizeMismatch { expected: old(a).n, actual: old(ip)@.len() as usize })),   // [C16] lu.err_pivot_len
        old(a).n == old(a).m && old(ip)@.len() == old(a).n ==> (r is Ok || r == Err::<(), Error>(Error::LinearAlgebra(LinearAlgebraError::SingularMatrix))),   // [C16] lu.err_only_singular
        r is Ok ==> forall|k: int| 0 <= k < old(a).n - 1 ==> k <= #[trigger] final(ip)@[k] < old(a).n,   // [C16] lu.pivot_indices_in_range
        r is Ok ==> forall|k: int| 0 <= k < old(a).n ==> !(#[trigger] final(a).at(k, k)).eq_spec(&0.0f64),   // [C16] lu.ok_means_no_zero_pivot
''')
i = w.find('pub fn lu_decomp(a: &mut Matrix')
j = next(k for k in range(i, len(w.L)) if w.L[k].strip().startswith('{ //~'))
w.L[j + 1:j + 1] = ['    proof { if vac(1) { assert(false); } }   // [vacuity] vac.lu_entry']
w.after('    for k in 0 .. nm1 //~', '''
        invariant ''' + INV + '''   // [C04] safety.lens
            forall|kk: int| 0 <= kk < k ==> kk <= #[trigger] ip@[kk] < n,   // [C16] lu.pivot_indices_inv
            forall|kk: int| 0 <= kk < k ==> !(#[trigger] a.at(kk, kk)).eq_spec(&0.0f64),   // [C16] lu.nonzero_pivots_inv
''')
w.after('        let mut max_val = (* a.index((k, k))).abs(); //~', '''
        let ghost a_search = *a;
''')
w.after('        for i in kp1 .. n //~68', '''
            invariant ''' + INV + ''' k < nm1, kp1 == k + 1, k <= m < n, m < i, *a == a_search,   // [C04] safety.lens
                max_val == s_abs(a.at(m as int, k as int)),   // [C16] lu.max_tracks_candidate
                forall|ii: int| k <= ii < i ==> !f_gt(s_abs(#[trigger] a.at(ii, k as int)), s_abs(a.at(m as int, k as int))),   // [C16] lu.candidate_is_maximal_so_far
''')
w.after('            let val = (* a.index((i, k))).abs(); //~', '''
            let ghost m_old = m;
''')
w.after('                m = i; //~', '''
                proof {
                    assert forall|ii: int| k <= ii < i + 1 implies !f_gt(s_abs(#[trigger] a.at(ii, k as int)), s_abs(a.at(m as int, k as int))) by {
                        if ii < i { ieee::ngt_trans(s_abs(a.at(ii, k as int)), s_abs(a.at(m_old as int, k as int)), s_abs(a.at(i as int, k as int))); }
                        else { ieee::gt_irrefl(s_abs(a.at(i as int, k as int))); }
                    }
                }
''')
w.before('        ip[k] = m; //~', '''
        // the chosen pivot has maximal magnitude in column k among rows k..n, and it is the row recorded in ip[k]
        assert(forall|ii: int| k <= ii < n ==> !f_gt(s_abs(#[trigger] a.at(ii, k as int)), s_abs(a.at(m as int, k as int))));   // [C16] lu.pivot_has_maximal_magnitude
        let ghost piv_row = m;
''')
w.after('        ip[k] = m; //~', '''
        assert(ip@[k as int] == piv_row);   // [C16] lu.recorded_pivot_is_the_selected_row
''')
w.after('        let t = 1.0 / pivot; //~', '''
        assert(a.at(k as int, k as int) == pivot && !pivot.eq_spec(&0.0f64));   // [C16] lu.pivot_moved_to_diagonal
''')
for mark in ('        for i in kp1 .. n //~94',):
    w.after(mark, '''
            invariant ''' + INV + ''' k < nm1, kp1 == k + 1, k <= m < n,   // [C04] safety.lens
                a.at(k as int, k as int) == pivot, forall|kk: int| 0 <= kk < k ==> !(#[trigger] a.at(kk, kk)).eq_spec(&0.0f64),   // [C16] lu.diagonal_kept
''')
w.after('        for j in kp1 .. n //~99', '''
            invariant ''' + INV + ''' k < nm1, kp1 == k + 1, k <= m < n,   // [C04] safety.lens
                a.at(k as int, k as int) == pivot, forall|kk: int| 0 <= kk < k ==> !(#[trigger] a.at(kk, kk)).eq_spec(&0.0f64),   // [C16] lu.diagonal_kept
''')
w.after('                for i in kp1 .. n //~112', '''
                    invariant ''' + INV + ''' k < nm1, kp1 == k + 1, k <= m < n, kp1 <= j < n,   // [C04] safety.lens
                        a.at(k as int, k as int) == pivot, forall|kk: int| 0 <= kk < k ==> !(#[trigger] a.at(kk, kk)).eq_spec(&0.0f64),   // [C16] lu.diagonal_kept
''')
# lin_solve
w.after('pub fn lin_solve(a: &Matrix, b: &mut [Float], ip: &[usize]) //~', '''
    requires a.wf(), a.n == a.m, a.n >= 1, old(b)@.len() == a.n, ip@.len() == a.n,
        forall|k: int| 0 <= k < a.n - 1 ==> k <= #[trigger] ip@[k] < a.n,   // what lu_decomp guarantees on Ok
    ensures final(b)@.len() == old(b)@.len()   // [C16 C04] solve.only_rhs_modified (a and ip are shared references: frame by type)
''')
i = w.find('pub fn lin_solve(a: &Matrix')
j = next(k for k in range(i, len(w.L)) if w.L[k].strip().startswith('{ //~'))
w.L[j + 1:j + 1] = ['    proof { if vac(2) { assert(false); } }   // [vacuity] vac.solve_entry']
SINV = "a.wf(), a.n == n, a.m == n, b@.len() == n, ip@.len() == n, n >= 2, nm1 == n - 1, forall|kk: int| 0 <= kk < n - 1 ==> kk <= #[trigger] ip@[kk] < n,"
w.after('    for k in 0 .. nm1 //~67', '        invariant ' + SINV + '   // [C04] safety.lens')
w.after('        for i in kp1 .. n //~76', '            invariant ' + SINV + ' k < nm1, kp1 == k + 1,   // [C04] safety.lens')
w.after('    for kb in 1 .. n //~82', '        invariant ' + SINV + '   // [C04] safety.lens')
w.after('        for i in 0 .. k //~89', '            invariant ' + SINV + ' 1 <= k < n,   // [C04] safety.lens')
w.save()
