import sys, re; sys.path.insert(0, '/verif/tools')
from annot import Work
w = Work('/verif/work/matrix_A.rs')
w.before('//#take src/matrix/index.rs impl Index < ( usize , usize ) > for Matrix | as_inherent', '''
pub open spec fn IMAX() -> int { 0x7fff_ffff_ffff_ffff }
impl Matrix {
    /// representation invariant per storage scheme (Identity and Banded matrices are square)
    pub open spec fn wf(&self) -> bool {
        &&& self.n <= IMAX() && self.m <= IMAX()
        &&& match self.storage {
            MatrixStorage::Identity => self.n == self.m && self.data@.len() == 2 && self.data@[0] == 1.0f64 && self.data@[1] == 0.0f64,
            MatrixStorage::Full => self.data@.len() == self.n * self.m,
            MatrixStorage::Banded { ml, mu } => self.n == self.m && ml + mu < IMAX() && self.data@.len() == (ml + mu + 1) * self.n,
        }
    }
    /// (i, j) is a stored entry of a banded matrix
    pub open spec fn in_band(&self, i: int, j: int) -> bool {
        match self.storage { MatrixStorage::Banded { ml, mu } => 0 - (mu as int) <= i - j <= ml as int, _ => true }
    }
    /// the mathematical entry (i, j): the dense view, whatever the storage   [C17]
    pub open spec fn at(&self, i: int, j: int) -> f64 {
        match self.storage {
            MatrixStorage::Identity => if i == j { 1.0f64 } else { 0.0f64 },
            MatrixStorage::Full => self.data@[self.slot_of(i, j)],
            MatrixStorage::Banded { ml, mu } => if self.in_band(i, j) { self.data@[self.slot_of(i, j)] } else { 0.0f64 },
        }
    }
    /// where entry (i, j) is stored (Full: row-major; Banded: LAPACK-style band row i-j+mu)
    pub open spec fn slot_of(&self, i: int, j: int) -> int {
        match self.storage {
            MatrixStorage::Banded { ml, mu } => (i - j + mu) * self.m + j,
            _ => i * self.m + j,
        }
    }
    /// entries that can be written through indexing
    pub open spec fn writable(&self, i: int, j: int) -> bool {
        match self.storage { MatrixStorage::Identity => false, MatrixStorage::Full => true, MatrixStorage::Banded { .. } => self.in_band(i, j) }
    }
    /// every stored value equals v
    pub open spec fn all_stored(&self, v: f64) -> bool { forall|k: int| 0 <= k < self.data@.len() ==> #[trigger] self.data@[k] == v }
    /// a Full or Banded matrix whose stored values are all 0 has only zero entries   [C17]
    pub proof fn lemma_uniform_entries(&self)
        requires self.wf(), !(self.storage is Identity), self.all_stored(0.0f64)
        ensures forall|i: int, j: int| 0 <= i < self.n && 0 <= j < self.m ==> #[trigger] self.at(i, j) == 0.0f64   // [C17] lemma.zero_storage_is_zero_matrix
    {
        assert forall|i: int, j: int| 0 <= i < self.n && 0 <= j < self.m implies #[trigger] self.at(i, j) == 0.0f64 by {
            if self.storage is Full { Self::lemma_slot(i, j, self.n as int, self.m as int); }
            if let MatrixStorage::Banded { ml, mu } = self.storage { if self.in_band(i, j) { Self::lemma_slot(i - j + mu, j, ml + mu + 1, self.m as int); } }
        }
    }
    /// Matrix::diagonal(d): the entries are d on the diagonal and 0 elsewhere   [C17]
    pub proof fn lemma_diagonal_entries(&self)
        requires self.wf(), self.storage == (MatrixStorage::Banded { ml: 0, mu: 0 })
        ensures forall|i: int, j: int| 0 <= i < self.n && 0 <= j < self.n ==> #[trigger] self.at(i, j) == (if i == j { self.data@[i] } else { 0.0f64 })   // [C17] lemma.diagonal_entries
    {
        assert forall|i: int, j: int| 0 <= i < self.n && 0 <= j < self.n implies #[trigger] self.at(i, j) == (if i == j { self.data@[i] } else { 0.0f64 }) by {
            if i == j { assert((i - j + 0) * self.m + j == j) by (nonlinear_arith) requires i == j; }
        }
    }
    pub proof fn lemma_slot(row: int, j: int, rows: int, n: int)
        requires 0 <= row < rows, 0 <= j < n
        ensures 0 <= row * n + j < rows * n
    {
        assert(row * n + j < rows * n) by (nonlinear_arith) requires 0 <= row < rows, 0 <= j < n;
        assert(0 <= row * n) by (nonlinear_arith) requires 0 <= row, 0 <= n;
    }
}
''')
w.after('    pub fn index(&self, index: (usize, usize)) -> (r: &Float) //~', '''
        requires self.wf(), index.0 < self.n, index.1 < self.m   // [C17 C04] index.in_range (documented panic otherwise)
        ensures *r == self.at(index.0 as int, index.1 as int)   // [C17 C15] index.reads_dense_view
''')
i = w.find('    pub fn index(&self, index: (usize, usize))')
j = next(k for k in range(i, len(w.L)) if 'let (i, j) = index; //~' in w.L[k])
w.L[j + 1:j + 1] = ['        proof { if vac(1) { assert(false); } }   // [vacuity] vac.index_entry',
                    '        proof { if self.storage is Full { Self::lemma_slot(i as int, j as int, self.n as int, self.m as int); }',
                    '                if let MatrixStorage::Banded { ml, mu } = self.storage { if self.in_band(i as int, j as int) { Self::lemma_slot(i - j + mu, j as int, ml + mu + 1, self.m as int); } } }']
w.after('    pub fn index_mut(&mut self, p1_: (usize, usize)) -> (r: &mut Float) //~', '''
        requires old(self).wf(), p1_.0 < old(self).n, p1_.1 < old(self).m,   // [C17 C04] index_mut.in_range
            old(self).writable(p1_.0 as int, p1_.1 as int),   // [C17] index_mut.identity_and_off_band_writes_panic
        ensures
            *r == old(self).at(p1_.0 as int, p1_.1 as int),   // [C17] index_mut.reads_dense_view
            final(self).n == old(self).n && final(self).m == old(self).m && final(self).storage == old(self).storage && final(self).wf(),   // [C17] index_mut.shape_kept
            final(self).at(p1_.0 as int, p1_.1 as int) == *final(r),   // [C17] index_mut.writes_addressed_entry
            forall|a: int, b: int| 0 <= a < old(self).n && 0 <= b < old(self).m && !(a == p1_.0 && b == p1_.1) ==> #[trigger] final(self).at(a, b) == old(self).at(a, b),   // [C17 C16] index_mut.other_entries_untouched
''')
w.save()
