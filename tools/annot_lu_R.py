#!/usr/bin/env python3
"""development aid: author the lu_R contracts on a freshly extracted work file (run after `vxcli edit lu_R` on the
contract-free skeleton). The frozen vspec is what the checks use."""
import sys
sys.path.insert(0, '/verif/tools')
from annot import Work
w = Work('/verif/work/lu_R.rs')
w.before("//#take src/matrix/lu.rs fn lu_decomp", open('/verif/tools/lu_math.txt').read())

LENS_S = "a.wf(), a.n == n, a.m == n, b@.len() == old(b)@.len(), b@.len() >= n, ip@.len() == n, n >= 2, nm1 == n - 1, piv_ok(ip@, n as int), forall|kk: int| 0 <= kk < n ==> ra(*a, kk, kk) != 0real,   // [C04] safety.lens"


# ------------------------------------------------------------------ lu_decomp
w.lo_marker = "//#take src/matrix/lu.rs fn lu_decomp"
LENS = "a.wf(), a.storage is Full, a.n == n, a.m == n, ip@.len() == n, n >= 2, nm1 == n - 1, n == old(a).n, n == old(a).m, old(ip)@.len() == n,   // [C04] safety.lens"
w.after("pub fn lu_decomp(a: &mut Matrix, ip: &mut [usize]) -> (r: Result < (), Error >) //~37", """
    requires old(a).wf(), old(a).storage is Full, old(a).n >= 1,   // (a 0x0 matrix underflows `n - 1`: stated precondition)
    ensures
        final(a).wf(), final(a).n == old(a).n, final(a).m == old(a).m, final(a).storage is Full, final(ip)@.len() == old(ip)@.len(),   // [C16 C04] lu.shape_kept
        r is Ok ==> old(a).n == old(a).m && old(ip)@.len() == old(a).n,   // [C16] lu.ok_only_for_square_with_matching_pivot_slice
        r is Ok ==> piv_ok(final(ip)@, old(a).n as int),   // [C16] lu.pivot_indices_in_range
        r is Ok ==> forall|k: int| 0 <= k < old(a).n ==> #[trigger] ra(*final(a), k, k) != 0real,   // [C16] lu.ok_means_no_zero_pivot
        r is Ok ==> forall|k: int, i: int| 0 <= k < i < old(a).n ==> rabs(#[trigger] ra(*final(a), i, k)) <= 1real,   // [C16] lu.multipliers_at_most_one
        r is Ok ==> dec_post(*old(a), *final(a), final(ip)@, old(a).n as int),   // [C16] lu.forward_phase_maps_every_column_of_A_to_U
""")
w.after("{ //~37", """
    proof { if vac(1) { assert(false); } }   // [vacuity] vac.lu_entry
    let ghost a0 = *a;
""")
w.before("return Ok(()); //~58", """
        proof {
            assert forall|j: int| 0 <= j < 1 implies fwd(*a, ip@, 0, #[trigger] colv(a0, 1, j)) == ucol(*a, 1, j) by { assert(colv(a0, 1, j) =~= ucol(*a, 1, j)); }
        }
""")
w.before("for k in 0 .. nm1 //~62", """
    proof { lemma_dec_init(a0, ip@, n as int); }
""")
w.after("for k in 0 .. nm1 //~62", """
        invariant """ + LENS + """
            a0 == *old(a),
            dec_inv(a0, *a, ip@, n as int, k as int),   // [C16] lu.k_forward_steps_map_A_to_the_work_matrix
            forall|kk: int| 0 <= kk < k ==> kk <= #[trigger] ip@[kk] < n,   // [C16] lu.pivot_indices_inv
            forall|kk: int| 0 <= kk < k ==> R(#[trigger] a.at(kk, kk)) != 0real,   // [C16] lu.nonzero_pivots_inv
            forall|kk: int, i: int| 0 <= kk < k && kk < i < n ==> rabs(R(#[trigger] a.at(i, kk))) <= 1real,   // [C16] lu.multipliers_inv
""")
w.after("let mut max_val = (* a.index((k, k))).abs(); //~67", """
        let ghost ak = *a;
        let ghost ipk = ip@;
""")
w.after("for i in kp1 .. n //~68", """
            invariant """ + LENS + """
                k < nm1, kp1 == k + 1, k <= m < n, m < i, *a == ak,
                max_val == s_abs(a.at(m as int, k as int)),   // [C16] lu.max_tracks_candidate
                forall|ii: int| k <= ii < i ==> rabs(R(#[trigger] ak.at(ii, k as int))) <= rabs(ra(ak, m as int, k as int)),   // [C16] lu.candidate_is_maximal_so_far
""")
w.after("let pivot = (* a.index((m, k))); //~78", """
        let ghost p = ra(ak, m as int, k as int);
        assert(forall|ii: int| k <= ii < n ==> rabs(#[trigger] ra(ak, ii, k as int)) <= rabs(p));   // [C16] lu.pivot_has_maximal_magnitude
        assert(ip@[k as int] == m && forall|kk: int| 0 <= kk < k ==> #[trigger] ip@[kk] == ipk[kk]);   // [C16] lu.recorded_pivot_is_the_selected_row
""")
w.after("} //~90", """
        let ghost a_s = *a;
        assert(forall|ii: int, jj: int| 0 <= ii < n && 0 <= jj < n ==> #[trigger] a_s.at(ii, jj) == (if jj == k && ii == m { ak.at(k as int, k as int) } else if jj == k && ii == k { ak.at(m as int, k as int) } else { ak.at(ii, jj) }));   // [C16] lu.column_k_interchanged
""")
w.after("let t = 1.0 / pivot; //~93", """
        assert(R(pivot) == p && p != 0real && R(t) == 1real / p);   // [C16] lu.reciprocal_of_the_pivot
""")
w.after("for i in kp1 .. n //~94", """
            invariant """ + LENS + """
                k < nm1, kp1 == k + 1, k <= m < n, R(t) == 1real / p, a_s.wf(), a_s.n == n, a_s.m == n,
                forall|ii: int| k < ii < i ==> R(#[trigger] a.at(ii, k as int)) == 0real - ra(a_s, ii, k as int) * (1real / p),   // [C16] lu.multipliers_stored_negated
                forall|ii: int, jj: int| 0 <= ii < n && 0 <= jj < n && !(jj == k && k < ii < i) ==> #[trigger] a.at(ii, jj) == a_s.at(ii, jj),   // [C16] lu.scaling_touches_only_column_k_below_the_diagonal
""")
w.after("(* a.index_mut((i, k))) = vneg((* a.index((i, k)))) * t; //~95", """
                assert(ra(*a, i as int, k as int) == (0real - ra(a_s, i as int, k as int)) * (1real / p));   // [C16] lu.multiplier_value
                assert((0real - ra(a_s, i as int, k as int)) * (1real / p) == 0real - ra(a_s, i as int, k as int) * (1real / p)) by (nonlinear_arith);
""")
w.before("for j in kp1 .. n //~99", """
        let ghost a_c = *a;
""")
w.after("for j in kp1 .. n //~99", """
            invariant """ + LENS + """
                k < nm1, kp1 == k + 1, k <= m < n, a_c.wf(), a_c.n == n, a_c.m == n, ak.wf(), ak.n == n, ak.m == n,
                forall|ii: int, jj: int| 0 <= ii < n && k < jj < n ==> #[trigger] a_c.at(ii, jj) == ak.at(ii, jj),
                forall|ii: int, jj: int| 0 <= ii < n && 0 <= jj < n && (jj <= k || jj >= j) ==> #[trigger] a.at(ii, jj) == a_c.at(ii, jj),   // [C16] lu.columns_not_yet_eliminated_untouched
                forall|ii: int, jj: int| 0 <= ii < k && 0 <= jj < n ==> #[trigger] a.at(ii, jj) == a_c.at(ii, jj),   // [C16] lu.rows_above_untouched
                forall|jj: int| k < jj < j ==> R(#[trigger] a.at(k as int, jj)) == ra(ak, m as int, jj),   // [C16] lu.pivot_row_moved_up
                forall|ii: int, jj: int| k < ii < n && k < jj < j ==> R(#[trigger] a.at(ii, jj)) == sw(ak, k as int, m as int, ii, jj) + ra(a_c, ii, k as int) * ra(ak, m as int, jj),   // [C16] lu.eliminated_columns
""")
w.after("let tj = (* a.index((m, j))); //~101", """
            assert(tj == ak.at(m as int, j as int));   // [C16] lu.tj_is_the_pivot_row_entry
            let ghost a_b = *a;
""")
w.after("} //~108", """
            let ghost a_j = *a;
            assert(forall|ii: int, jj: int| 0 <= ii < n && 0 <= jj < n ==> #[trigger] a_j.at(ii, jj) == (if jj == j && ii == m { ak.at(k as int, j as int) } else if jj == j && ii == k { ak.at(m as int, j as int) } else { a_b.at(ii, jj) }));   // [C16] lu.row_entries_interchanged
""")
w.after("for i in kp1 .. n //~112", """
                    invariant """ + LENS + """
                        k < nm1, kp1 == k + 1, k <= m < n, kp1 <= j < n, a_j.wf(), a_j.n == n, a_j.m == n,
                        forall|ii: int| k < ii < i ==> R(#[trigger] a.at(ii, j as int)) == ra(a_j, ii, j as int) + ra(a_j, ii, k as int) * R(tj),   // [C16] lu.column_j_rows_done
                        forall|ii: int, jj: int| 0 <= ii < n && 0 <= jj < n && !(jj == j && k < ii < i) ==> #[trigger] a.at(ii, jj) == a_j.at(ii, jj),   // [C16] lu.elimination_touches_only_column_j_below_row_k
""")
w.after("} //~115", """
            proof {
                assert forall|ii: int| k < ii < n implies R(#[trigger] a.at(ii, j as int)) == sw(ak, k as int, m as int, ii, j as int) + ra(a_c, ii, k as int) * ra(ak, m as int, j as int) by {
                    assert(ra(a_j, ii, j as int) == sw(ak, k as int, m as int, ii, j as int));
                    assert(a_j.at(ii, k as int) == a_c.at(ii, k as int));
                    if R(tj) == 0real { lemma_mul_zero_r(ra(a_c, ii, k as int), R(tj)); assert(a.at(ii, j as int) == a_j.at(ii, j as int)); }
                }
            }
""")
w.after("} //~116", """
        proof {
            assert(dec_step_rel(ak, *a, n as int, k as int, m as int)) by {
                assert forall|i: int| k < i < n implies #[trigger] ra(*a, i, k as int) == 0real - sw(ak, k as int, m as int, i, k as int) * (1real / ra(ak, m as int, k as int)) by {
                    assert(a.at(i, k as int) == a_c.at(i, k as int));
                    assert(ra(a_s, i, k as int) == sw(ak, k as int, m as int, i, k as int));
                }
                assert forall|i: int, j: int| k < i < n && k < j < n implies #[trigger] ra(*a, i, j) == sw(ak, k as int, m as int, i, j) + ra(*a, i, k as int) * ra(ak, m as int, j) by {
                    assert(a.at(i, k as int) == a_c.at(i, k as int));
                }
                assert forall|j: int| k <= j < n implies #[trigger] ra(*a, k as int, j) == ra(ak, m as int, j) by {
                    if j == k { assert(a.at(k as int, k as int) == a_c.at(k as int, k as int)); assert(a_c.at(k as int, k as int) == a_s.at(k as int, k as int)); }
                }
                assert forall|i: int, j: int| 0 <= i < n && 0 <= j < n && (i < k || j < k) implies #[trigger] ra(*a, i, j) == ra(ak, i, j) by {
                    assert(a.at(i, j) == a_c.at(i, j)); assert(a_c.at(i, j) == a_s.at(i, j)); assert(a_s.at(i, j) == ak.at(i, j));
                }
            }
            lemma_dec_step(a0, ak, *a, ipk, ip@, n as int, k as int, m as int);
            assert forall|kk: int, i: int| 0 <= kk < k + 1 && kk < i < n implies rabs(R(#[trigger] a.at(i, kk))) <= 1real by {
                if kk == k {
                    let s = sw(ak, k as int, m as int, i, k as int);
                    assert(rabs(s) <= rabs(p)) by { if i == m { assert(s == ra(ak, k as int, k as int)); } else { assert(s == ra(ak, i, k as int)); } }
                    lemma_mult_le_one(s, p);
                } else { assert(ra(*a, i, kk) == ra(ak, i, kk)); }
            }
            assert forall|kk: int| 0 <= kk < k + 1 implies R(#[trigger] a.at(kk, kk)) != 0real by {
                if kk < k { assert(ra(*a, kk, kk) == ra(ak, kk, kk)); } else { assert(ra(*a, k as int, k as int) == ra(ak, m as int, k as int)); }
            }
        }
""")
w.before("Ok(()) //~124", """
    proof { lemma_dec_final(a0, *a, ip@, n as int); }
""")

# ------------------------------------------------------------------ lin_solve
w.lo_marker = "//#take src/matrix/linear.rs fn lin_solve"
w.after("pub fn lin_solve(a: &Matrix, b: &mut [Float], ip: &[usize]) //~55", """
    requires a.wf(), a.n == a.m, a.n >= 1, old(b)@.len() >= a.n, ip@.len() == a.n, piv_ok(ip@, a.n as int),
        forall|k: int| 0 <= k < a.n ==> ra(*a, k, k) != 0real,   // what lu_decomp guarantees on Ok: no zero on the diagonal of U
    ensures final(b)@.len() == old(b)@.len(),   // [C16 C04] solve.only_rhs_modified (a and ip are shared references: frame by type)
        forall|i: int| a.n <= i < old(b)@.len() ==> final(b)@[i] == old(b)@[i],   // [C16] solve.entries_beyond_n_untouched
        sol_post(*a, ip@, a.n as int, rv(old(b)@, a.n as int), rv(final(b)@, a.n as int)),   // [C16] solve.upper_triangular_system_solved_for_the_forward_image
""")
w.after("{ //~55", """
    proof { if vac(2) { assert(false); } }   // [vacuity] vac.solve_entry
    let ghost b0 = rv(b@, a.n as int);
""")
w.after("b[0] = b[0] / ((* a.index((0, 0)))); //~60", """
        proof {
            let x = rv(b@, 1);
            assert(R(b@[0]) == b0[0] / ra(*a, 0, 0));   // [C16] solve.scalar_case
            assert(ra(*a, 0, 0) * (b0[0] / ra(*a, 0, 0)) == b0[0]) by (nonlinear_arith) requires ra(*a, 0, 0) != 0real;
            assert(urow(*a, x, 0, 0, 1) == urow(*a, x, 0, 0, 0) + ue(*a, 0, 0) * x[0]);
            assert(fwd(*a, ip@, 0, b0) == b0);
        }
""")
w.after("for k in 0 .. nm1 //~67", """
        invariant """ + LENS_S + """
            forall|i: int| n <= i < b@.len() ==> b@[i] == old(b)@[i],   // [C16] solve.tail_kept
            b0 == rv(old(b)@, n as int), rv(b@, n as int) == fwd(*a, ip@, k as nat, b0),   // [C16] solve.forward_phase_is_fwd
""")
w.after("b.swap(m, k); //~73", """
        let ghost v = fwd(*a, ip@, k as nat, b0);
        let ghost v1 = swapv(v, k as int, ip@[k as int] as int);
        proof { lemma_fwd_len(*a, ip@, k as nat, b0); assert(rv(b@, n as int) =~= v1); }
""")
w.after("for i in kp1 .. n //~76", """
            invariant """ + LENS_S + """
                k < nm1, kp1 == k + 1, v.len() == n, v1 == swapv(v, k as int, ip@[k as int] as int),
                forall|ii: int| n <= ii < b@.len() ==> b@[ii] == old(b)@[ii],   // [C16] solve.tail_kept
                forall|ii: int| 0 <= ii < n ==> R(#[trigger] b@[ii]) == (if k < ii < i { v1[ii] + ra(*a, ii, k as int) * v1[k as int] } else { v1[ii] }),   // [C16] solve.forward_step_rows_done
""")
w.after("} //~78", """
        proof { assert(rv(b@, n as int) =~= fstep(*a, ip@, k as int, v)); }
""")
w.before("for kb in 1 .. n //~82", """
    let ghost y = fwd(*a, ip@, nm1 as nat, b0);
    proof { lemma_fwd_len(*a, ip@, nm1 as nat, b0); }
""")
BACK = "y == fwd(*a, ip@, nm1 as nat, b0), y.len() == n, b0 == rv(old(b)@, n as int),"
w.after("for kb in 1 .. n //~82", """
        invariant """ + LENS_S + """
            """ + BACK + """
            forall|i: int| n <= i < b@.len() ==> b@[i] == old(b)@[i],   // [C16] solve.tail_kept
            forall|i: int| n - kb < i < n ==> #[trigger] urow(*a, rv(b@, n as int), i, i, n as int) == y[i],   // [C16] solve.rows_below_are_solved
            forall|i: int| 0 <= i <= n - kb ==> R(#[trigger] b@[i]) == y[i] - urow(*a, rv(b@, n as int), i, n - kb + 1, n as int),   // [C16] solve.rows_above_carry_the_partial_residual
""")
w.after("let k = n - kb; //~83", """
        let ghost x_0 = rv(b@, n as int);
        let ghost bk_0 = b@[k as int];
        proof { assert(R(b@[k as int]) == y[k as int] - urow(*a, x_0, k as int, k + 1, n as int)); }   // [C16] solve.row_k_carries_its_partial_residual
""")
w.after("b[k] = b[k] / ((* a.index((k, k)))); //~86", """
        let ghost x_1 = rv(b@, n as int);
        proof {
            lemma_urow_frame_all(*a, x_0, x_1, k + 1, n as int);
            let s = urow(*a, x_0, k as int, k + 1, n as int);
            let d = ra(*a, k as int, k as int);
            assert(x_1[k as int] == R(bk_0) / d);   // [C16] solve.division_by_the_diagonal
            assert(x_1[k as int] == (y[k as int] - s) / d);
            assert(d * ((y[k as int] - s) / d) == y[k as int] - s) by (nonlinear_arith) requires d != 0real;
            lemma_urow_front(*a, x_1, k as int, k as int, n as int);
            assert(urow(*a, x_1, k as int, k as int, n as int) == y[k as int]);
            assert forall|i: int| k < i < n implies #[trigger] urow(*a, x_1, i, i, n as int) == y[i] by {
                lemma_urow_frame(*a, x_0, x_1, i, i, n as int);
            }
        }
""")
w.after("for i in 0 .. k //~89", """
            invariant """ + LENS_S + """
                """ + BACK + """ k == n - kb, 1 <= kb < n, x_1.len() == n,
                forall|ii: int| n <= ii < b@.len() ==> b@[ii] == old(b)@[ii],   // [C16] solve.tail_kept
                forall|ii: int| k <= ii < n ==> R(#[trigger] b@[ii]) == x_1[ii],   // [C16] solve.solved_rows_kept
                forall|ii: int| k <= ii < n ==> #[trigger] urow(*a, x_1, ii, ii, n as int) == y[ii],   // [C16] solve.rows_below_are_solved_inner
                forall|ii: int| i <= ii < k ==> R(#[trigger] b@[ii]) == y[ii] - urow(*a, x_1, ii, k + 1, n as int),   // [C16] solve.rows_not_yet_updated
                forall|ii: int| 0 <= ii < i ==> R(#[trigger] b@[ii]) == y[ii] - urow(*a, x_1, ii, k as int, n as int),   // [C16] solve.rows_updated
""")
w.after("b[i] = b[i] + ((* a.index((i, k))) * vneg(b[k])); //~90", """
            proof {
                lemma_urow_front(*a, x_1, i as int, k as int, n as int);
                assert(ue(*a, i as int, k as int) == ra(*a, i as int, k as int));
                assert(R(b@[i as int]) == (y[i as int] - urow(*a, x_1, i as int, k + 1, n as int)) + ra(*a, i as int, k as int) * (0real - x_1[k as int]));   // [C16] solve.back_substitution_update
                assert(ra(*a, i as int, k as int) * (0real - x_1[k as int]) == 0real - ra(*a, i as int, k as int) * x_1[k as int]) by (nonlinear_arith);
            }
""")
w.after("} //~91", """
        proof {
            let x_2 = rv(b@, n as int);
            lemma_urow_frame_all(*a, x_1, x_2, k as int, n as int);
            assert forall|i: int| k <= i < n implies #[trigger] urow(*a, x_2, i, i, n as int) == y[i] by {
                lemma_urow_frame(*a, x_1, x_2, i, i, n as int);
            }
        }
""")
w.before("b[0] = b[0] / ((* a.index((0, 0)))); //~95", """
    let ghost x_3 = rv(b@, n as int);
""")
w.after("b[0] = b[0] / ((* a.index((0, 0)))); //~95", """
    proof {
        let x = rv(b@, n as int);
        lemma_urow_frame_all(*a, x_3, x, 1, n as int);
        let s = urow(*a, x_3, 0, 1, n as int);
        let d = ra(*a, 0, 0);
        assert(x[0] == (y[0] - s) / d);   // [C16] solve.first_row_division
        assert(d * ((y[0] - s) / d) == y[0] - s) by (nonlinear_arith) requires d != 0real;
        lemma_urow_front(*a, x, 0, 0, n as int);
        assert forall|i: int| 0 <= i < n implies #[trigger] urow(*a, x, i, 0, n as int) == y[i] by {
            if i > 0 { lemma_urow_frame(*a, x_3, x, i, i, n as int); }
            lemma_urow_split(*a, x, i, 0, i, n as int);
            lemma_urow_lower_zero(*a, x, i, i);
        }
    }
""")
w.lo_marker = None
w.before("} // verus!", """
/// composition check (not code of the crate): on Ok, lu_decomp's postcondition is lin_solve's precondition, and the two
/// contracts together give A x = b in exact arithmetic for the ORIGINAL matrix A and right-hand side b
pub fn check_factor_then_solve(a: &mut Matrix, ip: &mut [usize], b: &mut [Float]) -> (r: Result<(), Error>)
    requires old(a).wf(), old(a).storage is Full, old(a).n >= 1, old(b)@.len() >= old(a).n,
    ensures r is Ok ==> forall|i: int| 0 <= i < old(a).n ==> #[trigger] rowsum(*old(a), rv(final(b)@, old(a).n as int), i, 0, old(a).n as int) == R(old(b)@[i]),   // [C16] compose.factor_then_solve_gives_the_exact_solution
{
    let ghost a0 = *a;
    let ghost n = a.n as int;
    let ghost b0 = rv(b@, n);
    match lu_decomp(a, ip) {
        Ok(()) => {
            lin_solve(a, b, ip);
            proof { lemma_lu_solve_correct(a0, *a, ip@, n, b0, rv(b@, n)); }
            Ok(())
        },
        Err(e) => Err(e),
    }
}
""", occ=-1)
w.save()
