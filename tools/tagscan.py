#!/usr/bin/env python3
"""Tag-gap scan: a clause tagged [Cxx] in contracts/<unit>.vspec is counted and reported for Cxx only when <unit> is
registered under Cxx in registry.json.  Prints every clause whose tag is neither registered for its own unit nor carried by
the same-named clause of the unit's world-A twin (which is registered).  Exit 1 if any such clause exists."""
import json, re, os, sys
ROOT = os.path.dirname(os.path.dirname(os.path.abspath(__file__)))
reg = json.load(open(os.path.join(ROOT, "registry.json")))
U = {u["name"]: u for u in reg["units"]}
def clauses(n):
    d = {}
    for ln in open(os.path.join(ROOT, "contracts", n + ".vspec")):
        m = re.search(r"//\s*\[((?:C\d\d ?)+)\]\s*(\S+)", ln)
        if m: d.setdefault(m.group(2), set()).update(m.group(1).split())
    return d
bad = 0
for n, u in U.items():
    twin = n[:-2] + "_A" if n.endswith("_R") and n[:-2] + "_A" in U else None
    ct = clauses(twin) if twin else {}
    for c, tags in clauses(n).items():
        for p in sorted(tags - set(u["properties"])):
            if twin and c in ct and p in ct[c] and p in U[twin]["properties"]: continue
            print("GAP unit=%s clause=%s tag=%s (unit not registered under it, no registered twin clause)" % (n, c, p)); bad += 1
print("tagscan: %d gap(s)" % bad)
sys.exit(1 if bad else 0)
