"""authoring aid: weave World-R stage-structure contracts into every simple `for i in 0 .. n` loop of solve
(body = assignments `BUF[IDX] = EXPR;`).  usage: annot_stages.py <unit> <repo consts file> [tag]"""
import sys, re
sys.path.insert(0, '/verif/tools'); sys.path.insert(0, '/verif')
from annot import Work
from stage_expr import consts_of, to_real
unit, cfile = sys.argv[1], sys.argv[2]
tag = sys.argv[3] if len(sys.argv) > 3 else 'C02'
consts = consts_of(cfile)
w = Work('/verif/work/%s.rs' % unit)
L = w.L
out = []
i = 0
in_solve = False
nstage = 0
while i < len(L):
    l = L[i]
    if 'pub fn solve < F, S >' in l: in_solve = True
    if 'pub fn interpolate' in l: in_solve = False
    m = re.match(r'(\s+)for i in 0 \.\. n //~(\d+)', l)
    if in_solve and m:
        # find body
        j = i + 1
        while not L[j].strip().startswith('{ //~'): j += 1
        k = j + 1
        body = []
        while not L[k].strip().startswith('} //~'):
            body.append(L[k]); k += 1
        assigns = []
        ok = True
        for b in body:
            bm = re.match(r'\s+(\w+)\[(.+?)\] = (.*); //~\d+$', b)
            if not bm: ok = False; break
            assigns.append((bm.group(1), bm.group(2), bm.group(3)))
        if ok and assigns:
            nstage += 1
            ind = m.group(1)
            bufs = sorted(set(a[0] for a in assigns))
            snap = {}
            pre = []
            for buf in bufs:
                reads = any(re.search(r'\b%s\[' % buf, a[2]) for a in assigns)
                if reads:
                    S = buf.upper() + '_0'
                    snap[buf] = S
                    pre.append('%slet ghost %s = %s@;' % (ind, S, buf))
            inv = []
            post = []
            for (buf, idx, expr) in assigns:
                rexpr = to_real(expr, consts, 'j', snap)
                idxj = ' '.join('j' if t == 'i' else t for t in idx.split())
                cid = 'stage.%s_%s' % (buf, m.group(2))
                inv.append('%s    forall|j: int| 0 <= j < i ==> R(#[trigger] %s@[%s]) == %s,   // [%s] %s_inv' % (ind, buf, idxj, rexpr, tag, cid))
                post.append('%sassert(forall|j: int| 0 <= j < n ==> R(#[trigger] %s@[%s]) == %s);   // [%s] %s' % (ind, buf, idxj, rexpr, tag, cid))
            for buf, S in snap.items():
                # in place: not yet visited entries are untouched, and entries of other rows are never written
                inv.append('%s    forall|j: int| i <= j < n ==> #[trigger] %s@[j] == %s[j], %s.len() == %s@.len(),   // [%s] stage.%s_%s_inplace' % (ind, buf, S, S, buf, tag, buf, m.group(2)))
            out += pre
            out.append(l)
            # existing invariant lines (lens) follow; insert ours right after them (before the brace)
            for q in range(i + 1, j):
                out.append(L[q])
            out += inv
            for q in range(j, k + 1):
                out.append(L[q])
            out += post
            i = k + 1
            continue
    out.append(l)
    i += 1
w.L = out
w.save()
print('stage contracts woven into %d loops' % nstage)
