"""authoring aid: weave World-R stage-structure contracts into every simple `for i in 0 .. n` loop of solve
(body = assignments `BUF[IDX] = EXPR;`).  usage: annot_stages.py <unit> <repo consts file> [tag]"""
import sys, re
sys.path.insert(0, '/verif/tools'); sys.path.insert(0, '/verif')
from annot import Work
from stage_expr import consts_of, to_real
unit, cfile = sys.argv[1], sys.argv[2]
tag = sys.argv[3] if len(sys.argv) > 3 else 'C02'
SKIP_HIGH_ROWS = len(sys.argv) > 4 and sys.argv[4] == 'skiprows'
consts = consts_of(cfile)
w = Work('/verif/work/%s.rs' % unit)
L = w.L
out = []
i = 0
in_solve = False
nstage = 0
while i < len(L):
    l = L[i]
    if 'pub fn solve < F, S >' in l: in_solve = True
    if 'pub fn interpolate' in l: in_solve = False
    m = re.match(r'(\s+)for i in 0 \.\. n //~(\d+)', l)
    if in_solve and m:
        # find body
        j = i + 1
        while not L[j].strip().startswith('{ //~'): j += 1
        k = j + 1
        body = []
        while not L[k].strip().startswith('} //~'):
            body.append(L[k]); k += 1
        assigns = []
        ok = True
        for b in body:
            bm = re.match(r'\s+(\w+)\[(.+?)\] = (.*); //~\d+$', b)
            if not bm: ok = False; break
            assigns.append((bm.group(1), bm.group(2), bm.group(3)))
        if ok and assigns:
            nstage += 1
            ind = m.group(1)
            written = []          # (buf, idx) in program order
            snap = {}
            pre = []
            inv = []
            post = []
            def rowmul(idx):
                mm = re.match(r'^(\d+) \* n \+ i$', idx)
                if mm: return int(mm.group(1))
                if idx == 'n + i': return 1
                if idx == 'i': return 0
                return None
            for p_, (buf, idx, expr) in enumerate(assigns):
                # a read of a buffer this iteration has already written sees the new value; any other read of a
                # buffer written by this loop sees the value before the loop (the loop reads entry i before writing it)
                cur = {}
                for b2 in sorted(set(a_[0] for a_ in assigns)):
                    if re.search(r'\b%s\[' % b2, expr):
                        already = any(b3 == b2 for (b3, _) in written)
                        if not already:
                            S = b2.upper() + '_0'
                            if b2 not in snap:
                                snap[b2] = S
                                pre.append('%slet ghost %s = %s@;' % (ind, S, b2))
                            cur[b2] = S
                written.append((buf, idx))
                if SKIP_HIGH_ROWS and buf == 'cont' and (rowmul(idx) or 0) >= 2:
                    continue      # higher dense rows: only the frame clause below (their formulas belong to C07)
                rexpr = to_real(expr, consts, 'j', cur)
                idxj = ' '.join('j' if t == 'i' else t for t in idx.split())
                cid = 'stage.%s_%s_%d' % (buf, m.group(2), p_)
                inv.append('%s    forall|j: int| 0 <= j < i ==> R(#[trigger] %s@[%s]) == %s,   // [%s] %s_inv' % (ind, buf, idxj, rexpr, tag, cid))
                post.append('%sassert(forall|j: int| 0 <= j < n ==> R(#[trigger] %s@[%s]) == %s);   // [%s] %s' % (ind, buf, idxj, rexpr, tag, cid))
            for buf, S in snap.items():
                rows = sorted(set(rowmul(idx) for (b_, idx) in written if b_ == buf and rowmul(idx) is not None))
                inv.append('%s    %s.len() == %s@.len(),   // [%s] stage.%s_%s_len' % (ind, S, buf, tag, buf, m.group(2)))
                for r_ in (rows if not (SKIP_HIGH_ROWS and buf == 'cont') else [r for r in rows if r < 2]):
                    inv.append('%s    forall|k: int| %d * n + i <= k < %d * n ==> #[trigger] %s@[k] == %s[k],   // [%s] stage.%s_%s_row%d_pending' % (ind, r_, r_ + 1, buf, S, tag, buf, m.group(2), r_))
            for buf in sorted(set(b_ for (b_, _) in written)):
                rows = sorted(set(rowmul(idx) for (b_, idx) in written if b_ == buf and rowmul(idx) is not None))
                if buf == 'cont' and rows and rows[0] > 0:
                    if buf not in snap:
                        snap[buf] = 'CONT_0'
                        pre.append('%slet ghost CONT_0 = cont@;' % ind)
                        inv.append('%s    CONT_0.len() == cont@.len(),   // [%s] stage.cont_%s_len' % (ind, tag, m.group(2)))
                    inv.append('%s    forall|k: int| 0 <= k < %d * n ==> #[trigger] cont@[k] == %s[k],   // [C06] dense.lower_rows_untouched_%s_inv' % (ind, rows[0], snap[buf], m.group(2)))
                    post.append('%sassert(forall|k: int| 0 <= k < %d * n ==> #[trigger] cont@[k] == %s[k]);   // [C06] dense.lower_rows_untouched_%s' % (ind, rows[0], snap[buf], m.group(2)))
            out += pre
            out.append(l)
            # existing invariant lines (lens) follow; insert ours right after them (before the brace)
            for q in range(i + 1, j):
                out.append(L[q])
            out += inv
            for q in range(j, k + 1):
                out.append(L[q])
            out += post
            i = k + 1
            continue
    out.append(l)
    i += 1
w.L = out
w.save()
print('stage contracts woven into %d loops' % nstage)
