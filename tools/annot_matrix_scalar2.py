#!/usr/bin/env python3
"""development aid: contracts of component_add / component_sub in work/matrix_scalar_R.rs"""
import sys, re
sys.path.insert(0, '/verif/tools')
from annot import Work
w = Work('/verif/work/matrix_scalar_R.rs')
def ind_of(i): return w.L[i][:len(w.L[i]) - len(w.L[i].lstrip())]
def tagline(text, lo):
    """first index >= lo of a line containing text"""
    for k in range(lo, len(w.L)):
        if text in w.L[k]: return k
    raise SystemExit("anchor not found after %d: %r" % (lo, text))
def annotate(fname, op, vacn):
    sgn = "+" if op == "add" else "-"
    f0 = w.find("pub fn component_%s(self, rhs: Float) -> (r: Self)" % op)
    w.L[f0 + 1:f0 + 1] = ('''        requires self.wf(), self.n * self.n <= usize::MAX, 4 * self.n + 4 < IMAX(),
            self.storage is Banded ==> self.storage->ml <= self.n && self.storage->mu <= self.n,
        ensures
            r.wf() && r.n == self.n && r.m == self.m,   // [C17] %s.shape_kept
            forall|i: int, j: int| 0 <= i < self.n && 0 <= j < self.m ==> R(#[trigger] r.at(i, j)) == R(self.at(i, j)) %s R(rhs),   // [C17] %s.entrywise_with_the_scalar''' % (fname, sgn, fname)).split('\n')
    b = tagline("let mut vx_self = self;", f0)
    w.L[b + 1:b + 1] = ["        proof { if vac(%d) { assert(false); } }   // [vacuity] vac.%s_entry" % (vacn, fname),
                        "        let ghost g0 = self;"]
    # Identity arm
    i = tagline("let mut data = vec![", f0); ind = ind_of(i)
    w.L[i:i] = [ind + "proof { assert forall|rr: int, cc: int| 0 <= rr < n && 0 <= cc < n implies 0 <= #[trigger] (rr * n + cc) < n * n by { Matrix::lemma_slot(rr, cc, n as int, n as int); } }"]
    i = tagline("let mut data = vec![", f0)
    w.L[i + 1:i + 1] = [ind + "let ghost init = data@[0];"] if False else []
    i = tagline("for i in 0 .. n //~", f0); ind = ind_of(i)
    off = "R(rhs)" if op == "add" else "0real - R(rhs)"
    dia = "R(rhs) + 1real" if op == "add" else "1real - R(rhs)"
    w.L[i + 1:i + 1] = [ind + "    invariant data@.len() == n * n, n * n <= usize::MAX, n <= IMAX(), n == g0.n,   // [C04] safety.lens",
        ind + "        forall|rr: int, cc: int| 0 <= rr < n && 0 <= cc < n ==> R(#[trigger] data@[rr * n + cc]) == (if rr == cc && rr < i { %s } else { %s }),   // [C17] %s.identity_shifted" % (dia, off, fname)]
    b = tagline("data[i * n + i] = ", f0); ind = ind_of(b)
    w.L[b:b] = [ind + "let ghost d0 = data@;", ind + "proof { Matrix::lemma_slot(i as int, i as int, n as int, n as int); }"]
    w.L[b + 3:b + 3] = [ind + "proof { assert forall|rr: int, cc: int| 0 <= rr < n && 0 <= cc < n implies R(#[trigger] data@[rr * n + cc]) == (if rr == cc && rr < i + 1 { %s } else { %s }) by {" % (dia, off),
        ind + "    Matrix::lemma_slot(rr, cc, n as int, n as int);",
        ind + "    if rr * n + cc == i * n + i { Matrix::lemma_slot_distinct(rr, cc, i as int, i as int, n as int); }",
        ind + "    assert(R(d0[rr * n + cc]) == (if rr == cc && rr < i { %s } else { %s }));" % (dia, off),
        ind + "} }"]
    # Full arm
    i = tagline("for vx_m in vx_mi: 0 .. vx_self.data.len()", f0); ind = ind_of(i)
    w.L[i + 1:i + 1] = [ind + "    invariant vx_mi.iter.end == g0.data@.len(), vx_self.n == g0.n && vx_self.m == g0.m && vx_self.storage == g0.storage && vx_self.data@.len() == g0.data@.len(),   // [C04] safety.lens",
        ind + "        forall|k: int| 0 <= k < vx_m ==> R(#[trigger] vx_self.data@[k]) == R(g0.data@[k]) %s R(rhs), forall|k: int| vx_m <= k < g0.data@.len() ==> #[trigger] vx_self.data@[k] == g0.data@[k],   // [C17] %s.stored_prefix_shifted" % (sgn, fname)]
    # end of Full arm: the `vx_self //~` line following the loop
    e = tagline("vx_self //~", i); ind = ind_of(e)
    w.L[e:e] = [ind + "proof { assert forall|i: int, j: int| 0 <= i < g0.n && 0 <= j < g0.m implies 0 <= #[trigger] (i * g0.m + j) < g0.n * g0.m by { Matrix::lemma_slot(i, j, g0.n as int, g0.m as int); } }"]
    # Banded dense arm
    i = tagline("let mut dense = vec![", f0); ind = ind_of(i)
    w.L[i:i] = [ind + "proof { assert forall|rr: int, cc: int| 0 <= rr < n && 0 <= cc < n implies 0 <= #[trigger] (rr * n + cc) < n * n by { Matrix::lemma_slot(rr, cc, n as int, n as int); } }"]
    CB = "dense@.len() == n * n, n * n <= usize::MAX, n <= IMAX(), 4 * n + 4 < IMAX(), n == g0.n, g0.wf(), g0.storage == (MatrixStorage::Banded { ml: *ml, mu: *mu }), *ml <= n && *mu <= n, rows == *ml + *mu + 1, vx_self.data@ == g0.data@,"
    i = tagline("for j in 0 .. n //~", i); ind = ind_of(i)
    w.L[i + 1:i + 1] = [ind + "    invariant " + CB + "   // [C04] safety.lens",
        ind + "        forall|i: int, c: int| 0 <= i < n && 0 <= c < n ==> (c < j ==> R(#[trigger] dense@[i * n + c]) == R(g0.at(i, c)) %s R(rhs)) && (c >= j ==> R(dense@[i * n + c]) == %s),   // [C17] %s.banded_densified_column_by_column" % (sgn, off, fname)]
    i = tagline("for r in 0 .. rows //~", i); ind = ind_of(i)
    w.L[i + 1:i + 1] = [ind + "    invariant " + CB + " j < n,   // [C04] safety.lens",
        ind + "        forall|i: int, c: int| 0 <= i < n && 0 <= c < n && c != j ==> (c < j ==> R(#[trigger] dense@[i * n + c]) == R(g0.at(i, c)) %s R(rhs)) && (c > j ==> R(dense@[i * n + c]) == %s),   // [C17] %s.other_columns_untouched" % (sgn, off, fname),
        ind + "        forall|i: int| 0 <= i < n ==> (0 <= i - j + *mu < r ==> R(#[trigger] dense@[i * n + j]) == R(g0.data@[(i - j + *mu) * n + j]) %s R(rhs)) && (!(0 <= i - j + *mu < r) ==> R(dense@[i * n + j]) == %s),   // [C17] %s.band_rows_of_this_column_done" % (sgn, off, fname)]
    b = tagline("let val = vx_self.data[r * n + j];", i); ind = ind_of(b)
    w.L[b:b] = [ind + "let ghost d0 = dense@;", ind + "proof { Matrix::lemma_slot(i as int, j as int, n as int, n as int); Matrix::lemma_slot(r as int, j as int, rows as int, n as int); }"]
    b = tagline("dense[i * n + j] = val", b); ind = ind_of(b)
    w.L[b + 1:b + 1] = [ind + "proof { assert forall|rr: int, cc: int| 0 <= rr < n && 0 <= cc < n && !(rr == i && cc == j) implies dense@[#[trigger] (rr * n + cc)] == d0[rr * n + cc] by {",
        ind + "    Matrix::lemma_slot(rr, cc, n as int, n as int);",
        ind + "    Matrix::lemma_slot_distinct(rr, cc, i as int, j as int, n as int);",
        ind + "} }"]
    e = tagline("Matrix //~", b); ind = ind_of(e)
    w.L[e:e] = [ind + "proof { assert forall|i: int, j: int| 0 <= i < n && 0 <= j < n implies 0 <= #[trigger] (i * n + j) < n * n by { Matrix::lemma_slot(i, j, n as int, n as int); } }"]
annotate("add_scalar", "add", 3)
annotate("sub_scalar", "sub", 4)
w.save()
