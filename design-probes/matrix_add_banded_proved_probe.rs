#![allow(unused)]
use vstd::prelude::*;
use vstd::std_specs::ops::*;
verus! {
global size_of usize == 8;
pub mod fp { use vstd::prelude::*; use vstd::std_specs::ops::*;
pub broadcast axiom fn f64_add_req(a: f64, b: f64) ensures #[trigger] a.add_req(b);
pub axiom fn add_obeys() ensures <f64 as AddSpec<f64>>::obeys_add_spec();
pub broadcast group f64_ops { f64_add_req }
}
broadcast use fp::f64_ops;
pub type Float = f64;

pub open spec fn fadd(a: f64, b: f64) -> f64 { a.add_spec(b) }
/// numeric equality: IEEE `==`, or both NaN
pub uninterp spec fn feq(a: f64, b: f64) -> bool;
// IEEE facts, each to be discharged bit-precisely by a loop-free CBMC harness
pub broadcast axiom fn feq_refl(a: f64) ensures #[trigger] feq(a, a);
pub axiom fn feq_sym(a: f64, b: f64) requires feq(a, b) ensures feq(b, a);
pub axiom fn feq_trans(a: f64, b: f64, c: f64) requires feq(a, b), feq(b, c) ensures feq(a, c);
pub axiom fn add_zero_l(a: f64) ensures feq(fadd(0.0f64, a), a);
pub axiom fn add_zero_r(a: f64) ensures feq(fadd(a, 0.0f64), a);
pub axiom fn add_cong_l(a: f64, a2: f64, b: f64) requires feq(a, a2) ensures feq(fadd(a, b), fadd(a2, b));

pub open spec fn slot(row: int, j: int, n: int) -> int { row * n + j }
pub proof fn lemma_slot(row: int, j: int, rows: int, n: int) by (nonlinear_arith)
    requires 0 <= row < rows, 0 <= j < n
    ensures 0 <= slot(row, j, n) < rows * n
{}
pub proof fn lemma_slot_inj(r1: int, j1: int, r2: int, j2: int, n: int) by (nonlinear_arith)
    requires 0 <= j1 < n, 0 <= j2 < n, 0 <= r1, 0 <= r2, slot(r1, j1, n) == slot(r2, j2, n)
    ensures r1 == r2, j1 == j2
{}

/// dense meaning of a banded buffer
pub open spec fn band_at(data: Seq<f64>, n: int, ml: int, mu: int, i: int, j: int) -> f64 {
    if -mu <= i - j <= ml { data[slot(i - j + mu, j, n)] } else { 0.0f64 }
}
pub open spec fn in_mat(i: int, n: int) -> bool { 0 <= i < n }

/// contribution already accumulated from buffer `a` (band ml,mu) into out-slot (row_out, jj) when columns < j are done and
/// column j is done for rows r' < r
pub open spec fn acc(a: Seq<f64>, n: int, ml: int, mu: int, mu_out: int, row_out: int, jj: int, j: int, r: int, base: f64) -> f64 {
    let k = row_out - mu_out;
    let i = jj + k;
    if in_mat(i, n) && -mu <= k <= ml && (jj < j || (jj == j && k + mu < r)) { fadd(base, a[slot(k + mu, jj, n)]) } else { base }
}

fn add_banded(n: usize, a: Vec<Float>, ml: usize, mu: usize, b: Vec<Float>, ml2: usize, mu2: usize) -> (out: (Vec<Float>, usize, usize))
    requires
        a@.len() == (ml + mu + 1) * n, b@.len() == (ml2 + mu2 + 1) * n,
        ml < n, mu < n, ml2 < n, mu2 < n, n < 0x4000_0000,
    ensures
        out.1 == (if ml >= ml2 { ml } else { ml2 }), out.2 == (if mu >= mu2 { mu } else { mu2 }),
        out.0@.len() == (out.1 + out.2 + 1) * n,
        forall|i: int, j: int| 0 <= i < n && 0 <= j < n ==>
            feq(#[trigger] band_at(out.0@, n as int, out.1 as int, out.2 as int, i, j),
                fadd(band_at(a@, n as int, ml as int, mu as int, i, j), band_at(b@, n as int, ml2 as int, mu2 as int, i, j))),
{
    proof { fp::add_obeys(); }
                let ml_out = if ml >= ml2 { ml } else { ml2 };
                let mu_out = if mu >= mu2 { mu } else { mu2 };
                let rows_out = ml_out + mu_out + 1;
                assert(rows_out * n <= 0x2_0000_0000 * 0x4000_0000) by (nonlinear_arith) requires rows_out <= 0x2_0000_0000, n <= 0x4000_0000;
                let mut data = vec![0.0; rows_out * n];
                assert((ml + mu + 1) * n <= 0x2_0000_0000 * 0x4000_0000) by (nonlinear_arith) requires ml + mu + 1 <= 0x2_0000_0000, n <= 0x4000_0000;
                let ghost ni = n as int;
                proof {
                    assert forall|row: int, jj: int| 0 <= row < rows_out && 0 <= jj < n implies
                        #[trigger] data@[slot(row, jj, ni)] == acc(a@, ni, ml as int, mu as int, mu_out as int, row, jj, 0, 0, 0.0f64) by {
                        lemma_slot(row, jj, rows_out as int, ni);
                    }
                }
                // First input accumulate
                for j in 0..n
                    invariant data@.len() == rows_out * n, a@.len() == (ml + mu + 1) * n, ml < n, mu < n, n < 0x4000_0000, ni == n,
                        ml_out >= ml, mu_out >= mu, ml_out < n, mu_out < n, rows_out == ml_out + mu_out + 1, rows_out * n <= usize::MAX, (ml + mu + 1) * n <= usize::MAX, <f64 as AddSpec<f64>>::obeys_add_spec(),
                        forall|row: int, jj: int| 0 <= row < rows_out && 0 <= jj < n ==>
                            #[trigger] data@[slot(row, jj, ni)] == acc(a@, ni, ml as int, mu as int, mu_out as int, row, jj, j as int, 0, 0.0f64),
                {
                    for r in 0..(ml + mu + 1)
                        invariant data@.len() == rows_out * n, a@.len() == (ml + mu + 1) * n, ml < n, mu < n, n < 0x4000_0000, ni == n, j < n,
                            ml_out >= ml, mu_out >= mu, ml_out < n, mu_out < n, rows_out == ml_out + mu_out + 1, rows_out * n <= usize::MAX, (ml + mu + 1) * n <= usize::MAX, <f64 as AddSpec<f64>>::obeys_add_spec(),
                            forall|row: int, jj: int| 0 <= row < rows_out && 0 <= jj < n ==>
                                #[trigger] data@[slot(row, jj, ni)] == acc(a@, ni, ml as int, mu as int, mu_out as int, row, jj, j as int, r as int, 0.0f64),
                    {
                        let k = r as isize - mu as isize;
                        let i_signed = j as isize + k;
                        if i_signed >= 0 && (i_signed as usize) < n {
                            let row_out = (k + mu_out as isize) as usize;
                            proof {
                                lemma_slot(row_out as int, j as int, rows_out as int, ni);
                                lemma_slot(r as int, j as int, (ml + mu + 1) as int, ni);
                                assert(slot(row_out as int, j as int, ni) == row_out * n + j);
                                assert(slot(r as int, j as int, ni) == r * n + j);
                                assert(row_out * n + j < data@.len());
                                assert(r * n + j < a@.len());
                            }
                            let ghost old_data = data@;
                            data[row_out * n + j] = data[row_out * n + j] + a[r * n + j];
                            proof {
                                assert forall|row: int, jj: int| 0 <= row < rows_out && 0 <= jj < n implies
                                    #[trigger] data@[slot(row, jj, ni)] == acc(a@, ni, ml as int, mu as int, mu_out as int, row, jj, j as int, r + 1, 0.0f64) by {
                                    lemma_slot(row, jj, rows_out as int, ni);
                                    if slot(row, jj, ni) == slot(row_out as int, j as int, ni) {
                                        lemma_slot_inj(row, jj, row_out as int, j as int, ni);
                                    }
                                }
                            }
                        } else {
                            proof {
                                assert forall|row: int, jj: int| 0 <= row < rows_out && 0 <= jj < n implies
                                    #[trigger] data@[slot(row, jj, ni)] == acc(a@, ni, ml as int, mu as int, mu_out as int, row, jj, j as int, r + 1, 0.0f64) by {}
                            }
                        }
                    }
                    proof {
                        assert forall|row: int, jj: int| 0 <= row < rows_out && 0 <= jj < n implies
                            #[trigger] data@[slot(row, jj, ni)] == acc(a@, ni, ml as int, mu as int, mu_out as int, row, jj, j + 1, 0, 0.0f64) by {}
                    }
                }

                // Second input accumulate
                assert((ml2 + mu2 + 1) * n <= 0x2_0000_0000 * 0x4000_0000) by (nonlinear_arith) requires ml2 + mu2 + 1 <= 0x2_0000_0000, n <= 0x4000_0000;
                let ghost da = data@;
                proof {
                    assert forall|row: int, jj: int| 0 <= row < rows_out && 0 <= jj < n implies
                        #[trigger] data@[slot(row, jj, ni)] == acc(b@, ni, ml2 as int, mu2 as int, mu_out as int, row, jj, 0, 0, da[slot(row, jj, ni)]) by {}
                }
                for j in 0..n
                    invariant data@.len() == rows_out * n, b@.len() == (ml2 + mu2 + 1) * n, ml2 < n, mu2 < n, n < 0x4000_0000, ni == n, da.len() == data@.len(),
                        ml_out >= ml2, mu_out >= mu2, ml_out < n, mu_out < n, rows_out == ml_out + mu_out + 1, rows_out * n <= usize::MAX, (ml2 + mu2 + 1) * n <= usize::MAX,
                        <f64 as AddSpec<f64>>::obeys_add_spec(),
                        forall|row: int, jj: int| 0 <= row < rows_out && 0 <= jj < n ==>
                            #[trigger] data@[slot(row, jj, ni)] == acc(b@, ni, ml2 as int, mu2 as int, mu_out as int, row, jj, j as int, 0, da[slot(row, jj, ni)]),
                {
                    for r in 0..(ml2 + mu2 + 1)
                        invariant data@.len() == rows_out * n, b@.len() == (ml2 + mu2 + 1) * n, ml2 < n, mu2 < n, n < 0x4000_0000, ni == n, j < n, da.len() == data@.len(),
                            ml_out >= ml2, mu_out >= mu2, ml_out < n, mu_out < n, rows_out == ml_out + mu_out + 1, rows_out * n <= usize::MAX, (ml2 + mu2 + 1) * n <= usize::MAX,
                            <f64 as AddSpec<f64>>::obeys_add_spec(),
                            forall|row: int, jj: int| 0 <= row < rows_out && 0 <= jj < n ==>
                                #[trigger] data@[slot(row, jj, ni)] == acc(b@, ni, ml2 as int, mu2 as int, mu_out as int, row, jj, j as int, r as int, da[slot(row, jj, ni)]),
                    {
                        let k = r as isize - mu2 as isize;
                        let i_signed = j as isize + k;
                        if i_signed >= 0 && (i_signed as usize) < n {
                            let row_out = (k + mu_out as isize) as usize;
                            proof {
                                lemma_slot(row_out as int, j as int, rows_out as int, ni);
                                lemma_slot(r as int, j as int, (ml2 + mu2 + 1) as int, ni);
                                assert(slot(row_out as int, j as int, ni) == row_out * n + j);
                                assert(slot(r as int, j as int, ni) == r * n + j);
                            }
                            data[row_out * n + j] = data[row_out * n + j] + b[r * n + j];
                            proof {
                                assert forall|row: int, jj: int| 0 <= row < rows_out && 0 <= jj < n implies
                                    #[trigger] data@[slot(row, jj, ni)] == acc(b@, ni, ml2 as int, mu2 as int, mu_out as int, row, jj, j as int, r + 1, da[slot(row, jj, ni)]) by {
                                    lemma_slot(row, jj, rows_out as int, ni);
                                    if slot(row, jj, ni) == slot(row_out as int, j as int, ni) {
                                        lemma_slot_inj(row, jj, row_out as int, j as int, ni);
                                    }
                                }
                            }
                        } else {
                            proof {
                                assert forall|row: int, jj: int| 0 <= row < rows_out && 0 <= jj < n implies
                                    #[trigger] data@[slot(row, jj, ni)] == acc(b@, ni, ml2 as int, mu2 as int, mu_out as int, row, jj, j as int, r + 1, da[slot(row, jj, ni)]) by {}
                            }
                        }
                    }
                    proof {
                        assert forall|row: int, jj: int| 0 <= row < rows_out && 0 <= jj < n implies
                            #[trigger] data@[slot(row, jj, ni)] == acc(b@, ni, ml2 as int, mu2 as int, mu_out as int, row, jj, j + 1, 0, da[slot(row, jj, ni)]) by {}
                    }
                }
                proof {
                    assert forall|i: int, j: int| 0 <= i < n && 0 <= j < n implies
                        feq(#[trigger] band_at(data@, ni, ml_out as int, mu_out as int, i, j),
                            fadd(band_at(a@, ni, ml as int, mu as int, i, j), band_at(b@, ni, ml2 as int, mu2 as int, i, j))) by {
                        let k = i - j;
                        let av = band_at(a@, ni, ml as int, mu as int, i, j);
                        let bv = band_at(b@, ni, ml2 as int, mu2 as int, i, j);
                        if -(mu_out as int) <= k <= ml_out as int {
                            let row = k + mu_out;
                            lemma_slot(row, j, rows_out as int, ni);
                            let d0 = da[slot(row, j, ni)];
                            assert(d0 == acc(a@, ni, ml as int, mu as int, mu_out as int, row, j, ni, 0, 0.0f64));
                            assert(data@[slot(row, j, ni)] == acc(b@, ni, ml2 as int, mu2 as int, mu_out as int, row, j, ni, 0, d0));
                            // d0 is 0.0 (+) a-entry when in a's band, else 0.0
                            if -(mu as int) <= k <= ml as int {
                                add_zero_l(av);                 // feq(fadd(0,av), av)
                                if -(mu2 as int) <= k <= ml2 as int {
                                    add_cong_l(fadd(0.0f64, av), av, bv);
                                } else {
                                    add_zero_r(av); feq_sym(fadd(av, 0.0f64), av);
                                    feq_trans(fadd(0.0f64, av), av, fadd(av, 0.0f64));
                                }
                            } else {
                                // only b contributes
                                feq_refl(fadd(0.0f64, bv));
                            }
                        } else {
                            add_zero_l(0.0f64); feq_sym(fadd(0.0f64, 0.0f64), 0.0f64);
                        }
                    }
                }
                (data, ml_out, mu_out)
}
}
fn main() {}
