use vstd::prelude::*;
use vstd::std_specs::cmp::*;
use core::cmp::Ordering;
verus! {
pub axiom fn f64_cmp_obeys() ensures <f64 as PartialOrdSpec<f64>>::obeys_partial_cmp_spec(), <f64 as PartialEqSpec<f64>>::obeys_eq_spec();
fn t(a: f64, b: f64) {
    proof { f64_cmp_obeys(); }
    let c = a > b;
    assert(c == (a.partial_cmp_spec(&b) == Some(Ordering::Greater)));
    let d = a <= b;
    assert(d == (a.partial_cmp_spec(&b) == Some(Ordering::Less) || a.partial_cmp_spec(&b) == Some(Ordering::Equal)));
    let e = a == b;
    assert(e == a.eq_spec(&b));
}
}
fn main() {}
