use vstd::prelude::*;
use vstd::std_specs::ops::*;
use vstd::std_specs::cmp::*;
use core::cmp::Ordering;
verus! {
pub mod fp { use vstd::prelude::*; use vstd::std_specs::ops::*; use vstd::std_specs::cmp::*; use core::cmp::Ordering;
pub broadcast axiom fn f64_add_req(a: f64, b: f64) ensures #[trigger] a.add_req(b);
pub broadcast axiom fn f64_sub_req(a: f64, b: f64) ensures #[trigger] a.sub_req(b);
pub broadcast axiom fn f64_mul_req(a: f64, b: f64) ensures #[trigger] a.mul_req(b);
pub uninterp spec fn R(x: f64) -> real;
pub axiom fn obeys() ensures <f64 as AddSpec<f64>>::obeys_add_spec(), <f64 as SubSpec<f64>>::obeys_sub_spec(), <f64 as MulSpec<f64>>::obeys_mul_spec();
pub broadcast axiom fn r_add(a: f64, b: f64) ensures R(#[trigger] a.add_spec(b)) == R(a) + R(b);
pub broadcast axiom fn r_sub(a: f64, b: f64) ensures R(#[trigger] a.sub_spec(b)) == R(a) - R(b);
pub broadcast axiom fn r_mul(a: f64, b: f64) ensures R(#[trigger] a.mul_spec(b)) == R(a) * R(b);
pub broadcast axiom fn r_mul_unit_r(a: f64, b: f64) requires R(b) == 1real ensures R(#[trigger] a.mul_spec(b)) == R(a);
pub broadcast axiom fn r_mul_negunit_r(a: f64, b: f64) requires R(b) == 0real - 1real ensures R(#[trigger] a.mul_spec(b)) == 0real - R(a);
pub axiom fn cmp_obeys() ensures <f64 as PartialOrdSpec<f64>>::obeys_partial_cmp_spec(), <f64 as PartialEqSpec<f64>>::obeys_eq_spec();
pub broadcast axiom fn r_cmp(a: f64, b: f64) ensures #[trigger] a.partial_cmp_spec(&b) == (if R(a) < R(b) { Some(Ordering::Less) } else if R(a) == R(b) { Some(Ordering::Equal) } else { Some(Ordering::Greater) });
pub broadcast group f64_ops { r_cmp, r_mul_unit_r, r_mul_negunit_r, f64_add_req, f64_sub_req, f64_mul_req, r_add, r_sub, r_mul }
}
broadcast use fp::f64_ops;
use fp::R;

#[verifier::external_body] exec const C4: f64 ensures R(C4) == 0.8real { 0.8 }
pub uninterp spec fn one01_s() -> f64;
pub axiom fn one01_val() ensures R(one01_s()) == 1.01real;
#[verifier::external_body] exec const ONE01: f64 ensures ONE01 == one01_s() { 1.01 }
#[verifier::external_body] exec const ZERO: f64 ensures R(ZERO) == 0real { 0.0 }
#[verifier::external_body] exec const POSNEG: f64 ensures R(POSNEG) == 1real { 1.0 }

pub broadcast axiom fn k_one01_l(b: f64) ensures R(#[trigger] one01_s().mul_spec(b)) == 1.01real * R(b);
// forward direction landing logic, verbatim shape of dopri5 loop head
fn landing(x: f64, h0: f64, xend: f64) -> (r: (f64, bool))
    requires R(h0) > 0real, R(x) <= R(xend),
    ensures R(x) + 0.8real * R(r.0) <= R(xend), R(x) + R(r.0) <= R(xend), r.1 ==> R(x) + R(r.0) == R(xend),
        R(r.0) <= 1.01real * R(h0),
{
    proof { fp::obeys(); fp::cmp_obeys(); }
    broadcast use k_one01_l;
    let mut h = h0;
    let mut last = false;
    let posneg = POSNEG;
    if (x + ONE01 * h - xend) * posneg > ZERO {
        h = xend - x;
        last = true;
    }
    
    (h, last)
}
proof fn vac() { assert(false); }
}
fn main() {}
