import re, sys
from fractions import Fraction
from functools import lru_cache
src=open('/repo/src/methods/dop853.rs').read()
consts={}
for m in re.finditer(r'^const (\w+): Float = ([^;]+);', src, re.M):
    consts[m.group(1)]=Fraction(m.group(2).replace('_','').strip())
S=12
A=[[Fraction(0)]*(S+1) for _ in range(S+1)]
for name,v in consts.items():
    m=re.fullmatch(r'A(\d+)',name)
    if not m: continue
    d=m.group(1); cand=[]
    for k in range(1,len(d)):
        i,j=int(d[:k]),int(d[k:])
        if 2<=i<=12 and 1<=j<i and not d[k:].startswith('0'): cand.append((i,j))
    if len(cand)==1: A[cand[0][0]][cand[0][1]]=v
b=[Fraction(0)]*(S+1)
for name,idx in [('B1',1),('B6',6),('B7',7),('B8',8),('B9',9),('B10',10),('B11',11),('B12',12)]: b[idx]=consts[name]
P=int(sys.argv[1])
D=10**34
for i in range(S+1):
    for j in range(S+1): assert (A[i][j]*D).denominator==1
    assert (b[i]*D).denominator==1
@lru_cache(None)
def trees(n):
    if n==1: return [()]
    res=set()
    def rec(rem, maxsize, cur):
        if rem==0: res.add(tuple(sorted(cur))); return
        for s in range(min(rem,maxsize),0,-1):
            for t in trees(s): rec(rem-s, s, cur+[t])
    rec(n-1,n-1,[])
    return sorted(res)
def order(t): return 1+sum(order(s) for s in t)
def gamma(t):
    g=order(t)
    for s in t: g*=gamma(s)
    return g
out=["use vstd::prelude::*;\nverus! {\n", f"pub open spec fn D() -> int {{ {D}int }}\n"]
for i in range(1,S+1):
    for j in range(1,i):
        if A[i][j]!=0: out.append(f"pub open spec fn a_{i}_{j}() -> int {{ {int(A[i][j]*D)}int }}\n")
    if b[i]!=0: out.append(f"pub open spec fn b_{i}() -> int {{ {int(b[i]*D)}int }}\n")
out.append("pub open spec fn pw(k: nat) -> int decreases k { if k == 0 { 1 } else { D() * pw((k - 1) as nat) } }\n")
ids={}; udone=set()
def phi(t):
    if t in ids: return ids[t]
    subs=[phi(s) for s in t]
    k=len(ids); ids[t]=k
    for i in range(1,S+1):
        for sid in subs:
            if (sid,i) in udone: continue
            udone.add((sid,i))
            js=[j for j in range(1,i) if A[i][j]!=0]
            expr=" + ".join(f"a_{i}_{j}() * phi_{sid}_{j}()" for j in js) if js else "0int"
            out.append(f"#[verifier::memoize] pub open spec fn u_{sid}_{i}() -> int {{ {expr} }}\n")
        expr=" * ".join(f"u_{sid}_{i}()" for sid in subs) if t else "1int"
        out.append(f"#[verifier::memoize] pub open spec fn phi_{k}_{i}() -> int {{ {expr} }}\n")
    return k
n=0
for p in range(1,P+1):
    for t in trees(p):
        k=phi(t); g=gamma(t); o=order(t)
        expr=" + ".join(f"b_{i}() * phi_{k}_{i}()" for i in range(1,S+1) if b[i]!=0)
        # | g*sum/D^o - 1 | < 1e-14   <=>  | g*sum*10^14 - D^o*10^14 | < D^o
        out.append(f"proof fn oc_{n}() ensures ({expr}) * {g} * 100000000000000 - pw({o}) * 100000000000000 < pw({o}), pw({o}) * 100000000000000 - ({expr}) * {g} * 100000000000000 < pw({o}) {{ assert(({expr}) * {g} * 100000000000000 - pw({o}) * 100000000000000 < pw({o}) && pw({o}) * 100000000000000 - ({expr}) * {g} * 100000000000000 < pw({o})) by (compute_only); }}\n")
        n+=1
out.append("}\nfn main() {}\n")
open('oci.rs','w').write("".join(out))
print(n,"conditions")
