#![feature(const_destruct)]
#![allow(unused)]
use vstd::prelude::*;
use vstd::std_specs::ops::*;
verus! {
pub mod fp { use vstd::prelude::*; use vstd::std_specs::ops::*;
pub broadcast axiom fn f64_add_req(a: f64, b: f64) ensures #[trigger] a.add_req(b);
pub broadcast axiom fn f64_sub_req(a: f64, b: f64) ensures #[trigger] a.sub_req(b);
pub broadcast axiom fn f64_mul_req(a: f64, b: f64) ensures #[trigger] a.mul_req(b);
pub broadcast axiom fn f64_div_req(a: f64, b: f64) ensures #[trigger] a.div_req(b);
pub broadcast group f64_ops { f64_add_req, f64_sub_req, f64_mul_req, f64_div_req }
}
broadcast use fp::f64_ops;
pub type Float = f64;
pub uninterp spec fn s_signum(x: f64) -> f64;
pub uninterp spec fn s_abs(x: f64) -> f64;
pub assume_specification [f64::signum] (x: f64) -> (r: f64) ensures r == s_signum(x);
pub assume_specification [f64::abs] (x: f64) -> (r: f64) ensures r == s_abs(x);
pub assume_specification<T: Clone> [<[T]>::to_vec] (s: &[T]) -> (r: Vec<T>) ensures r@ == s@;
#[verifier::allow(undeclared_external_trait)]
pub assume_specification<T, U, F: FnOnce(T) -> U> [Option::<T>::map_or] (o: Option<T>, d: U, f: F) -> (r: U)
    where U: core::marker::Destruct, F: core::marker::Destruct
    requires o is Some ==> f.requires((o->Some_0,))
    ensures o is None ==> r == d, o is Some ==> f.ensures((o->Some_0,), r);

pub enum Status { Success, UserInterrupt, NeedLargerNMax, StepSizeTooSmall, ProbablyStiff, SingularMatrix, PoorConvergence }
pub struct Evals { pub ode: usize, pub jac: usize, pub lu: usize }
impl Evals { pub fn new() -> (r: Self) ensures r.ode == 0, r.jac == 0, r.lu == 0 { Self { ode: 0, jac: 0, lu: 0 } } }
pub struct Steps { pub total: usize, pub accepted: usize, pub rejected: usize }
impl Steps { pub fn new() -> (r: Self) ensures r.total == 0, r.accepted == 0, r.rejected == 0 { Self { total: 0, accepted: 0, rejected: 0 } } }
pub struct IntegrationResult { pub h: Float, pub status: Status, pub evals: Evals, pub steps: Steps }
impl IntegrationResult { pub fn new(h: Float, status: Status, evals: Evals, steps: Steps) -> (r: Self) ensures r.h == h, r.status == status, r.evals == evals, r.steps == steps { Self { h, status, evals, steps } } }
pub enum ControlFlag { Continue, Interrupt, XOut(Float), ModifiedSolution }
#[allow(inconsistent_fields)]
pub enum ConfigError { MustBePositive { parameter: &'static str, value: usize }, InvalidStepSize { value: Float, expected_sign: Float } }
pub enum Error { Config(ConfigError) }

pub struct StepInterpolant<'a> { pub cont: &'a [Float], pub xold: Float, pub h: Float }
impl<'a> StepInterpolant<'a> {
    pub fn new(cont: &'a [Float], xold: Float, h: Float) -> (r: Self) ensures r.cont@ == cont@, r.xold == xold, r.h == h { Self { cont, xold, h } }
}

/// Ghost log of everything a solver did through its two callbacks.
pub tracked struct Trace {
    pub ghost ode_calls: int,          // number of IVP::ode calls made
    pub ghost solout_calls: int,       // number of SolOut::solout calls made
    pub ghost last_x: f64,             // x handed back by the latest solout call
    pub ghost stopped: bool,           // a solout call returned Interrupt
}

pub trait IVP {
    spec fn rhs(&self, x: Float, y: Seq<Float>) -> Seq<Float>;
    fn ode(&self, x: Float, y: &[Float], dydx: &mut [Float], Tracked(tr): Tracked<&mut Trace>)
        requires y@.len() == old(dydx)@.len()
        ensures final(dydx)@ == self.rhs(x, y@), final(dydx)@.len() == old(dydx)@.len(),
            final(tr).ode_calls == old(tr).ode_calls + 1,
            final(tr).solout_calls == old(tr).solout_calls, final(tr).last_x == old(tr).last_x, final(tr).stopped == old(tr).stopped;
}

pub trait SolOut {
    fn solout(&mut self, xold: Float, x: &mut Float, y: &mut [Float], interpolant: Option<&StepInterpolant<'_>>, Tracked(tr): Tracked<&mut Trace>) -> (r: ControlFlag)
        requires
            !old(tr).stopped,
            old(tr).solout_calls == 0 ==> xold == *old(x) && interpolant is None,
            old(tr).solout_calls > 0 ==> xold == old(tr).last_x,
        ensures final(y)@.len() == old(y)@.len(),
            final(tr).ode_calls == old(tr).ode_calls,
            final(tr).solout_calls == old(tr).solout_calls + 1,
            final(tr).last_x == *final(x),
            final(tr).stopped == (r is Interrupt);
}

pub struct RK4 { pub max_steps: usize, pub dense_output: bool }
