#![allow(unused)]
use vstd::prelude::*;
use vstd::std_specs::ops::*;
use vstd::std_specs::cmp::*;
use core::cmp::Ordering;
verus! {
pub mod fp { use vstd::prelude::*; use vstd::std_specs::ops::*; use vstd::std_specs::cmp::*; use core::cmp::Ordering;
pub broadcast axiom fn f64_add_req(a: f64, b: f64) ensures #[trigger] a.add_req(b);
pub broadcast axiom fn f64_sub_req(a: f64, b: f64) ensures #[trigger] a.sub_req(b);
pub broadcast axiom fn f64_mul_req(a: f64, b: f64) ensures #[trigger] a.mul_req(b);
pub broadcast axiom fn f64_div_req(a: f64, b: f64) ensures #[trigger] a.div_req(b);
pub axiom fn cmp_obeys() ensures <f64 as PartialOrdSpec<f64>>::obeys_partial_cmp_spec(), <f64 as PartialEqSpec<f64>>::obeys_eq_spec();
pub open spec fn fgt(a: f64, b: f64) -> bool { a.partial_cmp_spec(&b) == Some(Ordering::Greater) }
// IEEE fact (CBMC-proved): !(x > m) && (i > m) ==> !(x > i)
pub broadcast axiom fn ngt_trans(x: f64, m: f64, i: f64) requires !fgt(x, m), fgt(i, m) ensures !#[trigger] fgt(x, i), #[trigger] fgt(i, m);
pub broadcast axiom fn gt_irrefl(x: f64) ensures !#[trigger] fgt(x, x);
pub broadcast group f64_ops { f64_add_req, f64_sub_req, f64_mul_req, f64_div_req }
}
broadcast use fp::f64_ops;
use fp::fgt;
global size_of usize == 8;
pub type Float = f64;
pub uninterp spec fn s_abs(x: f64) -> f64;
pub assume_specification [f64::abs] (x: f64) -> (r: f64) ensures r == s_abs(x);
pub uninterp spec fn s_neg(x: f64) -> f64;
#[verifier::external_body] pub fn vneg(x: f64) -> (r: f64) ensures r == s_neg(x) { -x }
pub enum LinearAlgebraError { SingularMatrix, NonSquareMatrix { rows: usize, cols: usize }, PivotSizeMismatch { expected: usize, actual: usize } }
pub enum Error { LinearAlgebra(LinearAlgebraError) }
pub enum MatrixStorage { Identity, Full, Banded { ml: usize, mu: usize } }
pub struct Matrix { pub n: usize, pub m: usize, pub data: Vec<Float>, pub storage: MatrixStorage }
pub open spec fn in_band(i: int, j: int, ml: int, mu: int) -> bool { -mu <= i - j <= ml }
impl Matrix {
    pub open spec fn wf(&self) -> bool {
        match self.storage {
            MatrixStorage::Identity => self.data@.len() == 2,
            MatrixStorage::Full => self.data@.len() == self.n * self.m && self.n * self.m <= usize::MAX,
            MatrixStorage::Banded { ml, mu } => self.data@.len() == (ml + mu + 1) * self.m && ml < self.n && mu < self.m,
        }
    }
    pub open spec fn at(&self, i: int, j: int) -> f64 {
        match self.storage {
            MatrixStorage::Identity => if i == j { self.data@[0] } else { self.data@[1] },
            MatrixStorage::Full => self.data@[i * self.m + j],
            MatrixStorage::Banded { ml, mu } => if in_band(i, j, ml as int, mu as int) { self.data@[(i - j + mu) * self.m + j] } else { 0.0f64 },
        }
    }
    pub fn nrows(&self) -> (r: usize) ensures r == self.n { self.n }
    pub fn ncols(&self) -> (r: usize) ensures r == self.m { self.m }
    pub proof fn lemma_idx(n: int, m: int, i: int, j: int) by (nonlinear_arith) requires 0 <= i < n, 0 <= j < m ensures 0 <= i * m + j < n * m {}
    pub fn index(&self, index: (usize, usize)) -> (r: &Float)
        requires self.wf(), index.0 < self.n, index.1 < self.m, self.storage is Full,
        ensures *r == self.at(index.0 as int, index.1 as int),
    {
        let (i, j) = index;
        assert!(i < self.n && j < self.m, "Index out of bounds");
        match &self.storage {
            MatrixStorage::Identity => {
                if i == j {
                    &self.data[0]
                } else {
                    &self.data[1]
                }
            }
            MatrixStorage::Full => { proof { Matrix::lemma_idx(self.n as int, self.m as int, i as int, j as int); } &self.data[i * self.m + j] }
            MatrixStorage::Banded { ml, mu } => {
                let k = i as isize - j as isize;
                if k < -(*mu as isize) || k > *ml as isize {
                    &0.0
                } else {
                    let row = (k + *mu as isize) as usize;
                    &self.data[row * self.m + j]
                }
            }
        }
    }
    pub fn index_mut(&mut self, ij: (usize, usize)) -> (r: &mut Float)
        requires old(self).wf(), ij.0 < old(self).n, ij.1 < old(self).m, old(self).storage is Full,
        ensures *r == old(self).at(ij.0 as int, ij.1 as int), final(self).n == old(self).n, final(self).m == old(self).m, final(self).storage == old(self).storage,
            final(self).data@ == old(self).data@.update(ij.0 * old(self).m + ij.1, *final(r)),
    {
        let (i, j) = ij;
        assert!(i < self.n && j < self.m, "Index out of bounds");
        match &mut self.storage {
            MatrixStorage::Full => { proof { Matrix::lemma_idx(self.n as int, self.m as int, i as int, j as int); } &mut self.data[i * self.m + j] }
            MatrixStorage::Identity => {
                panic!(
                    "cannot mutate Identity matrix via indexing; convert explicitly to Full first"
                )
            }
            MatrixStorage::Banded { ml, mu } => {
                let k = i as isize - j as isize;
                if k >= -(*mu as isize) && k <= *ml as isize {
                    let row = (k + *mu as isize) as usize;
                    &mut self.data[row * self.m + j]
                } else {
                    panic!(
                        "attempted to write outside band of Banded matrix: i-j={} not in [-mu, ml] = [-{}, {}]",
                        k, mu, ml
                    )
                }
            }
        }
    }
}
pub fn lu_decomp(a: &mut Matrix, ip: &mut [usize]) -> (r: Result<(), Error>)
    requires old(a).wf(), old(a).storage is Full, old(a).n >= 1,
    ensures final(a).wf(), final(a).n == old(a).n, final(a).m == old(a).m, final(a).storage is Full, final(ip)@.len() == old(ip)@.len(),
        old(a).n != old(a).m ==> r == Err::<(), Error>(Error::LinearAlgebra(LinearAlgebraError::NonSquareMatrix { rows: old(a).n, cols: old(a).m })),
        old(a).n == old(a).m && old(ip)@.len() != old(a).n ==> r == Err::<(), Error>(Error::LinearAlgebra(LinearAlgebraError::PivotSizeMismatch { expected: old(a).n, actual: old(ip)@.len() as usize })),
        old(a).n == old(a).m && old(ip)@.len() == old(a).n ==> (r is Ok || r == Err::<(), Error>(Error::LinearAlgebra(LinearAlgebraError::SingularMatrix))),
        r is Ok ==> forall|k: int| 0 <= k < old(a).n - 1 ==> k <= #[trigger] final(ip)@[k] < old(a).n,
{
    proof { fp::cmp_obeys(); }
    let n = a.nrows();
    if n != a.ncols() {
        return Err(Error::LinearAlgebra(LinearAlgebraError::NonSquareMatrix {
            rows: n,
            cols: a.ncols(),
        }));
    }

    if ip.len() != n {
        return Err(Error::LinearAlgebra(LinearAlgebraError::PivotSizeMismatch {
            expected: n,
            actual: ip.len(),
        }));
    }

    if n == 1 {
        if (*a.index((0, 0))) == 0.0 {
            return Err(Error::LinearAlgebra(LinearAlgebraError::SingularMatrix));
        }
        ip[0] = 0;
        return Ok(());
    }

    let nm1 = n - 1;
    for k in 0..nm1
        invariant a.wf(), a.storage is Full, a.n == n, a.m == n, ip@.len() == n, n >= 2, nm1 == n - 1, n == old(a).n, n == old(a).m, old(ip)@.len() == n,
            forall|kk: int| 0 <= kk < k ==> kk <= #[trigger] ip@[kk] < n,
    {
        proof { fp::cmp_obeys(); }
        let kp1 = k + 1;

        // Find pivot - search for largest magnitude element in column k
        let mut m = k;
        let mut max_val = (*a.index((k, k))).abs();
        proof { fp::gt_irrefl(s_abs(a.at(k as int, k as int))); }
        for i in kp1..n
            invariant a.wf(), a.storage is Full, a.n == n, a.m == n, ip@.len() == n, n >= 2, nm1 == n - 1, n == old(a).n, n == old(a).m, old(ip)@.len() == n, k < nm1, kp1 == k + 1, k <= m < n, m < i,
                max_val == s_abs(a.at(m as int, k as int)),
                forall|ii: int| k <= ii < i ==> !fgt(s_abs(#[trigger] a.at(ii, k as int)), s_abs(a.at(m as int, k as int))),
        {
            proof { fp::cmp_obeys(); }
            let ghost m_old = m;
            let val = (*a.index((i, k))).abs();
            if val > max_val {
                max_val = val;
                m = i;
                proof {
                    assert forall|ii: int| k <= ii < i + 1 implies !fgt(s_abs(#[trigger] a.at(ii, k as int)), s_abs(a.at(m as int, k as int))) by {
                        if ii < i { fp::ngt_trans(s_abs(a.at(ii, k as int)), s_abs(a.at(m_old as int, k as int)), s_abs(a.at(i as int, k as int))); }
                        else { fp::gt_irrefl(s_abs(a.at(i as int, k as int))); }
                    }
                }
            }
        }
        // C16: the chosen pivot has maximal magnitude in column k among rows k..n
        assert(forall|ii: int| k <= ii < n ==> !fgt(s_abs(#[trigger] a.at(ii, k as int)), s_abs(a.at(m as int, k as int))));

        ip[k] = m;
        // store pivot value (original A(m,k)) before any swapping of row entries
        let pivot = (*a.index((m, k)));

        // Check for singularity
        if pivot == 0.0 {
            return Err(Error::LinearAlgebra(LinearAlgebraError::SingularMatrix));
        }

        // If m != k, swap only the k-th column entries between rows m and k now
        if m != k {
            let tmp = (*a.index((m, k)));
            *a.index_mut((m, k)) = (*a.index((k, k)));
            *a.index_mut((k, k)) = tmp;
        }

        // Scale column - store negative multipliers (uses original A(i,k))
        let t = 1.0 / pivot;
        for i in kp1..n
            invariant a.wf(), a.storage is Full, a.n == n, a.m == n, ip@.len() == n, n >= 2, nm1 == n - 1, n == old(a).n, n == old(a).m, old(ip)@.len() == n, k < nm1, kp1 == k + 1, k <= m < n,
        {
            *a.index_mut((i, k)) = vneg((*a.index((i, k)))) * t;
        }

        // Update remaining submatrix using original A(m,j) as multiplier (Fortran uses T=A(M,J))
        for j in kp1..n
            invariant a.wf(), a.storage is Full, a.n == n, a.m == n, ip@.len() == n, n >= 2, nm1 == n - 1, n == old(a).n, n == old(a).m, old(ip)@.len() == n, k < nm1, kp1 == k + 1, k <= m < n,
        {
            proof { fp::cmp_obeys(); }
            // take T = original A(m,j)
            let tj = (*a.index((m, j)));

            // swap the rest of the row entries between m and k (as lu_decomp does)
            if m != k {
                let temp = (*a.index((m, j)));
                *a.index_mut((m, j)) = (*a.index((k, j)));
                *a.index_mut((k, j)) = temp;
            }

            // Apply elimination using the original A(m,j)
            if tj != 0.0 {
                for i in kp1..n
                    invariant a.wf(), a.storage is Full, a.n == n, a.m == n, ip@.len() == n, n >= 2, nm1 == n - 1, n == old(a).n, n == old(a).m, old(ip)@.len() == n, k < nm1, kp1 == k + 1, k <= m < n, kp1 <= j < n,
                {
                    *a.index_mut((i, j)) = (*a.index((i, j))) + ((*a.index((i, k))) * tj);
                }
            }
        }
    }

    // Check if the final diagonal element is non-zero
    if (*a.index((n - 1, n - 1))) == 0.0 {
        return Err(Error::LinearAlgebra(LinearAlgebraError::SingularMatrix));
    }

    Ok(())
}
} // verus!
fn main() {}
