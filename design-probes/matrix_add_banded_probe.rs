#![allow(unused)]
use vstd::prelude::*;
use vstd::std_specs::ops::*;
verus! {
pub mod fp { use vstd::prelude::*; use vstd::std_specs::ops::*;
pub broadcast axiom fn f64_add_req(a: f64, b: f64) ensures #[trigger] a.add_req(b);
pub axiom fn add_obeys() ensures <f64 as AddSpec<f64>>::obeys_add_spec();
pub broadcast group f64_ops { f64_add_req }
}
broadcast use fp::f64_ops;
pub type Float = f64;

pub open spec fn fadd(a: f64, b: f64) -> f64 { a.add_spec(b) }
/// numeric equality up to the sign of zero / NaN payload (IEEE `==` or both NaN)
pub uninterp spec fn feq(a: f64, b: f64) -> bool;
pub broadcast axiom fn feq_refl(a: f64) ensures #[trigger] feq(a, a);
// IEEE facts (each discharged bit-precisely by a CBMC harness)
pub broadcast axiom fn add_zero_l(a: f64) ensures feq(#[trigger] fadd(0.0f64, a), a);
pub broadcast axiom fn feq_add_cong(a: f64, a2: f64, b: f64) requires feq(a, a2) ensures feq(#[trigger] fadd(a, b), #[trigger] fadd(a2, b));

pub enum MatrixStorage { Identity, Full, Banded { ml: usize, mu: usize } }
pub struct Matrix { pub n: usize, pub m: usize, pub data: Vec<Float>, pub storage: MatrixStorage }

pub open spec fn in_band(i: int, j: int, ml: int, mu: int) -> bool { -mu <= i - j <= ml }

impl Matrix {
    pub open spec fn wf(&self) -> bool {
        &&& self.n == self.m
        &&& match self.storage {
            MatrixStorage::Identity => self.data@.len() == 2 && self.data@[0] == 1.0f64 && self.data@[1] == 0.0f64,
            MatrixStorage::Full => self.data@.len() == self.n * self.m,
            MatrixStorage::Banded { ml, mu } => self.data@.len() == (ml + mu + 1) * self.n,
        }
    }
    /// Dense meaning of the matrix: entry (i, j).
    pub open spec fn at(&self, i: int, j: int) -> f64 {
        match self.storage {
            MatrixStorage::Identity => if i == j { 1.0f64 } else { 0.0f64 },
            MatrixStorage::Full => self.data@[i * self.m + j],
            MatrixStorage::Banded { ml, mu } => if in_band(i, j, ml as int, mu as int) { self.data@[(i - j + mu) * self.m + j] } else { 0.0f64 },
        }
    }
}

// --- verbatim Banded+Banded arm of `impl Add for Matrix` (add.rs) as a function over the destructured parts ---
fn add_banded(n: usize, a: Vec<Float>, ml: usize, mu: usize, b: Vec<Float>, ml2: usize, mu2: usize) -> (out: Matrix)
    requires
        a@.len() == (ml + mu + 1) * n, b@.len() == (ml2 + mu2 + 1) * n,
        ml < n, mu < n, ml2 < n, mu2 < n, n < 0x1000_0000,
    ensures out.wf(), out.n == n,
        forall|i: int, j: int| 0 <= i < n && 0 <= j < n ==>
            feq(#[trigger] out.at(i, j),
                fadd(Matrix { n, m: n, data: a, storage: MatrixStorage::Banded { ml, mu } }.at(i, j),
                     Matrix { n, m: n, data: b, storage: MatrixStorage::Banded { ml: ml2, mu: mu2 } }.at(i, j))),
{
                let ml_out = ml.max(ml2);
                let mu_out = mu.max(mu2);
                let rows_out = ml_out + mu_out + 1;
                let mut out = Matrix {
                    n,
                    m: n,
                    data: vec![0.0; rows_out * n],
                    storage: MatrixStorage::Banded {
                        ml: ml_out,
                        mu: mu_out,
                    },
                };
                // First input accumulate
                for j in 0..n {
                    for r in 0..(ml + mu + 1) {
                        let k = r as isize - mu as isize;
                        let i_signed = j as isize + k;
                        if i_signed >= 0 && (i_signed as usize) < n {
                            let row_out = (k + mu_out as isize) as usize;
                            out.data[row_out * n + j] = out.data[row_out * n + j] + a[r * n + j];
                        }
                    }
                }
                // Second input accumulate
                for j in 0..n {
                    for r in 0..(ml2 + mu2 + 1) {
                        let k = r as isize - mu2 as isize;
                        let i_signed = j as isize + k;
                        if i_signed >= 0 && (i_signed as usize) < n {
                            let row_out = (k + mu_out as isize) as usize;
                            out.data[row_out * n + j] = out.data[row_out * n + j] + b[r * n + j];
                        }
                    }
                }
                out
}
}
fn main() {}
