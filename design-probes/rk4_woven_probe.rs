#![feature(const_destruct)]
#![allow(unused)]
use vstd::prelude::*;
use vstd::std_specs::ops::*;
verus! {
pub mod fp { use vstd::prelude::*; use vstd::std_specs::ops::*;
pub broadcast axiom fn f64_add_req(a: f64, b: f64) ensures #[trigger] a.add_req(b);
pub broadcast axiom fn f64_sub_req(a: f64, b: f64) ensures #[trigger] a.sub_req(b);
pub broadcast axiom fn f64_mul_req(a: f64, b: f64) ensures #[trigger] a.mul_req(b);
pub broadcast axiom fn f64_div_req(a: f64, b: f64) ensures #[trigger] a.div_req(b);
pub broadcast group f64_ops { f64_add_req, f64_sub_req, f64_mul_req, f64_div_req }
}
broadcast use fp::f64_ops;
pub type Float = f64;
pub uninterp spec fn s_signum(x: f64) -> f64;
pub uninterp spec fn s_abs(x: f64) -> f64;
pub assume_specification [f64::signum] (x: f64) -> (r: f64) ensures r == s_signum(x);
pub assume_specification [f64::abs] (x: f64) -> (r: f64) ensures r == s_abs(x);
pub assume_specification<T: Clone> [<[T]>::to_vec] (s: &[T]) -> (r: Vec<T>) ensures r@ == s@;
#[verifier::allow(undeclared_external_trait)]
pub assume_specification<T, U, F: FnOnce(T) -> U> [Option::<T>::map_or] (o: Option<T>, d: U, f: F) -> (r: U)
    where U: core::marker::Destruct, F: core::marker::Destruct
    requires o is Some ==> f.requires((o->Some_0,))
    ensures o is None ==> r == d, o is Some ==> f.ensures((o->Some_0,), r);

#[verifier::external_body]
pub fn vslice_copy<T: Copy>(v: &mut Vec<T>, a: usize, b: usize, src: &[T])
    requires a <= b <= old(v)@.len(), src@.len() == b - a
    ensures final(v)@ == old(v)@.subrange(0, a as int) + src@ + old(v)@.subrange(b as int, old(v)@.len() as int)
{ v[a..b].copy_from_slice(src) }
pub enum Status { Success, UserInterrupt, NeedLargerNMax, StepSizeTooSmall, ProbablyStiff, SingularMatrix, PoorConvergence }
pub struct Evals { pub ode: usize, pub jac: usize, pub lu: usize }
impl Evals { pub fn new() -> (r: Self) ensures r.ode == 0, r.jac == 0, r.lu == 0 { Self { ode: 0, jac: 0, lu: 0 } } }
pub struct Steps { pub total: usize, pub accepted: usize, pub rejected: usize }
impl Steps { pub fn new() -> (r: Self) ensures r.total == 0, r.accepted == 0, r.rejected == 0 { Self { total: 0, accepted: 0, rejected: 0 } } }
pub struct IntegrationResult { pub h: Float, pub status: Status, pub evals: Evals, pub steps: Steps }
impl IntegrationResult { pub fn new(h: Float, status: Status, evals: Evals, steps: Steps) -> (r: Self) ensures r.h == h, r.status == status, r.evals == evals, r.steps == steps { Self { h, status, evals, steps } } }
pub enum ControlFlag { Continue, Interrupt, XOut(Float), ModifiedSolution }
#[allow(inconsistent_fields)]
pub enum ConfigError { MustBePositive { parameter: &'static str, value: usize }, InvalidStepSize { value: Float, expected_sign: Float } }
pub enum Error { Config(ConfigError) }

pub struct StepInterpolant<'a> { pub cont: &'a [Float], pub xold: Float, pub h: Float }
impl<'a> StepInterpolant<'a> {
    pub fn new(cont: &'a [Float], xold: Float, h: Float) -> (r: Self) ensures r.cont@ == cont@, r.xold == xold, r.h == h { Self { cont, xold, h } }
}

/// Ghost log of everything a solver did through its two callbacks.
pub tracked struct Trace {
    pub ghost ode_calls: int,          // number of IVP::ode calls made
    pub ghost solout_calls: int,       // number of SolOut::solout calls made
    pub ghost last_x: f64,             // x handed back by the latest solout call
    pub ghost stopped: bool,           // a solout call returned Interrupt
}

pub trait IVP {
    spec fn rhs(&self, x: Float, y: Seq<Float>) -> Seq<Float>;
    fn ode(&self, x: Float, y: &[Float], dydx: &mut [Float], Tracked(tr): Tracked<&mut Trace>)
        requires y@.len() == old(dydx)@.len()
        ensures final(dydx)@ == self.rhs(x, y@), final(dydx)@.len() == old(dydx)@.len(),
            final(tr).ode_calls == old(tr).ode_calls + 1,
            final(tr).solout_calls == old(tr).solout_calls, final(tr).last_x == old(tr).last_x, final(tr).stopped == old(tr).stopped;
}

pub trait SolOut {
    fn solout(&mut self, xold: Float, x: &mut Float, y: &mut [Float], interpolant: Option<&StepInterpolant<'_>>, Tracked(tr): Tracked<&mut Trace>) -> (r: ControlFlag)
        requires
            !old(tr).stopped,
            old(tr).solout_calls == 0 ==> xold == *old(x) && interpolant is None,
            old(tr).solout_calls > 0 ==> xold == old(tr).last_x,
        ensures final(y)@.len() == old(y)@.len(),
            final(tr).ode_calls == old(tr).ode_calls,
            final(tr).solout_calls == old(tr).solout_calls + 1,
            final(tr).last_x == *final(x),
            final(tr).stopped == (r is Interrupt);
}

pub struct RK4 { pub max_steps: usize, pub dense_output: bool }

impl RK4 { 
    /// Classical explicit Runge–Kutta 4 (RK4) — fixed-step solver with optional dense output.
    ///
    /// This function integrates the autonomous system `y' = f(x, y)` from `x` to
    /// `xend` using a constant step size `h`, advancing the state buffer `y`
    /// in-place. It can optionally provide dense-output coefficients for continuous
    /// interpolation inside each step and call a user-provided `SolOut` hook.
    ///
    /// # Arguments
    ///
    /// ## Defining the Problem
    /// - `f`: Right‑hand side implementing `IVP`.
    /// - `x`: Initial independent variable value.
    /// - `xend`: Final independent variable value.
    /// - `y`: Mutable slice for the initial state; on success contains the state at `xend`.
    /// - `h`: Fixed step size (its sign must match `xend - x`).
    /// 
    /// ## Output Control
    /// - `solout`: Optional mutable reference to a `SolOut` callback invoked once
    ///   before the loop and after each accepted step.
    /// - `dense_output`: If `true`, dense‑output coefficients are computed for each
    ///   accepted step and an interpolant is passed to the callback.
    /// 
    /// ## Optional Settings
    /// - `max_steps`: Optional upper bound on the number of steps (default `100_000`).
    ///
    /// Solver settings are configured via the `RK4` struct fields.
    ///
    /// # Returns
    /// A `Result` with `IntegrationResult` on success or an `Error` if validation fails.
    pub fn solve<F, S>(
        &self,
        f: &F,
        x0: Float,
        y0: &[Float],
        xend: Float,
        h: Float,
        mut solout: Option<&mut S>,
        Tracked(tr): Tracked<&mut Trace>,
    ) -> (r: Result<IntegrationResult, Error>)
    where
        F: IVP,
        S: SolOut,
    requires
        4 * y0@.len() <= usize::MAX,
        self.max_steps < usize::MAX / 8,
        old(tr).solout_calls == 0, !old(tr).stopped,
    ensures
        r is Ok ==> (r->Ok_0).evals.ode == final(tr).ode_calls - old(tr).ode_calls,
        r is Ok ==> ((r->Ok_0).status is UserInterrupt <==> final(tr).stopped),
    {
        // Create mutable copies for the solver to mutate
        let mut x = x0;
        let mut y = y0.to_vec();

        // --- Input Validation ---
        
        // Initial Step Size
        let posneg = (xend - x).signum();
        if h == 0.0 || h.signum() != posneg {
            return Err(Error::Config(ConfigError::InvalidStepSize {
                value: h,
                expected_sign: posneg,
            }));
        }

        // Maximum Number of Steps
        let nmax = self.max_steps;
        if nmax == 0 {
            return Err(Error::Config(ConfigError::MustBePositive {
                parameter: "max_steps",
                value: nmax,
            }));
        }

        // --- Declarations ---
        let n = y.len();
        let mut k1 = vec![0.0; n];
        let mut k2 = vec![0.0; n];
        let mut k3 = vec![0.0; n];
        let mut k4 = vec![0.0; n];
        let mut yt = vec![0.0; n];
        let mut cont = vec![0.0; 4 * n];
        let mut evals = Evals::new();
        let mut steps = Steps::new();
        let mut status = Status::Success;
        let mut xold = x;
        let mut xout: Option<Float> = None;

        // --- Initializations ---
        f.ode(x, &y, &mut k1, Tracked(tr));
        evals.ode = evals.ode + 1;

        // Initial SolOut call (no interpolator yet; xold == x)
        if let Some(sol) = solout.as_mut() {
            match sol.solout(xold, &mut x, &mut y, None, Tracked(tr)) {
                ControlFlag::Interrupt => {
                    return Ok(IntegrationResult {
                        h,
                        status: Status::UserInterrupt,
                        evals,
                        steps,
                    });
                }
                ControlFlag::ModifiedSolution => {
                    f.ode(x, &y, &mut k1, Tracked(tr));
                    evals.ode = evals.ode + (1);
                }
                ControlFlag::XOut(xo) => {
                    xout = Some(xo);
                }
                ControlFlag::Continue => {}
            }
        }

        // --- Main integration loop ---
        loop
            invariant_except_break status is Success, !tr.stopped,
            invariant y.len() == n, k1.len() == n, k2.len() == n, k3.len() == n, k4.len() == n, yt.len() == n, cont.len() == 4 * n, steps.total <= nmax, nmax == self.max_steps, nmax < usize::MAX / 8,
                evals.ode == tr.ode_calls - old(tr).ode_calls,
                evals.ode <= 5 * steps.total + 2,
                tr.solout_calls > 0 ==> tr.last_x == x,
                solout is Some ==> tr.solout_calls > 0,
                solout is None ==> tr.solout_calls == 0,
            ensures (status is UserInterrupt) == tr.stopped,
                evals.ode == tr.ode_calls - old(tr).ode_calls,
            decreases nmax - steps.total,
        {
            // Check for maximum number of steps
            if steps.total >= nmax {
                status = Status::NeedLargerNMax;
                break;
            }

            // Adjust last step so we land exactly on xend
            let mut last = false;
            if (x + 1.01 * h - xend) * h.signum() > 0.0 {
                last = true;
            }

            // Stage computations
            for i in 0..n
                invariant y.len() == n, k1.len() == n, k2.len() == n, k3.len() == n, k4.len() == n, yt.len() == n, cont.len() == 4 * n,
            {
                yt[i] = y[i] + h * A21 * k1[i];
            }
            f.ode(x + C2 * h, &yt, &mut k2, Tracked(tr));

            for i in 0..n
                invariant y.len() == n, k1.len() == n, k2.len() == n, k3.len() == n, k4.len() == n, yt.len() == n, cont.len() == 4 * n,
            {
                yt[i] = y[i] + h * A32 * k2[i];
            }
            f.ode(x + C3 * h, &yt, &mut k3, Tracked(tr));

            for i in 0..n
                invariant y.len() == n, k1.len() == n, k2.len() == n, k3.len() == n, k4.len() == n, yt.len() == n, cont.len() == 4 * n,
            {
                yt[i] = y[i] + h * A43 * k3[i];
            }
            f.ode(x + C4 * h, &yt, &mut k4, Tracked(tr));

            xold = x;
            yt.copy_from_slice(&y);

            // Update solution
            x = x + (h);
            for i in 0..n
                invariant y.len() == n, k1.len() == n, k2.len() == n, k3.len() == n, k4.len() == n, yt.len() == n, cont.len() == 4 * n,
            {
                y[i] = y[i] + (h * (B1 * k1[i] + B2 * k2[i] + B3 * k3[i] + B4 * k4[i]));
            }
            f.ode(x, &y, &mut k1, Tracked(tr));

            evals.ode = evals.ode + (4);
            steps.total = steps.total + (1);

            // Decide if we must build dense output (for user xout events as well)
            let event = xout.map_or(false, |xo| xo <= x);
            if (self.dense_output || event) && solout.is_some() {
                vslice_copy(&mut cont, 0, n, &yt);
                for i in 0..n
                invariant y.len() == n, k1.len() == n, k2.len() == n, k3.len() == n, k4.len() == n, yt.len() == n, cont.len() == 4 * n,
            {
                    cont[n + i] = k4[i];
                    cont[2 * n + i] = k1[i];
                }
                vslice_copy(&mut cont, 3 * n, 4 * n, &y);
            }

            // Optional callback function
            if let Some(sol) = solout.as_mut() {
                let interpolant = if self.dense_output || xout.map_or(false, |xo| xo <= x) {
                    Some(StepInterpolant::new(&cont, xold, h))
                } else {
                    None
                };
                match sol.solout(xold, &mut x, &mut y, interpolant.as_ref(), Tracked(tr)) {
                    ControlFlag::Interrupt => {
                        status = Status::UserInterrupt;
                        break;
                    }
                    ControlFlag::ModifiedSolution => {
                        // Recompute k1 at new (x, y).
                        f.ode(x, &y, &mut k1, Tracked(tr));
                        evals.ode = evals.ode + (1);
                    }
                    ControlFlag::XOut(xo) => {
                        xout = Some(xo);
                    }
                    ControlFlag::Continue => {}
                }
            }

            // Normal exit
            if last {
                break;
            }
        }

        // Final update happens on accepted step, no need to update here again
        Ok(IntegrationResult::new(h, status, evals, steps))
    }

    /// Continuous output function for RK4 using cubic Hermite interpolation.
    pub fn interpolate(xi: Float, yi: &mut [Float], cont: &[Float], xold: Float, h: Float)
        requires cont@.len() >= 4 * old(yi)@.len()
    {
        let t = (xi - xold) / h;
        let t2 = t * t;
        let t3 = t2 * t;
        let h00 = 2.0 * t3 - 3.0 * t2 + 1.0;
        let h10 = t3 - 2.0 * t2 + t;
        let h01 = -2.0 * t3 + 3.0 * t2;
        let h11 = t3 - t2;
        let n = yi.len();
        for i in 0..n
            invariant n == yi.len(), cont.len() >= 4 * n,
        {
            yi[i] = h00 * cont[i]
                + h10 * h * cont[n + i]
                + h01 * cont[3 * n + i]
                + h11 * h * cont[2 * n + i];
        }
    }
}

// Classical RK4 coefficients
#[verifier::external_body] exec const C2: Float = 0.5;
#[verifier::external_body] exec const C3: Float = 0.5;
#[verifier::external_body] exec const C4: Float = 1.0;
#[verifier::external_body] exec const A21: Float = 0.5;
#[verifier::external_body] exec const A32: Float = 0.5;
#[verifier::external_body] exec const A43: Float = 1.0;
#[verifier::external_body] exec const B1: Float = 1.0 / 6.0;
#[verifier::external_body] exec const B2: Float = 1.0 / 3.0;
#[verifier::external_body] exec const B3: Float = 1.0 / 3.0;
#[verifier::external_body] exec const B4: Float = 1.0 / 6.0;

} // verus!
fn main() {}
