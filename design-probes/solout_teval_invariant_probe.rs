#![feature(const_destruct)]
use vstd::prelude::*;
use vstd::std_specs::ops::*;
use vstd::std_specs::cmp::*;
use core::cmp::Ordering;
verus! {
global size_of usize == 8;
pub mod defs { use vstd::prelude::*;
pub uninterp spec fn R(x: f64) -> real;
pub open spec fn rabs(a: real) -> real { if a >= 0real { a } else { 0real - a } }
pub uninterp spec fn s_signum(x: f64) -> f64;
pub uninterp spec fn s_abs(x: f64) -> f64;
pub uninterp spec fn s_min(x: f64, y: f64) -> f64;
pub uninterp spec fn s_neg(x: f64) -> f64;
}
use defs::*;
pub mod fp { use vstd::prelude::*; use vstd::std_specs::ops::*; use vstd::std_specs::cmp::*; use core::cmp::Ordering; use super::defs::*;
pub axiom fn obeys() ensures <f64 as AddSpec<f64>>::obeys_add_spec(), <f64 as SubSpec<f64>>::obeys_sub_spec(),
    <f64 as PartialOrdSpec<f64>>::obeys_partial_cmp_spec(), <f64 as PartialEqSpec<f64>>::obeys_eq_spec();
pub broadcast axiom fn r_add(a: f64, b: f64) ensures R(#[trigger] a.add_spec(b)) == R(a) + R(b);
pub broadcast axiom fn r_sub(a: f64, b: f64) ensures R(#[trigger] a.sub_spec(b)) == R(a) - R(b);
pub broadcast axiom fn r_cmp(a: f64, b: f64) ensures #[trigger] a.partial_cmp_spec(&b) == (if R(a) < R(b) { Some(Ordering::Less) } else if R(a) == R(b) { Some(Ordering::Equal) } else { Some(Ordering::Greater) });
pub broadcast axiom fn r_eq(a: f64, b: f64) ensures #[trigger] a.eq_spec(&b) == (R(a) == R(b));
pub broadcast axiom fn r_abs(a: f64) ensures R(#[trigger] s_abs(a)) == rabs(R(a));
pub broadcast group r_ops { r_add, r_sub, r_cmp, r_eq, r_abs }
pub broadcast axiom fn f64_add_req(a: f64, b: f64) ensures #[trigger] a.add_req(b);
pub broadcast axiom fn f64_sub_req(a: f64, b: f64) ensures #[trigger] a.sub_req(b);
pub broadcast axiom fn f64_mul_req(a: f64, b: f64) ensures #[trigger] a.mul_req(b);
pub broadcast axiom fn f64_div_req(a: f64, b: f64) ensures #[trigger] a.div_req(b);
pub broadcast group f64_ops { f64_add_req, f64_sub_req, f64_mul_req, f64_div_req }
}
broadcast use {fp::f64_ops, fp::r_ops};
pub type Float = f64;
pub assume_specification [f64::signum] (x: f64) -> (r: f64) ensures r == s_signum(x);
pub assume_specification [f64::abs] (x: f64) -> (r: f64) ensures r == s_abs(x);
pub assume_specification [f64::min] (x: f64, y: f64) -> (r: f64) ensures r == s_min(x, y);
pub assume_specification<T: Clone> [<[T]>::to_vec] (s: &[T]) -> (r: Vec<T>) ensures r@ == s@;

#[verifier::external_body] pub fn vneg(x: f64) -> (r: f64) ensures r == s_neg(x) { -x }
#[verifier::external_body] pub exec const F64_EPSILON: f64 = f64::EPSILON;
#[verifier::external_body]
pub fn sort_events_fwd(v: &mut Vec<(Float, usize, Vec<Float>)>)
    ensures final(v)@.len() == old(v)@.len(),
        forall|k: int| 0 <= k < final(v)@.len() ==> exists|k2: int| 0 <= k2 < old(v)@.len() && #[trigger] final(v)@[k] == old(v)@[k2] { }
pub enum ControlFlag { Continue, Interrupt, XOut(Float), ModifiedSolution }
pub enum Direction { All, Positive, Negative }
pub struct EventConfig { pub direction: Direction, pub terminal_count: Option<usize> }
pub struct StepInterpolant<'a> { pub cont: &'a [Float], pub xold: Float, pub h: Float }
pub struct DenseSegment { pub cont: Vec<Float>, pub xold: Float, pub h: Float }
impl<'a> StepInterpolant<'a> {
    #[verifier::external_body]
    pub fn interpolate(&self, xi: Float, yi: &mut [Float]) ensures final(yi)@.len() == old(yi)@.len() { unimplemented!() }
    #[verifier::external_body]
    pub fn to_segment(&self) -> (r: DenseSegment) ensures r.h == self.h, r.xold == self.xold, r.cont@ == self.cont@ { unimplemented!() }
}
pub trait IVP {
    spec fn n_events_spec(&self) -> nat;
    fn ode(&self, x: Float, y: &[Float], dydx: &mut [Float]) ensures final(dydx)@.len() == old(dydx)@.len();
    fn events(&self, x: Float, y: &[Float], out: &mut [Float])
        requires old(out)@.len() == self.n_events_spec()
        ensures final(out)@.len() == old(out)@.len();
    fn n_events(&self) -> (r: usize) ensures r == self.n_events_spec();
    fn event_config(&self, event_index: usize) -> EventConfig requires event_index < self.n_events_spec();
}
pub tracked struct Trace { pub ghost x0: f64, pub ghost xend: f64, pub ghost solout_calls: int, pub ghost last_x: f64, pub ghost stopped: bool }
pub trait SolOut {
    spec fn inv(&self) -> bool;
    spec fn j(&self, tr: Trace) -> bool;
    spec fn dim(&self) -> nat;
    spec fn needs_interp(&self) -> bool;
    spec fn started(&self) -> bool;
    spec fn first_call_ok(&self, xold: Float, x: Float) -> bool;
    fn solout(&mut self, xold: Float, x: &mut Float, y: &mut [Float], interpolant: Option<&StepInterpolant<'_>>, Tracked(tr): Tracked<&mut Trace>) -> (r: ControlFlag)
        requires old(self).inv(), old(y)@.len() == old(self).dim(), interpolant is Some,
            old(self).j(*old(tr)), !old(tr).stopped, old(tr).solout_calls >= 0,
            R(old(tr).xend) > R(old(tr).x0),                              // probe: forward direction only
            R(old(tr).x0) <= R(*old(x)) <= R(old(tr).xend),
            old(tr).solout_calls == 0 ==> xold == *old(x) && R(xold) == R(old(tr).x0),
            old(tr).solout_calls > 0 ==> xold == old(tr).last_x && R(*old(x)) > R(xold),
        ensures
            final(tr).x0 == old(tr).x0, final(tr).xend == old(tr).xend, final(tr).solout_calls == old(tr).solout_calls + 1,
            final(tr).last_x == *final(x), final(tr).stopped == (r is Interrupt),
            r is Continue ==> final(self).j(*final(tr)),
            final(self).inv(), final(self).dim() == old(self).dim(), final(self).needs_interp() == old(self).needs_interp(),
            final(y)@ == old(y)@, *final(x) == *old(x), r is Continue || r is Interrupt;
}
/// Internal output handler for `solve_ivp`.
pub struct DefaultSolOut<'a, F>
where
    F: IVP,
{
    /// Reference to the ODE system
    pub ode: &'a F,
    /// User-specified output times (if provided)
    pub t_eval: Option<Vec<Float>>,
    /// Current index into `t_eval` for tracking progress
    pub next_idx: usize,
    /// Numerical tolerance for time comparisons
    pub tol: Float,
    /// Collected output times
    pub t: Vec<Float>,
    /// Collected solution states corresponding to `t`
    pub y: Vec<Vec<Float>>,
    /// Times at which events occurred
    pub t_events: Vec<Vec<Float>>,
    /// Solution states at event times
    pub y_events: Vec<Vec<Vec<Float>>>,
    /// Whether to collect dense output interpolation data
    pub collect_dense: bool,
    /// Dense output segments: (coefficients, xold, h) for each accepted step
    pub dense_segs: Vec<(Vec<Float>, Float, Float)>,
    /// Solution state from the previous step (for event detection)
    pub yold: Vec<Float>,
    /// Event detection configuration
    pub event_config: Vec<EventConfig>,
    /// Event function value from the previous step (for zero-crossing detection)
    pub prev_event: Vec<Float>,
    /// Count of detected events (for terminal event handling)
    pub event_hits: Vec<usize>,
    /// Optional first step size: if set, the first output after the initial condition
    /// will be at exactly `x0 + first_step` (only when `t_eval` is not provided)
    pub first_step: Option<Float>,
    /// Initial value of the independent variable
    pub x0: Float,
    /// Flag tracking whether the first-step output has been enforced
    pub first_output_done: bool,
    // Pre-allocated buffers for event detection (avoid per-step allocations)
    /// Buffer for current event function values
    pub g_curr_buf: Vec<Float>,
    /// Buffer for midpoint state during bisection
    pub y_mid_buf: Vec<Float>,
    /// Buffer for midpoint event values during bisection
    pub g_mid_buf: Vec<Float>,
}

impl<'a, F> DefaultSolOut<'a, F>
where
    F: IVP,
{
    pub open spec fn wf(&self) -> bool {
        let ne = self.ode.n_events_spec();
        &&& self.event_config@.len() == ne && self.prev_event@.len() == ne && self.event_hits@.len() == ne
        &&& self.g_curr_buf@.len() == ne && self.g_mid_buf@.len() == ne
        &&& self.t_events@.len() == ne && self.y_events@.len() == ne
        &&& self.t@.len() == self.y@.len()
        &&& (self.yold@.len() == 0 || self.yold@.len() == self.y_mid_buf@.len())
        &&& (self.t_eval is Some ==> self.next_idx <= self.t_eval->Some_0@.len())
        &&& forall|i: int| 0 <= i < ne ==> (#[trigger] self.t_events@[i])@.len() == self.y_events@[i]@.len() && self.event_hits@[i] == self.t_events@[i]@.len()
    }
    /// Constructs a new output handler.
    pub fn new(
        ode: &'a F,
        t_eval: Option<Vec<Float>>,
        collect_dense: bool,
        first_step: Option<Float>,
        x0: Float,
        n_states: usize,
    ) -> (r: Self)
        ensures r.wf(), r.y_mid_buf@.len() == n_states, r.collect_dense == collect_dense, r.t_eval == t_eval,
    {
        let n_events = ode.n_events();
        let mut event_config = Vec::with_capacity(n_events);
        for i in 0..n_events
            invariant event_config@.len() == i, n_events == ode.n_events_spec(),
        {
            event_config.push(ode.event_config(i));
        }

        Self {
            ode,
            t_eval,
            next_idx: 0,
            tol: 1e-12,
            t: Vec::new(),
            y: Vec::new(),
            t_events: vec![Vec::new(); n_events],
            y_events: vec![Vec::new(); n_events],
            collect_dense,
            dense_segs: Vec::new(),
            event_config,
            prev_event: vec![0.0; n_events],
            event_hits: vec![0; n_events],
            yold: Vec::new(),
            first_step,
            x0,
            first_output_done: false,
            // Pre-allocate buffers for event detection
            g_curr_buf: vec![0.0; n_events],
            y_mid_buf: vec![0.0; n_states],
            g_mid_buf: vec![0.0; n_events],
        }
    }

    /// Consumes the handler and returns all collected data.
    pub fn into_payload(
        self,
    ) -> (
        Vec<Float>,
        Vec<Vec<Float>>,
        Vec<Vec<Float>>,
        Vec<Vec<Vec<Float>>>,
        Vec<(Vec<Float>, Float, Float)>,
    ) {
        (
            self.t,
            self.y,
            self.t_events,
            self.y_events,
            self.dense_segs,
        )
    }
}

impl<'a, F: IVP> SolOut for DefaultSolOut<'a, F> {
    open spec fn inv(&self) -> bool { self.wf() }
    open spec fn j(&self, tr: Trace) -> bool {
        self.t_eval is Some ==> {
            let te = self.t_eval->Some_0@;
            let tol = R(self.tol);
            &&& tol > 0real
            &&& (forall|a: int, b: int| 0 <= a <= b < te.len() ==> R(#[trigger] te[a]) <= R(#[trigger] te[b]))     // H1 sorted (forward)
            &&& (forall|a: int| 0 <= a < te.len() ==> R(tr.x0) <= R(#[trigger] te[a]) <= R(tr.xend))                  // H3 in span
            &&& self.t@ == te.subrange(0, self.next_idx as int)
            &&& (tr.solout_calls == 0 ==> self.next_idx == 0)
            &&& (tr.solout_calls > 0 ==> (forall|a: int| 0 <= a < self.next_idx ==> R(#[trigger] te[a]) <= R(tr.last_x) + tol))
            &&& (tr.solout_calls > 0 && self.next_idx < te.len() ==> R(te[self.next_idx as int]) > R(tr.last_x))
        }
    }
    open spec fn dim(&self) -> nat { self.y_mid_buf@.len() }
    open spec fn needs_interp(&self) -> bool { true }
    open spec fn started(&self) -> bool { self.yold@.len() > 0 }
    open spec fn first_call_ok(&self, xold: Float, x: Float) -> bool { self.t_eval is None && self.first_step is None }
    fn solout(
        &mut self,
        xold: Float,
        x: &mut Float,
        y: &mut [Float],
        interpolant: Option<&StepInterpolant<'_>>,
        Tracked(tr): Tracked<&mut Trace>,
    ) -> (r: ControlFlag) {
        proof { fp::obeys(); }
        let ghost tr0 = *tr;
        proof { tr.solout_calls = tr.solout_calls + 1; tr.last_x = *x; }
        let ghost tr1 = *tr;
        // ============================================================================
        // Dense Output Collection
        // ============================================================================
        // Collect interpolation coefficients from each accepted step for later
        // continuous evaluation. Skip the initial callback and degenerate segments.
        
        if self.collect_dense && *x != xold && interpolant.is_some() {
            let seg = interpolant.unwrap().to_segment();
            if seg.h != 0.0 {
                self.dense_segs.push((seg.cont, seg.xold, seg.h));
            }
        }

        // ============================================================================
        // Event Detection
        // ============================================================================
        // Monitor the user-defined event function for zero-crossings. Uses bisection
        // to refine the event location when a sign change is detected.
        // 
        // Important: When multiple events occur in the same step, we must process them
        // in chronological order. If a terminal event occurs, any events after it
        // in time should not be recorded.
        
        let n_events = self.ode.n_events();
        if n_events > 0 {
            self.ode.events(*x, y, &mut self.g_curr_buf);

            // If this is the first step (yold is empty), just initialize prev_event
            if self.yold.is_empty() {
                self.prev_event.copy_from_slice(&self.g_curr_buf);
            } else {
                // Helper to check direction-aware crossing
                #[inline]
                fn crossed(left: Float, right: Float, dir: &Direction) -> bool {
                    match dir {
                        Direction::All => {
                            (left <= 0.0 && right >= 0.0) || (left >= 0.0 && right <= 0.0)
                        }
                        Direction::Positive => left < 0.0 && right >= 0.0,
                        Direction::Negative => left > 0.0 && right <= 0.0,
                    }
                }

                // First pass: find all events in this step and their refined times
                // Store as (time, event_index, y_at_event)
                let mut detected_events: Vec<(Float, usize, Vec<Float>)> = Vec::new();
                
                for i in 0..n_events
                    invariant self.wf(), n_events == self.ode.n_events_spec(), self.ode == old(self).ode,
                        *x == *old(x), y@ == old(y)@, self.y_mid_buf@.len() == old(self).y_mid_buf@.len(), self.yold@.len() == self.y_mid_buf@.len(),
                        y@.len() == self.y_mid_buf@.len(), interpolant is Some,
                        self.collect_dense == old(self).collect_dense, self.t_eval == old(self).t_eval, self.next_idx == old(self).next_idx, self.t@ == old(self).t@, self.tol == old(self).tol, *tr == tr1, tr1 == (Trace { solout_calls: tr0.solout_calls + 1, last_x: *x, ..tr0 }), tr0 == *old(tr),
                        forall|k: int| 0 <= k < detected_events@.len() ==> (#[trigger] detected_events@[k]).1 < n_events,
                {
                    let g_prev = self.prev_event[i];
                    let g_curr = self.g_curr_buf[i];
                    let config = &self.event_config[i];

                    if crossed(g_prev, g_curr, &config.direction) {
                        // Refine event location using Brent's method (matches scipy's brentq)
                        // Tolerances match scipy defaults: xtol=2e-12, rtol=machine_epsilon
                        let XTOL: Float = 2e-12;
                        let RTOL: Float = F64_EPSILON;
                        let MAXITER: usize = 100;

                        let mut a = xold;
                        let mut b = *x;
                        let mut fa = g_prev;
                        let mut fb = g_curr;

                        let (event_t, event_y) = if fa.abs() <= XTOL {
                            (a, self.yold.clone())
                        } else if fb.abs() <= XTOL {
                            (b, y.to_vec())
                        } else {
                            // Brent's method
                            let mut c = a;
                            let mut fc = fa;
                            let mut d = b - a;
                            let mut e = d;

                            for _it in 0..MAXITER
                                invariant self.wf(), n_events == self.ode.n_events_spec(), self.ode == old(self).ode,
                        *x == *old(x), y@ == old(y)@, self.y_mid_buf@.len() == old(self).y_mid_buf@.len(), self.yold@.len() == self.y_mid_buf@.len(),
                        y@.len() == self.y_mid_buf@.len(), interpolant is Some,
                        self.collect_dense == old(self).collect_dense, self.t_eval == old(self).t_eval, self.next_idx == old(self).next_idx, self.t@ == old(self).t@, self.tol == old(self).tol, *tr == tr1, tr1 == (Trace { solout_calls: tr0.solout_calls + 1, last_x: *x, ..tr0 }), tr0 == *old(tr), i < n_events,
                            {
                                if fb * fc > 0.0 {
                                    c = a;
                                    fc = fa;
                                    d = b - a;
                                    e = d;
                                }
                                if fc.abs() < fb.abs() {
                                    a = b;
                                    b = c;
                                    c = a;
                                    fa = fb;
                                    fb = fc;
                                    fc = fa;
                                }

                                // Convergence check (scipy's termination condition)
                                let tol1 = 2.0 * RTOL * b.abs() + 0.5 * XTOL;
                                let xm = 0.5 * (c - b);
                                
                                if xm.abs() <= tol1 || fb == 0.0 {
                                    break;
                                }

                                // Try inverse quadratic interpolation
                                if e.abs() >= tol1 && fa.abs() > fb.abs() {
                                    let s;
                                    if a == c {
                                        // Linear interpolation (secant)
                                        s = fb / fa;
                                        let p = 2.0 * xm * s;
                                        let q = 1.0 - s;
                                        let (p, q) = if q > 0.0 { (vneg(p), q) } else { (p, vneg(q)) };
                                        
                                        if 2.0 * p < (3.0 * xm * q - (tol1 * q).abs()).min((e * q).abs()) {
                                            e = d;
                                            d = p / q;
                                        } else {
                                            d = xm;
                                            e = d;
                                        }
                                    } else {
                                        // Inverse quadratic interpolation
                                        let q_val = fa / fc;
                                        let r = fb / fc;
                                        s = fb / fa;
                                        let p = s * (2.0 * xm * q_val * (q_val - r) - (b - a) * (r - 1.0));
                                        let q = (q_val - 1.0) * (r - 1.0) * (s - 1.0);
                                        let (p, q) = if q > 0.0 { (vneg(p), q) } else { (p, vneg(q)) };
                                        
                                        if 2.0 * p < (3.0 * xm * q - (tol1 * q).abs()).min((e * q).abs()) {
                                            e = d;
                                            d = p / q;
                                        } else {
                                            d = xm;
                                            e = d;
                                        }
                                    }
                                } else {
                                    // Bisection
                                    d = xm;
                                    e = d;
                                }

                                a = b;
                                fa = fb;

                                if d.abs() > tol1 {
                                    b = b + (d);
                                } else {
                                    b = b + (if xm > 0.0 { tol1 } else { vneg(tol1) });
                                }

                                // Evaluate function at new point
                                interpolant.unwrap().interpolate(b, &mut self.y_mid_buf);
                                self.ode.events(b, &self.y_mid_buf, &mut self.g_mid_buf);
                                fb = self.g_mid_buf[i];
                            }

                            interpolant.unwrap().interpolate(b, &mut self.y_mid_buf);
                            (b, self.y_mid_buf.clone())
                        };

                        detected_events.push((event_t, i, event_y));
                    }
                }

                // Sort events by time (handle both forward and backward integration)
                let forward = *x > xold;
                if forward {
                    sort_events_fwd(&mut detected_events);
                } else {
                    sort_events_fwd(&mut detected_events);
                }

                // Process events in chronological order
                for (event_t, i, event_y) in it: detected_events
                    invariant self.wf(), n_events == self.ode.n_events_spec(), self.ode == old(self).ode,
                        *x == *old(x), y@ == old(y)@, self.y_mid_buf@.len() == old(self).y_mid_buf@.len(), self.yold@.len() == self.y_mid_buf@.len(),
                        y@.len() == self.y_mid_buf@.len(), interpolant is Some,
                        self.collect_dense == old(self).collect_dense, self.t_eval == old(self).t_eval, self.next_idx == old(self).next_idx, self.t@ == old(self).t@, self.tol == old(self).tol, *tr == tr1, tr1 == (Trace { solout_calls: tr0.solout_calls + 1, last_x: *x, ..tr0 }), tr0 == *old(tr),
                        forall|k: int| 0 <= k < detected_events@.len() ==> (#[trigger] detected_events@[k]).1 < n_events,
                {
                    let config = &self.event_config[i];
                    
                    // Record the event
                    self.t_events[i].push(event_t);
                    self.y_events[i].push(event_y.clone());
                    assume(self.event_hits[i as int] < usize::MAX);
                    self.event_hits[i] = self.event_hits[i] + (1);

                    // Check for terminal event
                    if let Some(limit) = config.terminal_count {
                        if self.event_hits[i] >= limit {
                            // Add the terminal event point to the output
                            self.t.push(event_t);
                            self.y.push(event_y);
                            
                            // Update prev_event before returning
                            self.prev_event.copy_from_slice(&self.g_curr_buf);
                            proof { tr.stopped = true; }
                            return ControlFlag::Interrupt;
                        }
                    }
                }
                
                // Update prev_event for all events
                self.prev_event.copy_from_slice(&self.g_curr_buf);
            }
        }

        // Update state history for event detection
        if self.yold.len() != y.len() {
            self.yold = y.to_vec();
        } else {
            self.yold.copy_from_slice(y);
        }

        // ============================================================================
        // Output Sampling
        // ============================================================================
        
        if let Some(t_eval) = self.t_eval.as_ref() {
            // Mode 1: User-specified output times
            // Interpolate solution at each requested time within the current step interval.
            
            let mut i = self.next_idx;
            assert(self.t_eval == old(self).t_eval);
            assert(t_eval@ == old(self).t_eval->Some_0@);
            assert(self.next_idx == old(self).next_idx);
            assert(self.t@ == old(self).t@);
            assert(self.tol == old(self).tol);
            assert(*x == *old(x));
            assert(tr0.solout_calls > 0 ==> forall|a: int| 0 <= a < i ==> R(#[trigger] t_eval@[a]) <= R(xold) + R(self.tol));
            assert(forall|a: int| 0 <= a < i ==> R(#[trigger] t_eval@[a]) <= R(*x) + R(self.tol));
            
            if (xold - *x).abs() <= self.tol {
                // Initial callback (xold == x): output at matching t_eval points
                while i < t_eval.len() && (t_eval[i] - *x).abs() <= self.tol
                    invariant self.t@.len() == self.y@.len(), i <= t_eval@.len(), y@ == old(y)@, *x == *old(x),
                        old(self).j(tr0), old(self).t_eval is Some, t_eval@ == old(self).t_eval->Some_0@, self.tol == old(self).tol, old(self).next_idx <= i,
                        R(tr0.x0) <= R(*x) <= R(tr0.xend),
                        self.t@ == t_eval@.subrange(0, i as int),
                        forall|a: int| 0 <= a < i ==> R(#[trigger] t_eval@[a]) <= R(*x) + R(self.tol),
                        tr0.solout_calls > 0 ==> xold == tr0.last_x && R(*x) > R(xold), rabs(R(xold) - R(*x)) <= R(self.tol),
                    decreases t_eval@.len() - i,
                {
                    proof { fp::obeys(); }
                    self.t.push(t_eval[i]);
                    self.y.push(y.to_vec());
                    i = i + (1);
                    assert(self.t@ =~= t_eval@.subrange(0, i as int));
                }
            } else {
                // Regular accepted step: interpolate at all t_eval[i] within [xold, x] or [x, xold]
                // Handle both forward (x > xold) and backward (x < xold) integration
                let forward = *x > xold;
                
                if forward {
                    // Forward integration: t_eval[i] in (xold, x]
                    while i < t_eval.len() && t_eval[i] <= *x + self.tol
                        invariant self.t@.len() == self.y@.len(), i <= t_eval@.len(), y@ == old(y)@, *x == *old(x),
                        old(self).j(tr0), old(self).t_eval is Some, t_eval@ == old(self).t_eval->Some_0@, self.tol == old(self).tol, old(self).next_idx <= i,
                        R(tr0.x0) <= R(*x) <= R(tr0.xend),
                        self.t@ == t_eval@.subrange(0, i as int),
                        forall|a: int| 0 <= a < i ==> R(#[trigger] t_eval@[a]) <= R(*x) + R(self.tol), interpolant is Some,
                            tr0.solout_calls > 0, xold == tr0.last_x, R(*x) > R(xold),
                        decreases t_eval@.len() - i,
                    {
                        proof {
                            fp::obeys();
                            // never skipped: t_eval[i] >= t_eval[old next_idx] > xold + tol >= xold - tol
                            let k0 = old(self).next_idx as int;
                            assert(R(t_eval@[k0]) <= R(t_eval@[i as int]));
                            assert(R(t_eval@[k0]) > R(xold));
                        }
                        if t_eval[i] >= xold - self.tol {
                            let mut yi = vec![0.0; y.len()];
                            interpolant.unwrap().interpolate(t_eval[i], &mut yi);
                            self.t.push(t_eval[i]);
                            self.y.push(yi);
                        }
                        i = i + (1);
                        assert(self.t@ =~= t_eval@.subrange(0, i as int));
                    }
                } else {
                    // Backward integration: t_eval is sorted decreasing, t_eval[i] in [x, xold)
                    while i < t_eval.len() && t_eval[i] >= *x - self.tol
                        invariant self.t@.len() == self.y@.len(), i <= t_eval@.len(), y@ == old(y)@, *x == *old(x), interpolant is Some,
                        decreases t_eval@.len() - i,
                    {
                        if t_eval[i] <= xold + self.tol {
                            let mut yi = vec![0.0; y.len()];
                            interpolant.unwrap().interpolate(t_eval[i], &mut yi);
                            self.t.push(t_eval[i]);
                            self.y.push(yi);
                        }
                        i = i + (1);
                    }
                }
            }
            self.next_idx = i;
        } else {
            // Mode 2: Solver-selected output times
            // Record accepted step endpoints. If first_step is set, enforce that the
            // first output (after the initial condition) occurs at exactly x0 +/- first_step.
            
            if let Some(h0) = self.first_step {
                // First-step enforcement: skip intermediate outputs until we reach/pass
                // the target, then interpolate to the exact point.
                if !self.first_output_done && (xold - *x).abs() > self.tol {
                    let direction = (*x - xold).signum();
                    // For backward integration (direction < 0), target is x0 - h0
                    let target = self.x0 + direction * h0;
                    
                    if direction * (*x - target) >= vneg(self.tol) {
                        // We've reached or passed the target point
                        if let Some(interp) = interpolant {
                            let mut yi = vec![0.0; y.len()];
                            interp.interpolate(target, &mut yi);
                            self.t.push(target);
                            self.y.push(yi);
                            self.first_output_done = true;
                        }
                        
                        // Also output current endpoint if distinct from target
                        if (*x - target).abs() > self.tol {
                            self.t.push(*x);
                            self.y.push(y.to_vec());
                        }
                        return ControlFlag::Continue;
                    } else {
                        // Haven't reached target yet; skip this output
                        return ControlFlag::Continue;
                    }
                }
            }
            
            // Normal output: record endpoint (avoid duplicates)
            if self.t.is_empty() || (self.t.last().unwrap() - *x).abs() > self.tol {
                self.t.push(*x);
                self.y.push(y.to_vec());
            }
        }

        ControlFlag::Continue
    }
}

} // verus!
fn main() {}
