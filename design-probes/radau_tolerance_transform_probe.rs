#![allow(unused)]
use vstd::prelude::*;
use vstd::std_specs::ops::*;
verus! {
global size_of usize == 8;
pub mod fp { use vstd::prelude::*; use vstd::std_specs::ops::*;
pub broadcast axiom fn f64_mul_req(a: f64, b: f64) ensures #[trigger] a.mul_req(b);
pub broadcast axiom fn f64_div_req(a: f64, b: f64) ensures #[trigger] a.div_req(b);
pub axiom fn obeys() ensures <f64 as MulSpec<f64>>::obeys_mul_spec(), <f64 as DivSpec<f64>>::obeys_div_spec();
pub broadcast group f64_ops { f64_mul_req, f64_div_req }
}
broadcast use fp::f64_ops;
pub type Float = f64;
pub uninterp spec fn s_powf(x: f64, y: f64) -> f64;
pub assume_specification [f64::powf] (x: f64, y: f64) -> (r: f64) ensures r == s_powf(x, y);

// ---- verbatim from methods/mod.rs (enum + Index/IndexMut bodies as inherent methods, rule R9)
pub enum Tolerance {
    Scalar(Float),
    Vector(Vec<Float>),
}
impl Tolerance {
    pub open spec fn ok(&self, n: nat) -> bool { match self { Tolerance::Scalar(_) => true, Tolerance::Vector(v) => v@.len() == n } }
    /// the tolerance the solver sees for component i
    pub open spec fn view_at(&self, i: int) -> f64 { match self { Tolerance::Scalar(v) => *v, Tolerance::Vector(vs) => vs@[i] } }

    fn index(&self, index: usize) -> (r: &Float)
        requires self is Vector ==> index < self->Vector_0@.len()
        ensures *r == self.view_at(index as int)
    {
        match self {
            Tolerance::Scalar(v) => v,
            Tolerance::Vector(vs) => &vs[index],
        }
    }
    fn index_mut(&mut self, index: usize) -> (r: &mut Float)
        requires *old(self) is Vector ==> index < (*old(self))->Vector_0@.len()
        ensures *r == old(self).view_at(index as int),
            match *old(self) {
                Tolerance::Scalar(_) => *final(self) == Tolerance::Scalar(*final(r)),
                Tolerance::Vector(vs) => *final(self) is Vector && (*final(self))->Vector_0@ == vs@.update(index as int, *final(r)),
            }
    {
        match self {
            Tolerance::Scalar(v) => v,
            Tolerance::Vector(vs) => &mut vs[index],
        }
    }
}

/// the transformation Radau applies to one (rtol, atol) pair
pub open spec fn t_r(r: f64) -> f64 { (0.1f64).mul_spec(s_powf(r, (2.0f64).div_spec(3.0f64))) }
pub open spec fn t_a(r: f64, a: f64) -> f64 { t_r(r).mul_spec(a.div_spec(r)) }

// ---- region radau.rs "Adjust tolerances" (verbatim statements; parameters supplied by the contract)
fn adjust(n: usize, rtol: Tolerance, atol: Tolerance) -> (out: (Tolerance, Tolerance))
    requires rtol.ok(n as nat), atol.ok(n as nat)
    ensures out.0.ok(n as nat), out.1.ok(n as nat),
        forall|i: int| 0 <= i < n ==> #[trigger] out.0.view_at(i) == t_r(rtol.view_at(i)),
        forall|i: int| 0 <= i < n ==> #[trigger] out.1.view_at(i) == t_a(rtol.view_at(i), atol.view_at(i)),
{
        proof { fp::obeys(); }
        let ghost r0 = rtol; let ghost a0 = atol;
        let expm = 2.0 / 3.0;
        let mut rtol = rtol;
        let mut atol = atol;
        for i in 0..n
            invariant rtol.ok(n as nat), atol.ok(n as nat), expm == (2.0f64).div_spec(3.0f64),
                <f64 as MulSpec<f64>>::obeys_mul_spec(), <f64 as DivSpec<f64>>::obeys_div_spec(),
                forall|k: int| 0 <= k < i ==> #[trigger] rtol.view_at(k) == t_r(r0.view_at(k)),
                forall|k: int| 0 <= k < i ==> #[trigger] atol.view_at(k) == t_a(r0.view_at(k), a0.view_at(k)),
                forall|k: int| i <= k < n ==> #[trigger] rtol.view_at(k) == r0.view_at(k),
                forall|k: int| i <= k < n ==> #[trigger] atol.view_at(k) == a0.view_at(k),
        {
            let ghost rt_before = rtol; let ghost at_before = atol;
            let quot = *atol.index(i) / *rtol.index(i);
            *rtol.index_mut(i) = 0.1 * (*rtol.index(i)).powf(expm);
            *atol.index_mut(i) = *rtol.index(i) * quot;
            assert(forall|k: int| 0 <= k < n && k != i ==> #[trigger] rtol.view_at(k) == rt_before.view_at(k));
            assert(forall|k: int| 0 <= k < n && k != i ==> #[trigger] atol.view_at(k) == at_before.view_at(k));
            assert(rtol.view_at(i as int) == t_r(r0.view_at(i as int)));
            assert(atol.view_at(i as int) == t_a(r0.view_at(i as int), a0.view_at(i as int)));
        }
        (rtol, atol)
}
}
fn main() {}
