use vstd::prelude::*;
use vstd::std_specs::ops::*;
verus! {
pub mod fp { use vstd::prelude::*; use vstd::std_specs::ops::*;
pub broadcast axiom fn f64_add_req(a: f64, b: f64) ensures #[trigger] a.add_req(b);
pub broadcast group f64_ops { f64_add_req }
}
broadcast use fp::f64_ops;
pub struct U { pub p: f64, pub q: f64, pub k: usize }
pub fn d1(s: U) -> f64 { s.p + s.q }
pub struct V { pub p: f64, pub q: f64 }
pub fn d2(s: V) -> f64 { s.p + s.q }
pub struct W { pub p: f64 }
pub fn d3(s: W) -> f64 { s.p + s.p }
pub struct X { pub k: usize, pub p: f64 }
pub fn d4(s: X) -> f64 { s.p + s.p }
}
fn main() {}
