#![feature(const_destruct)]
#![allow(unused)]
use vstd::prelude::*;
use vstd::std_specs::ops::*;
use vstd::std_specs::cmp::*;
use core::cmp::Ordering;
verus! {
global size_of usize == 8;
pub type Float = f64;
pub mod defs { use vstd::prelude::*;
pub uninterp spec fn R(x: f64) -> real;
pub open spec fn rabs(a: real) -> real { if a >= 0real { a } else { 0real - a } }
pub open spec fn rmin(a: real, b: real) -> real { if a <= b { a } else { b } }
pub open spec fn rmax(a: real, b: real) -> real { if a >= b { a } else { b } }
pub uninterp spec fn s_signum(x: f64) -> f64;
pub uninterp spec fn s_abs(x: f64) -> f64;
pub uninterp spec fn s_powf(x: f64, y: f64) -> f64;
pub uninterp spec fn s_sqrt(x: f64) -> f64;
pub uninterp spec fn s_min(x: f64, y: f64) -> f64;
pub uninterp spec fn s_max(x: f64, y: f64) -> f64;
pub uninterp spec fn s_neg(x: f64) -> f64;
pub uninterp spec fn s_of_usize(x: usize) -> f64;
pub uninterp spec fn C2_s() -> f64;
pub uninterp spec fn C3_s() -> f64;
pub uninterp spec fn C4_s() -> f64;
pub uninterp spec fn C5_s() -> f64;
pub uninterp spec fn A21_s() -> f64;
pub uninterp spec fn A31_s() -> f64;
pub uninterp spec fn A32_s() -> f64;
pub uninterp spec fn A41_s() -> f64;
pub uninterp spec fn A42_s() -> f64;
pub uninterp spec fn A43_s() -> f64;
pub uninterp spec fn A51_s() -> f64;
pub uninterp spec fn A52_s() -> f64;
pub uninterp spec fn A53_s() -> f64;
pub uninterp spec fn A54_s() -> f64;
pub uninterp spec fn A61_s() -> f64;
pub uninterp spec fn A62_s() -> f64;
pub uninterp spec fn A63_s() -> f64;
pub uninterp spec fn A64_s() -> f64;
pub uninterp spec fn A65_s() -> f64;
pub uninterp spec fn A71_s() -> f64;
pub uninterp spec fn A73_s() -> f64;
pub uninterp spec fn A74_s() -> f64;
pub uninterp spec fn A75_s() -> f64;
pub uninterp spec fn A76_s() -> f64;
pub uninterp spec fn E1_s() -> f64;
pub uninterp spec fn E3_s() -> f64;
pub uninterp spec fn E4_s() -> f64;
pub uninterp spec fn E5_s() -> f64;
pub uninterp spec fn E6_s() -> f64;
pub uninterp spec fn E7_s() -> f64;
pub uninterp spec fn D1_s() -> f64;
pub uninterp spec fn D3_s() -> f64;
pub uninterp spec fn D4_s() -> f64;
pub uninterp spec fn D5_s() -> f64;
pub uninterp spec fn D6_s() -> f64;
pub uninterp spec fn D7_s() -> f64;


}
use defs::*;
#[verifier::external_body] exec const C2: Float ensures C2 == C2_s() { 0.2 }
#[verifier::external_body] exec const C3: Float ensures C3 == C3_s() { 0.3 }
#[verifier::external_body] exec const C4: Float ensures C4 == C4_s() { 0.8 }
#[verifier::external_body] exec const C5: Float ensures C5 == C5_s() { 8.0 / 9.0 }
#[verifier::external_body] exec const A21: Float ensures A21 == A21_s() { 0.2 }
#[verifier::external_body] exec const A31: Float ensures A31 == A31_s() { 3.0 / 40.0 }
#[verifier::external_body] exec const A32: Float ensures A32 == A32_s() { 9.0 / 40.0 }
#[verifier::external_body] exec const A41: Float ensures A41 == A41_s() { 44.0 / 45.0 }
#[verifier::external_body] exec const A42: Float ensures A42 == A42_s() { -56.0 / 15.0 }
#[verifier::external_body] exec const A43: Float ensures A43 == A43_s() { 32.0 / 9.0 }
#[verifier::external_body] exec const A51: Float ensures A51 == A51_s() { 19372.0 / 6561.0 }
#[verifier::external_body] exec const A52: Float ensures A52 == A52_s() { -25360.0 / 2187.0 }
#[verifier::external_body] exec const A53: Float ensures A53 == A53_s() { 64448.0 / 6561.0 }
#[verifier::external_body] exec const A54: Float ensures A54 == A54_s() { -212.0 / 729.0 }
#[verifier::external_body] exec const A61: Float ensures A61 == A61_s() { 9017.0 / 3168.0 }
#[verifier::external_body] exec const A62: Float ensures A62 == A62_s() { -355.0 / 33.0 }
#[verifier::external_body] exec const A63: Float ensures A63 == A63_s() { 46732.0 / 5247.0 }
#[verifier::external_body] exec const A64: Float ensures A64 == A64_s() { 49.0 / 176.0 }
#[verifier::external_body] exec const A65: Float ensures A65 == A65_s() { -5103.0 / 18656.0 }
#[verifier::external_body] exec const A71: Float ensures A71 == A71_s() { 35.0 / 384.0 }
#[verifier::external_body] exec const A73: Float ensures A73 == A73_s() { 500.0 / 1113.0 }
#[verifier::external_body] exec const A74: Float ensures A74 == A74_s() { 125.0 / 192.0 }
#[verifier::external_body] exec const A75: Float ensures A75 == A75_s() { -2187.0 / 6784.0 }
#[verifier::external_body] exec const A76: Float ensures A76 == A76_s() { 11.0 / 84.0 }
#[verifier::external_body] exec const E1: Float ensures E1 == E1_s() { 71.0 / 57600.0 }
#[verifier::external_body] exec const E3: Float ensures E3 == E3_s() { -71.0 / 16695.0 }
#[verifier::external_body] exec const E4: Float ensures E4 == E4_s() { 71.0 / 1920.0 }
#[verifier::external_body] exec const E5: Float ensures E5 == E5_s() { -17253.0 / 339200.0 }
#[verifier::external_body] exec const E6: Float ensures E6 == E6_s() { 22.0 / 525.0 }
#[verifier::external_body] exec const E7: Float ensures E7 == E7_s() { -1.0 / 40.0 }
#[verifier::external_body] exec const D1: Float ensures D1 == D1_s() { -12715105075.0 / 11282082432.0 }
#[verifier::external_body] exec const D3: Float ensures D3 == D3_s() { 87487479700.0 / 32700410799.0 }
#[verifier::external_body] exec const D4: Float ensures D4 == D4_s() { -10690763975.0 / 1880347072.0 }
#[verifier::external_body] exec const D5: Float ensures D5 == D5_s() { 701980252875.0 / 199316789632.0 }
#[verifier::external_body] exec const D6: Float ensures D6 == D6_s() { -1453857185.0 / 822651844.0 }
#[verifier::external_body] exec const D7: Float ensures D7 == D7_s() { 69997945.0 / 29380423.0 }
pub mod fp { use vstd::prelude::*; use vstd::std_specs::ops::*; use vstd::std_specs::cmp::*; use core::cmp::Ordering; use super::defs::*;
pub broadcast axiom fn f64_add_req(a: f64, b: f64) ensures #[trigger] a.add_req(b);
pub broadcast axiom fn f64_sub_req(a: f64, b: f64) ensures #[trigger] a.sub_req(b);
pub broadcast axiom fn f64_mul_req(a: f64, b: f64) ensures #[trigger] a.mul_req(b);
pub broadcast axiom fn f64_div_req(a: f64, b: f64) ensures #[trigger] a.div_req(b);
pub axiom fn obeys() ensures <f64 as AddSpec<f64>>::obeys_add_spec(), <f64 as SubSpec<f64>>::obeys_sub_spec(), <f64 as MulSpec<f64>>::obeys_mul_spec(), <f64 as DivSpec<f64>>::obeys_div_spec(),
    <f64 as PartialOrdSpec<f64>>::obeys_partial_cmp_spec(), <f64 as PartialEqSpec<f64>>::obeys_eq_spec();
pub broadcast axiom fn r_add(a: f64, b: f64) ensures R(#[trigger] a.add_spec(b)) == R(a) + R(b);
pub broadcast axiom fn r_sub(a: f64, b: f64) ensures R(#[trigger] a.sub_spec(b)) == R(a) - R(b);
pub broadcast axiom fn r_mul(a: f64, b: f64) ensures R(#[trigger] a.mul_spec(b)) == R(a) * R(b);
pub broadcast axiom fn r_mul_unit_r(a: f64, b: f64) ensures R(b) == 1real ==> R(#[trigger] a.mul_spec(b)) == R(a), R(b) == 0real - 1real ==> R(a.mul_spec(b)) == 0real - R(a);
pub broadcast axiom fn r_mul_unit_l(a: f64, b: f64) ensures R(a) == 1real ==> R(#[trigger] a.mul_spec(b)) == R(b), R(a) == 0real - 1real ==> R(a.mul_spec(b)) == 0real - R(b);
pub broadcast axiom fn r_mul_sign(a: f64, b: f64) ensures R(a) >= 0real && R(b) >= 0real ==> R(#[trigger] a.mul_spec(b)) >= 0real;
pub broadcast axiom fn r_div_pos(a: f64, b: f64) ensures
    R(b) > 0real ==> (R(#[trigger] a.div_spec(b)) > 0real <==> R(a) > 0real) && (R(a.div_spec(b)) < 0real <==> R(a) < 0real),
    R(b) >= 1real ==> rabs(R(a.div_spec(b))) <= rabs(R(a));
pub broadcast axiom fn r_cmp(a: f64, b: f64) ensures #[trigger] a.partial_cmp_spec(&b) == (if R(a) < R(b) { Some(Ordering::Less) } else if R(a) == R(b) { Some(Ordering::Equal) } else { Some(Ordering::Greater) });
pub broadcast axiom fn r_eq(a: f64, b: f64) ensures #[trigger] a.eq_spec(&b) == (R(a) == R(b));
pub broadcast axiom fn r_signum(a: f64) ensures R(a) > 0real ==> R(#[trigger] s_signum(a)) == 1real, R(a) < 0real ==> R(s_signum(a)) == 0real - 1real, R(s_signum(a)) == 1real || R(s_signum(a)) == 0real - 1real;
pub broadcast axiom fn r_abs(a: f64) ensures R(#[trigger] s_abs(a)) == rabs(R(a));
pub broadcast axiom fn r_min(a: f64, b: f64) ensures R(#[trigger] s_min(a, b)) == rmin(R(a), R(b));
pub broadcast axiom fn r_max(a: f64, b: f64) ensures R(#[trigger] s_max(a, b)) == rmax(R(a), R(b));
pub broadcast axiom fn r_neg(a: f64) ensures R(#[trigger] s_neg(a)) == 0real - R(a);
pub broadcast axiom fn r_powf(a: f64, p: f64) ensures R(a) > 0real ==> R(#[trigger] s_powf(a, p)) > 0real, R(a) >= 1real && R(p) >= 0real ==> R(s_powf(a, p)) >= 1real;
pub broadcast axiom fn r_sqrt(a: f64) ensures R(#[trigger] s_sqrt(a)) >= 0real;
pub broadcast axiom fn ax_C2() ensures R(#[trigger] C2_s()) == (1real / 5real);
pub broadcast axiom fn ax_C3() ensures R(#[trigger] C3_s()) == (3real / 10real);
pub broadcast axiom fn ax_C4() ensures R(#[trigger] C4_s()) == (4real / 5real);
pub broadcast axiom fn ax_C5() ensures R(#[trigger] C5_s()) == (8real / 9real);
pub broadcast axiom fn ax_A21() ensures R(#[trigger] A21_s()) == (1real / 5real);
pub broadcast axiom fn ax_A31() ensures R(#[trigger] A31_s()) == (3real / 40real);
pub broadcast axiom fn ax_A32() ensures R(#[trigger] A32_s()) == (9real / 40real);
pub broadcast axiom fn ax_A41() ensures R(#[trigger] A41_s()) == (44real / 45real);
pub broadcast axiom fn ax_A42() ensures R(#[trigger] A42_s()) == (0real - 56real / 15real);
pub broadcast axiom fn ax_A43() ensures R(#[trigger] A43_s()) == (32real / 9real);
pub broadcast axiom fn ax_A51() ensures R(#[trigger] A51_s()) == (19372real / 6561real);
pub broadcast axiom fn ax_A52() ensures R(#[trigger] A52_s()) == (0real - 25360real / 2187real);
pub broadcast axiom fn ax_A53() ensures R(#[trigger] A53_s()) == (64448real / 6561real);
pub broadcast axiom fn ax_A54() ensures R(#[trigger] A54_s()) == (0real - 212real / 729real);
pub broadcast axiom fn ax_A61() ensures R(#[trigger] A61_s()) == (9017real / 3168real);
pub broadcast axiom fn ax_A62() ensures R(#[trigger] A62_s()) == (0real - 355real / 33real);
pub broadcast axiom fn ax_A63() ensures R(#[trigger] A63_s()) == (46732real / 5247real);
pub broadcast axiom fn ax_A64() ensures R(#[trigger] A64_s()) == (49real / 176real);
pub broadcast axiom fn ax_A65() ensures R(#[trigger] A65_s()) == (0real - 5103real / 18656real);
pub broadcast axiom fn ax_A71() ensures R(#[trigger] A71_s()) == (35real / 384real);
pub broadcast axiom fn ax_A73() ensures R(#[trigger] A73_s()) == (500real / 1113real);
pub broadcast axiom fn ax_A74() ensures R(#[trigger] A74_s()) == (125real / 192real);
pub broadcast axiom fn ax_A75() ensures R(#[trigger] A75_s()) == (0real - 2187real / 6784real);
pub broadcast axiom fn ax_A76() ensures R(#[trigger] A76_s()) == (11real / 84real);
pub broadcast axiom fn ax_E1() ensures R(#[trigger] E1_s()) == (71real / 57600real);
pub broadcast axiom fn ax_E3() ensures R(#[trigger] E3_s()) == (0real - 71real / 16695real);
pub broadcast axiom fn ax_E4() ensures R(#[trigger] E4_s()) == (71real / 1920real);
pub broadcast axiom fn ax_E5() ensures R(#[trigger] E5_s()) == (0real - 17253real / 339200real);
pub broadcast axiom fn ax_E6() ensures R(#[trigger] E6_s()) == (22real / 525real);
pub broadcast axiom fn ax_E7() ensures R(#[trigger] E7_s()) == (0real - 1real / 40real);
pub broadcast axiom fn ax_D1() ensures R(#[trigger] D1_s()) == (0real - 12715105075real / 11282082432real);
pub broadcast axiom fn ax_D3() ensures R(#[trigger] D3_s()) == (87487479700real / 32700410799real);
pub broadcast axiom fn ax_D4() ensures R(#[trigger] D4_s()) == (0real - 10690763975real / 1880347072real);
pub broadcast axiom fn ax_D5() ensures R(#[trigger] D5_s()) == (701980252875real / 199316789632real);
pub broadcast axiom fn ax_D6() ensures R(#[trigger] D6_s()) == (0real - 1453857185real / 822651844real);
pub broadcast axiom fn ax_D7() ensures R(#[trigger] D7_s()) == (69997945real / 29380423real);

pub broadcast axiom fn r_div_one(a: f64, b: f64) ensures R(a) == 1real && 0real < R(b) <= 1real ==> R(#[trigger] a.div_spec(b)) >= 1real, R(a) >= 1real && 0real < R(b) <= 99real / 100real ==> R(a.div_spec(b)) >= 101real / 100real;
pub broadcast axiom fn lit_l_0(b: f64) ensures R(#[trigger] 0.0f64.mul_spec(b)) == (0real / 1real) * R(b);
pub broadcast axiom fn lit_r_0(b: f64) ensures R(#[trigger] b.mul_spec(0.0f64)) == R(b) * (0real / 1real);
pub broadcast axiom fn lit_l_1(b: f64) ensures R(#[trigger] 0.1f64.mul_spec(b)) == (1real / 10real) * R(b);
pub broadcast axiom fn lit_r_1(b: f64) ensures R(#[trigger] b.mul_spec(0.1f64)) == R(b) * (1real / 10real);
pub broadcast axiom fn lit_l_2(b: f64) ensures R(#[trigger] 0.2f64.mul_spec(b)) == (1real / 5real) * R(b);
pub broadcast axiom fn lit_r_2(b: f64) ensures R(#[trigger] b.mul_spec(0.2f64)) == R(b) * (1real / 5real);
pub broadcast axiom fn lit_l_3(b: f64) ensures R(#[trigger] 0.75f64.mul_spec(b)) == (3real / 4real) * R(b);
pub broadcast axiom fn lit_r_3(b: f64) ensures R(#[trigger] b.mul_spec(0.75f64)) == R(b) * (3real / 4real);
pub broadcast axiom fn lit_l_4(b: f64) ensures R(#[trigger] 1.0f64.mul_spec(b)) == (1real / 1real) * R(b);
pub broadcast axiom fn lit_r_4(b: f64) ensures R(#[trigger] b.mul_spec(1.0f64)) == R(b) * (1real / 1real);
pub broadcast axiom fn lit_l_5(b: f64) ensures R(#[trigger] 1.01f64.mul_spec(b)) == (101real / 100real) * R(b);
pub broadcast axiom fn lit_r_5(b: f64) ensures R(#[trigger] b.mul_spec(1.01f64)) == R(b) * (101real / 100real);
pub broadcast axiom fn lit_l_6(b: f64) ensures R(#[trigger] 1.0e-4f64.mul_spec(b)) == (1real / 10000real) * R(b);
pub broadcast axiom fn lit_r_6(b: f64) ensures R(#[trigger] b.mul_spec(1.0e-4f64)) == R(b) * (1real / 10000real);
pub broadcast axiom fn lit_l_7(b: f64) ensures R(#[trigger] 1e-35f64.mul_spec(b)) == (1real / 100000000000000000000000000000000000real) * R(b);
pub broadcast axiom fn lit_r_7(b: f64) ensures R(#[trigger] b.mul_spec(1e-35f64)) == R(b) * (1real / 100000000000000000000000000000000000real);
pub broadcast axiom fn lit_l_8(b: f64) ensures R(#[trigger] 1e-4f64.mul_spec(b)) == (1real / 10000real) * R(b);
pub broadcast axiom fn lit_r_8(b: f64) ensures R(#[trigger] b.mul_spec(1e-4f64)) == R(b) * (1real / 10000real);
pub broadcast axiom fn lit_l_9(b: f64) ensures R(#[trigger] 3.25f64.mul_spec(b)) == (13real / 4real) * R(b);
pub broadcast axiom fn lit_r_9(b: f64) ensures R(#[trigger] b.mul_spec(3.25f64)) == R(b) * (13real / 4real);
pub broadcast axiom fn cl_C2(b: f64) ensures R(#[trigger] C2_s().mul_spec(b)) == (1real / 5real) * R(b);
pub broadcast axiom fn cr_C2(b: f64) ensures R(#[trigger] b.mul_spec(C2_s())) == R(b) * (1real / 5real);
pub broadcast axiom fn cl_C3(b: f64) ensures R(#[trigger] C3_s().mul_spec(b)) == (3real / 10real) * R(b);
pub broadcast axiom fn cr_C3(b: f64) ensures R(#[trigger] b.mul_spec(C3_s())) == R(b) * (3real / 10real);
pub broadcast axiom fn cl_C4(b: f64) ensures R(#[trigger] C4_s().mul_spec(b)) == (4real / 5real) * R(b);
pub broadcast axiom fn cr_C4(b: f64) ensures R(#[trigger] b.mul_spec(C4_s())) == R(b) * (4real / 5real);
pub broadcast axiom fn cl_C5(b: f64) ensures R(#[trigger] C5_s().mul_spec(b)) == (8real / 9real) * R(b);
pub broadcast axiom fn cr_C5(b: f64) ensures R(#[trigger] b.mul_spec(C5_s())) == R(b) * (8real / 9real);
pub broadcast axiom fn cl_A21(b: f64) ensures R(#[trigger] A21_s().mul_spec(b)) == (1real / 5real) * R(b);
pub broadcast axiom fn cr_A21(b: f64) ensures R(#[trigger] b.mul_spec(A21_s())) == R(b) * (1real / 5real);
pub broadcast axiom fn cl_A31(b: f64) ensures R(#[trigger] A31_s().mul_spec(b)) == (3real / 40real) * R(b);
pub broadcast axiom fn cr_A31(b: f64) ensures R(#[trigger] b.mul_spec(A31_s())) == R(b) * (3real / 40real);
pub broadcast axiom fn cl_A32(b: f64) ensures R(#[trigger] A32_s().mul_spec(b)) == (9real / 40real) * R(b);
pub broadcast axiom fn cr_A32(b: f64) ensures R(#[trigger] b.mul_spec(A32_s())) == R(b) * (9real / 40real);
pub broadcast axiom fn cl_A41(b: f64) ensures R(#[trigger] A41_s().mul_spec(b)) == (44real / 45real) * R(b);
pub broadcast axiom fn cr_A41(b: f64) ensures R(#[trigger] b.mul_spec(A41_s())) == R(b) * (44real / 45real);
pub broadcast axiom fn cl_A42(b: f64) ensures R(#[trigger] A42_s().mul_spec(b)) == (0real - 56real / 15real) * R(b);
pub broadcast axiom fn cr_A42(b: f64) ensures R(#[trigger] b.mul_spec(A42_s())) == R(b) * (0real - 56real / 15real);
pub broadcast axiom fn cl_A43(b: f64) ensures R(#[trigger] A43_s().mul_spec(b)) == (32real / 9real) * R(b);
pub broadcast axiom fn cr_A43(b: f64) ensures R(#[trigger] b.mul_spec(A43_s())) == R(b) * (32real / 9real);
pub broadcast axiom fn cl_A51(b: f64) ensures R(#[trigger] A51_s().mul_spec(b)) == (19372real / 6561real) * R(b);
pub broadcast axiom fn cr_A51(b: f64) ensures R(#[trigger] b.mul_spec(A51_s())) == R(b) * (19372real / 6561real);
pub broadcast axiom fn cl_A52(b: f64) ensures R(#[trigger] A52_s().mul_spec(b)) == (0real - 25360real / 2187real) * R(b);
pub broadcast axiom fn cr_A52(b: f64) ensures R(#[trigger] b.mul_spec(A52_s())) == R(b) * (0real - 25360real / 2187real);
pub broadcast axiom fn cl_A53(b: f64) ensures R(#[trigger] A53_s().mul_spec(b)) == (64448real / 6561real) * R(b);
pub broadcast axiom fn cr_A53(b: f64) ensures R(#[trigger] b.mul_spec(A53_s())) == R(b) * (64448real / 6561real);
pub broadcast axiom fn cl_A54(b: f64) ensures R(#[trigger] A54_s().mul_spec(b)) == (0real - 212real / 729real) * R(b);
pub broadcast axiom fn cr_A54(b: f64) ensures R(#[trigger] b.mul_spec(A54_s())) == R(b) * (0real - 212real / 729real);
pub broadcast axiom fn cl_A61(b: f64) ensures R(#[trigger] A61_s().mul_spec(b)) == (9017real / 3168real) * R(b);
pub broadcast axiom fn cr_A61(b: f64) ensures R(#[trigger] b.mul_spec(A61_s())) == R(b) * (9017real / 3168real);
pub broadcast axiom fn cl_A62(b: f64) ensures R(#[trigger] A62_s().mul_spec(b)) == (0real - 355real / 33real) * R(b);
pub broadcast axiom fn cr_A62(b: f64) ensures R(#[trigger] b.mul_spec(A62_s())) == R(b) * (0real - 355real / 33real);
pub broadcast axiom fn cl_A63(b: f64) ensures R(#[trigger] A63_s().mul_spec(b)) == (46732real / 5247real) * R(b);
pub broadcast axiom fn cr_A63(b: f64) ensures R(#[trigger] b.mul_spec(A63_s())) == R(b) * (46732real / 5247real);
pub broadcast axiom fn cl_A64(b: f64) ensures R(#[trigger] A64_s().mul_spec(b)) == (49real / 176real) * R(b);
pub broadcast axiom fn cr_A64(b: f64) ensures R(#[trigger] b.mul_spec(A64_s())) == R(b) * (49real / 176real);
pub broadcast axiom fn cl_A65(b: f64) ensures R(#[trigger] A65_s().mul_spec(b)) == (0real - 5103real / 18656real) * R(b);
pub broadcast axiom fn cr_A65(b: f64) ensures R(#[trigger] b.mul_spec(A65_s())) == R(b) * (0real - 5103real / 18656real);
pub broadcast axiom fn cl_A71(b: f64) ensures R(#[trigger] A71_s().mul_spec(b)) == (35real / 384real) * R(b);
pub broadcast axiom fn cr_A71(b: f64) ensures R(#[trigger] b.mul_spec(A71_s())) == R(b) * (35real / 384real);
pub broadcast axiom fn cl_A73(b: f64) ensures R(#[trigger] A73_s().mul_spec(b)) == (500real / 1113real) * R(b);
pub broadcast axiom fn cr_A73(b: f64) ensures R(#[trigger] b.mul_spec(A73_s())) == R(b) * (500real / 1113real);
pub broadcast axiom fn cl_A74(b: f64) ensures R(#[trigger] A74_s().mul_spec(b)) == (125real / 192real) * R(b);
pub broadcast axiom fn cr_A74(b: f64) ensures R(#[trigger] b.mul_spec(A74_s())) == R(b) * (125real / 192real);
pub broadcast axiom fn cl_A75(b: f64) ensures R(#[trigger] A75_s().mul_spec(b)) == (0real - 2187real / 6784real) * R(b);
pub broadcast axiom fn cr_A75(b: f64) ensures R(#[trigger] b.mul_spec(A75_s())) == R(b) * (0real - 2187real / 6784real);
pub broadcast axiom fn cl_A76(b: f64) ensures R(#[trigger] A76_s().mul_spec(b)) == (11real / 84real) * R(b);
pub broadcast axiom fn cr_A76(b: f64) ensures R(#[trigger] b.mul_spec(A76_s())) == R(b) * (11real / 84real);
pub broadcast axiom fn cl_E1(b: f64) ensures R(#[trigger] E1_s().mul_spec(b)) == (71real / 57600real) * R(b);
pub broadcast axiom fn cr_E1(b: f64) ensures R(#[trigger] b.mul_spec(E1_s())) == R(b) * (71real / 57600real);
pub broadcast axiom fn cl_E3(b: f64) ensures R(#[trigger] E3_s().mul_spec(b)) == (0real - 71real / 16695real) * R(b);
pub broadcast axiom fn cr_E3(b: f64) ensures R(#[trigger] b.mul_spec(E3_s())) == R(b) * (0real - 71real / 16695real);
pub broadcast axiom fn cl_E4(b: f64) ensures R(#[trigger] E4_s().mul_spec(b)) == (71real / 1920real) * R(b);
pub broadcast axiom fn cr_E4(b: f64) ensures R(#[trigger] b.mul_spec(E4_s())) == R(b) * (71real / 1920real);
pub broadcast axiom fn cl_E5(b: f64) ensures R(#[trigger] E5_s().mul_spec(b)) == (0real - 17253real / 339200real) * R(b);
pub broadcast axiom fn cr_E5(b: f64) ensures R(#[trigger] b.mul_spec(E5_s())) == R(b) * (0real - 17253real / 339200real);
pub broadcast axiom fn cl_E6(b: f64) ensures R(#[trigger] E6_s().mul_spec(b)) == (22real / 525real) * R(b);
pub broadcast axiom fn cr_E6(b: f64) ensures R(#[trigger] b.mul_spec(E6_s())) == R(b) * (22real / 525real);
pub broadcast axiom fn cl_E7(b: f64) ensures R(#[trigger] E7_s().mul_spec(b)) == (0real - 1real / 40real) * R(b);
pub broadcast axiom fn cr_E7(b: f64) ensures R(#[trigger] b.mul_spec(E7_s())) == R(b) * (0real - 1real / 40real);
pub broadcast axiom fn cl_D1(b: f64) ensures R(#[trigger] D1_s().mul_spec(b)) == (0real - 12715105075real / 11282082432real) * R(b);
pub broadcast axiom fn cr_D1(b: f64) ensures R(#[trigger] b.mul_spec(D1_s())) == R(b) * (0real - 12715105075real / 11282082432real);
pub broadcast axiom fn cl_D3(b: f64) ensures R(#[trigger] D3_s().mul_spec(b)) == (87487479700real / 32700410799real) * R(b);
pub broadcast axiom fn cr_D3(b: f64) ensures R(#[trigger] b.mul_spec(D3_s())) == R(b) * (87487479700real / 32700410799real);
pub broadcast axiom fn cl_D4(b: f64) ensures R(#[trigger] D4_s().mul_spec(b)) == (0real - 10690763975real / 1880347072real) * R(b);
pub broadcast axiom fn cr_D4(b: f64) ensures R(#[trigger] b.mul_spec(D4_s())) == R(b) * (0real - 10690763975real / 1880347072real);
pub broadcast axiom fn cl_D5(b: f64) ensures R(#[trigger] D5_s().mul_spec(b)) == (701980252875real / 199316789632real) * R(b);
pub broadcast axiom fn cr_D5(b: f64) ensures R(#[trigger] b.mul_spec(D5_s())) == R(b) * (701980252875real / 199316789632real);
pub broadcast axiom fn cl_D6(b: f64) ensures R(#[trigger] D6_s().mul_spec(b)) == (0real - 1453857185real / 822651844real) * R(b);
pub broadcast axiom fn cr_D6(b: f64) ensures R(#[trigger] b.mul_spec(D6_s())) == R(b) * (0real - 1453857185real / 822651844real);
pub broadcast axiom fn cl_D7(b: f64) ensures R(#[trigger] D7_s().mul_spec(b)) == (69997945real / 29380423real) * R(b);
pub broadcast axiom fn cr_D7(b: f64) ensures R(#[trigger] b.mul_spec(D7_s())) == R(b) * (69997945real / 29380423real);
pub broadcast axiom fn r_div_101(a: f64, b: f64) ensures R(b) >= 101real / 100real ==> rabs(R(#[trigger] a.div_spec(b))) * (101real / 100real) <= rabs(R(a));
pub broadcast group f64_ops { r_div_101, lit_l_0, lit_r_0, lit_l_1, lit_r_1, lit_l_2, lit_r_2, lit_l_3, lit_r_3, lit_l_4, lit_r_4, lit_l_5, lit_r_5, lit_l_6, lit_r_6, lit_l_7, lit_r_7, lit_l_8, lit_r_8, lit_l_9, lit_r_9, cl_C2, cr_C2, cl_C3, cr_C3, cl_C4, cr_C4, cl_C5, cr_C5, cl_A21, cr_A21, cl_A31, cr_A31, cl_A32, cr_A32, cl_A41, cr_A41, cl_A42, cr_A42, cl_A43, cr_A43, cl_A51, cr_A51, cl_A52, cr_A52, cl_A53, cr_A53, cl_A54, cr_A54, cl_A61, cr_A61, cl_A62, cr_A62, cl_A63, cr_A63, cl_A64, cr_A64, cl_A65, cr_A65, cl_A71, cr_A71, cl_A73, cr_A73, cl_A74, cr_A74, cl_A75, cr_A75, cl_A76, cr_A76, cl_E1, cr_E1, cl_E3, cr_E3, cl_E4, cr_E4, cl_E5, cr_E5, cl_E6, cr_E6, cl_E7, cr_E7, cl_D1, cr_D1, cl_D3, cr_D3, cl_D4, cr_D4, cl_D5, cr_D5, cl_D6, cr_D6, cl_D7, cr_D7, r_div_one, f64_add_req, f64_sub_req, f64_mul_req, f64_div_req, r_add, r_sub, r_mul, r_mul_unit_r, r_mul_unit_l, r_mul_sign, r_div_pos, r_cmp, r_eq, r_signum, r_abs, r_min, r_max, r_neg, r_powf, r_sqrt, ax_C2, ax_C3, ax_C4, ax_C5, ax_A21, ax_A31, ax_A32, ax_A41, ax_A42, ax_A43, ax_A51, ax_A52, ax_A53, ax_A54, ax_A61, ax_A62, ax_A63, ax_A64, ax_A65, ax_A71, ax_A73, ax_A74, ax_A75, ax_A76, ax_E1, ax_E3, ax_E4, ax_E5, ax_E6, ax_E7, ax_D1, ax_D3, ax_D4, ax_D5, ax_D6, ax_D7 }
}
broadcast use fp::f64_ops;
pub assume_specification [f64::signum] (x: f64) -> (r: f64) ensures r == s_signum(x);
pub assume_specification [f64::abs] (x: f64) -> (r: f64) ensures r == s_abs(x);
pub assume_specification [f64::powf] (x: f64, y: f64) -> (r: f64) ensures r == s_powf(x, y);
pub assume_specification [f64::sqrt] (x: f64) -> (r: f64) ensures r == s_sqrt(x);
pub assume_specification [f64::min] (x: f64, y: f64) -> (r: f64) ensures r == s_min(x, y);
pub assume_specification [f64::max] (x: f64, y: f64) -> (r: f64) ensures r == s_max(x, y);
#[verifier::external_body] pub fn vneg(x: f64) -> (r: f64) ensures r == s_neg(x) { -x }
#[verifier::external_body] pub fn to_f(x: usize) -> (r: f64) ensures r == s_of_usize(x) { x as f64 }
pub assume_specification<T: Clone> [<[T]>::to_vec] (s: &[T]) -> (r: Vec<T>) ensures r@ == s@;
#[verifier::allow(undeclared_external_trait)]
pub assume_specification<T, U, F: FnOnce(T) -> U> [Option::<T>::map_or] (o: Option<T>, d: U, f: F) -> (r: U)
    where U: core::marker::Destruct, F: core::marker::Destruct
    requires o is Some ==> f.requires((o->Some_0,))
    ensures o is None ==> r == d, o is Some ==> f.ensures((o->Some_0,), r);

pub enum Status { Success, UserInterrupt, NeedLargerNMax, StepSizeTooSmall, ProbablyStiff, SingularMatrix, PoorConvergence }
pub struct Evals { pub ode: usize, pub jac: usize, pub lu: usize }
impl Evals { pub fn new() -> (r: Self) ensures r.ode == 0, r.jac == 0, r.lu == 0 { Self { ode: 0, jac: 0, lu: 0 } } }
pub struct Steps { pub total: usize, pub accepted: usize, pub rejected: usize }
impl Steps { pub fn new() -> (r: Self) ensures r.total == 0, r.accepted == 0, r.rejected == 0 { Self { total: 0, accepted: 0, rejected: 0 } } }
pub struct IntegrationResult { pub h: Float, pub status: Status, pub evals: Evals, pub steps: Steps }
impl IntegrationResult { pub fn new(h: Float, status: Status, evals: Evals, steps: Steps) -> (r: Self) ensures r.h == h, r.status == status, r.evals == evals, r.steps == steps { Self { h, status, evals, steps } } }
pub enum ControlFlag { Continue, Interrupt, XOut(Float), ModifiedSolution }
#[allow(inconsistent_fields)]
pub enum ConfigError { MustBePositive { parameter: &'static str, value: usize }, InvalidStepSize { value: Float, expected_sign: Float },
  OutOfRange { parameter: &'static str, value: Float, min: Float, max: Float } }
pub enum Error { Config(ConfigError) }
pub struct StepInterpolant<'a> { pub cont: &'a [Float], pub xold: Float, pub h: Float }
impl<'a> StepInterpolant<'a> {
    pub fn new(cont: &'a [Float], xold: Float, h: Float) -> (r: Self) ensures r.cont@ == cont@, r.xold == xold, r.h == h { Self { cont, xold, h } }
}
pub tracked struct Trace { pub ghost x0: f64, pub ghost xend: f64, pub ghost solout_calls: int, pub ghost last_x: f64, pub ghost stopped: bool }
/// t lies in the closed span between x0 and xend (exact arithmetic)
pub open spec fn in_span(x0: f64, xend: f64, t: f64) -> bool {
    (R(x0) <= R(t) <= R(xend)) || (R(xend) <= R(t) <= R(x0))
}
pub open spec fn toward(x0: f64, xend: f64, a: f64, b: f64) -> bool {  // b is strictly further toward xend than a
    if R(xend) > R(x0) { R(b) > R(a) } else { R(b) < R(a) }
}
pub trait IVP {
    spec fn rhs(&self, x: Float, y: Seq<Float>) -> Seq<Float>;
    fn ode(&self, x: Float, y: &[Float], dydx: &mut [Float], Tracked(tr): Tracked<&mut Trace>)
        requires y@.len() == old(dydx)@.len(), in_span(old(tr).x0, old(tr).xend, x)
        ensures final(dydx)@.len() == old(dydx)@.len(), *final(tr) == *old(tr), final(dydx)@ == self.rhs(x, y@);
}
pub trait SolOut {
    fn solout(&mut self, xold: Float, x: &mut Float, y: &mut [Float], interpolant: Option<&StepInterpolant<'_>>, Tracked(tr): Tracked<&mut Trace>) -> (r: ControlFlag)
        requires !old(tr).stopped,
            in_span(old(tr).x0, old(tr).xend, *old(x)),
            old(tr).solout_calls == 0 ==> xold == *old(x) && R(xold) == R(old(tr).x0),
            old(tr).solout_calls > 0 ==> xold == old(tr).last_x && toward(old(tr).x0, old(tr).xend, xold, *old(x)),
        ensures final(y)@.len() == old(y)@.len(),
            final(tr).x0 == old(tr).x0, final(tr).xend == old(tr).xend,
            final(tr).solout_calls == old(tr).solout_calls + 1, final(tr).last_x == *final(x), final(tr).stopped == (r is Interrupt),
            !(r is ModifiedSolution) ==> final(y)@ == old(y)@,
            *final(x) == *old(x);   // (World-R probe: callbacks do not move x)
}
pub enum Tolerance { Scalar(Float), Vector(Vec<Float>) }
impl Tolerance {
  pub open spec fn ok(&self, n: nat) -> bool { match self { Tolerance::Scalar(_) => true, Tolerance::Vector(v) => v@.len() == n } }
  #[verifier::external_body] pub fn index(&self, i: usize) -> (r: &Float) requires self is Vector ==> i < self->Vector_0@.len() { unimplemented!() }
}
#[verifier::external_body]
pub fn hinit<F: IVP>(f: &F, x: Float, y: &[Float], posneg: Float, f0: &[Float], f1: &mut [Float], y1: &mut [Float], iord: usize, hmax: Float, atol: &Tolerance, rtol: &Tolerance, Tracked(tr): Tracked<&mut Trace>) -> (r: Float)
    requires y@.len() == f0@.len(), old(f1)@.len() == y@.len(), old(y1)@.len() == y@.len(), atol.ok(y@.len() as nat), rtol.ok(y@.len() as nat),
        R(posneg) == 1real || R(posneg) == 0real - 1real,
    ensures final(f1)@.len() == old(f1)@.len(), final(y1)@.len() == old(y1)@.len(), *final(tr) == *old(tr),
        rabs(R(r)) <= rabs(R(hmax)), R(posneg) == 1real ==> R(r) >= 0real, R(posneg) == 0real - 1real ==> R(r) <= 0real,
{ unimplemented!() }
pub struct DOPRI5 { pub uround: Float, pub safety_factor: Float, pub scale_min: Float, pub scale_max: Float, pub beta: Float, pub max_step: Option<Float>, pub first_step: Option<Float>, pub max_steps: usize, pub stiff_test: usize, pub dense_output: bool }

pub axiom fn lits() ensures R(0.0f64) == (0real / 1real), R(0.1f64) == (1real / 10real), R(0.2f64) == (1real / 5real), R(0.75f64) == (3real / 4real), R(1.0f64) == (1real / 1real), R(1.01f64) == (101real / 100real), R(1.0e-4f64) == (1real / 10000real), R(1e-35f64) == (1real / 100000000000000000000000000000000000real), R(1e-4f64) == (1real / 10000real), R(3.25f64) == (13real / 4real);

pub open spec fn dir_ok(x0: f64, xend: f64, posneg: f64) -> bool {
    (R(xend) > R(x0) && R(posneg) == 1real) || (R(xend) < R(x0) && R(posneg) == 0real - 1real)
}
pub open spec fn h_dir(posneg: f64, h: f64) -> bool { (R(posneg) == 1real ==> R(h) >= 0real) && (R(posneg) == 0real - 1real ==> R(h) <= 0real) }

impl DOPRI5 {
    /// Dormand–Prince DOPRI5 — explicit embedded Runge–Kutta 5(4) solver with
    /// adaptive step-size control and optional dense output.
    ///
    /// This function integrates the autonomous system `y' = f(x, y)` from `x0` to
    /// `xend`. It performs classical error control (embedded estimates) and,
    /// optionally, computes dense-output coefficients for continuous interpolation
    /// inside each step.
    ///
    /// # Arguments
    ///
    /// ## Defining the Problem
    /// - `f`: Right‑hand side implementing `IVP`.
    /// - `x0`: Initial independent variable value.
    /// - `xend`: Final independent variable value.
    /// - `y0`: Slice containing the initial state.
    /// - `rtol`, `atol`: Relative and absolute tolerances (see [`Tolerance`]).
    ///
    /// ## Output Control
    /// - `solout`: Optional mutable reference to a `SolOut` callback used for
    ///   intermediate output and event handling. If `dense_output` is `true` the
    ///   callback may receive a dense interpolant.
    /// - `dense_output`: If `true`, dense‑output coefficients are computed every
    ///   accepted step to enable fast interpolation via the provided interpolant.
    ///
    /// Solver settings (`uround`, `safety_factor`, `scale_min`, `scale_max`, `beta`, 
    /// `max_step`, `first_step`, `max_steps`, `stiff_test`) are configured via the 
    /// `DOPRI5` struct fields.
    ///
    /// # Returns
    /// A `Result` with `IntegrationResult` on success or an `Error` if validation fails.
    pub fn solve<F, S>(
        &self,
        f: &F,
        x0: Float,
        y0: &[Float],
        xend: Float,
        rtol: Tolerance,
        atol: Tolerance,
        mut solout: Option<&mut S>,
        Tracked(tr): Tracked<&mut Trace>,
    ) -> (r: Result<IntegrationResult, Error>)
    where
        F: IVP,
        S: SolOut,
    requires
        5 * y0@.len() <= usize::MAX, self.max_steps < 0x7fff_0000,
        atol.ok(y0@.len() as nat), rtol.ok(y0@.len() as nat),
        R(xend) != R(x0),
        0real < R(self.scale_min) <= 99real / 100real, R(self.scale_max) > 0real, R(self.safety_factor) <= 99real / 100real,
        self.first_step is Some ==> self.max_step is Some ==> rabs(R(self.first_step->Some_0)) <= rabs(R(self.max_step->Some_0)),
        self.first_step is Some ==> self.max_step is None ==> rabs(R(self.first_step->Some_0)) <= rabs(R(xend) - R(x0)),
        old(tr).solout_calls == 0, !old(tr).stopped, old(tr).x0 == x0, old(tr).xend == xend,
    ensures
        r is Ok && (r->Ok_0).status is Success ==> R(final(tr).last_x) == R(xend) || solout is None,
    {
        proof { fp::obeys(); lits(); }
        let ghost so_some = solout is Some;
        // Create mutable copies for the solver to mutate
        let mut x = x0;
        let mut y = y0.to_vec();

        // --- Input Validation ---

        // Rounding Unit
        let uround = self.uround;
        if uround <= 1e-35 || uround >= 1.0 {
            return Err(Error::Config(ConfigError::OutOfRange {
                parameter: "uround",
                value: uround,
                min: 1e-35,
                max: 1.0,
            }));
        }

        // Safety Factor
        let safety_factor = self.safety_factor;
        if safety_factor >= 1.0 || safety_factor <= 1e-4 {
            return Err(Error::Config(ConfigError::OutOfRange {
                parameter: "safety_factor",
                value: safety_factor,
                min: 1e-4,
                max: 1.0,
            }));
        }

        // Parameters for step size selection
        let facc1 = 1.0 / self.scale_min;
        let facc2 = 1.0 / self.scale_max;

        // Beta for step control stabilization
        let beta = self.beta;
        if beta > 0.2 {
            return Err(Error::Config(ConfigError::OutOfRange {
                parameter: "beta",
                value: beta,
                min: 0.0,
                max: 0.2,
            }));
        }

        // Maximum step size
        let h_max = self.max_step.unwrap_or((xend - x).abs());

        // Maximum Number of Steps
        let nmax = self.max_steps;
        if nmax == 0 {
            return Err(Error::Config(ConfigError::MustBePositive {
                parameter: "max_steps",
                value: nmax,
            }));
        }

        // Number of steps before performing a stiffness test
        let nstiff = self.stiff_test;
        if nstiff == 0 {
            return Err(Error::Config(ConfigError::MustBePositive {
                parameter: "stiff_test",
                value: nstiff,
            }));
        }

        // --- Declarations ---
        let n = y.len();
        let mut k1 = vec![0.0; n];
        let mut k2 = vec![0.0; n];
        let mut k3 = vec![0.0; n];
        let mut k4 = vec![0.0; n];
        let mut k5 = vec![0.0; n];
        let mut k6 = vec![0.0; n];
        let mut y1 = vec![0.0; n];
        let mut cont = vec![0.0; n * 5];
        let mut facold: Float = 1e-4;
        let mut last = false;
        let mut reject = false;
        let mut nonstiff = 0;
        let mut hlamb = 0.0;
        let mut iasti = 0;
        let mut fac11;
        let mut fac;
        let mut hnew;
        let mut xph;
        let mut evals = Evals::new();
        let mut steps = Steps::new();
        let mut xold = x;
        let mut xout = None;
        let mut event;
        let status;
        let expo1 = 0.2 - beta * 0.75;
        let posneg = (xend - x).signum();

        // --- Initializations ---
        f.ode(x, &y, &mut k1, Tracked(tr));
        evals.ode = evals.ode + (1);
        let mut h = match self.first_step {
            Some(h0) => h0.abs() * posneg,
            None => {
                evals.ode = evals.ode + (1);
                hinit(
                    f, x, &y, posneg, &k1, &mut k2, &mut k3, 5, h_max, &atol, &rtol, Tracked(tr),
                )
            }
        };

        // Initial SolOut call
        if let Some(solout) = solout.as_mut() {
            match solout.solout(xold, &mut x, &mut y, None, Tracked(tr)) {
                ControlFlag::Interrupt => {
                    return Ok(IntegrationResult {
                        h,
                        status: Status::UserInterrupt,
                        evals,
                        steps,
                    });
                }
                ControlFlag::ModifiedSolution => {
                    // Recompute k1 at new (x, y).
                    f.ode(x, &y, &mut k1, Tracked(tr));
                    evals.ode = evals.ode + (1);
                }
                ControlFlag::XOut(xo) => {
                    xout = Some(xo);
                }
                ControlFlag::Continue => {}
            }
        }

        // --- Main integration loop ---
        loop
            invariant_except_break !tr.stopped, 0 <= iasti < 15, !last, rabs(R(h)) <= rabs(R(h_max)), R(x) != R(xend),
            invariant y.len() == n, k1.len() == n, k2.len() == n, k3.len() == n, k4.len() == n, k5.len() == n, k6.len() == n, y1.len() == n, cont.len() == 5 * n, atol.ok(n as nat), rtol.ok(n as nat), nmax == self.max_steps, nmax < 0x7fff_0000, nstiff > 0,
                steps.total <= nmax + 1, steps.accepted <= steps.total, 0 <= nonstiff <= steps.accepted,
                tr.x0 == x0, tr.xend == xend, dir_ok(x0, xend, posneg), in_span(x0, xend, x), h_dir(posneg, h),
                R(facc2) > 0real, R(facc1) >= 101real / 100real, 0real < R(safety_factor) <= 99real / 100real, R(expo1) >= 0real, R(uround) > 0real,
                evals.ode <= 8 * steps.total + 3, steps.rejected <= steps.total,
                tr.solout_calls > 0 ==> tr.last_x == x,
                solout is Some == so_some, so_some ==> tr.solout_calls > 0, !so_some ==> tr.solout_calls == 0,
            ensures status is Success ==> (R(x) == R(xend) && (so_some ==> tr.last_x == x)), solout is Some == so_some,
            decreases nmax + 2 - steps.total,
        {
            proof { fp::obeys(); lits(); }
            // Check for maximum number of steps
            if steps.total > nmax {
                status = Status::NeedLargerNMax;
                break;
            }

            // Check for underflow due to machine rounding
            if 0.1 * h.abs() <= x.abs() * uround {
                status = Status::StepSizeTooSmall;
                break;
            }

            // Adjust last step to land on xend
            assert(R(1.01f64.mul_spec(h)) == (101real / 100real) * R(h));
            assert(R((x.add_spec(1.01f64.mul_spec(h))).sub_spec(xend)) == R(x) + (101real / 100real) * R(h) - R(xend));
            let ghost hh0 = h;
            let ghost tt = (x.add_spec(1.01f64.mul_spec(h))).sub_spec(xend).mul_spec(posneg);
            assert(R(posneg) == 1real ==> R(tt) == R(x) + (101real / 100real) * R(h) - R(xend));
            assert(R(0.0f64) == 0real);
            let cnd = (x + 1.01 * h - xend) * posneg > 0.0;
            assert(cnd == (R(tt) > 0real));
            if (x + 1.01 * h - xend) * posneg > 0.0 {
                h = xend - x;
                last = true;
                assert(R(h) == R(xend) - R(x));
            }

            assert(R(posneg) == 1real ==> (if last { R(x) + R(h) == R(xend) } else { R(x) + (101real / 100real) * R(h) <= R(xend) }));
            assert(h_dir(posneg, h));
            steps.total = steps.total + (1);

            // Stage 2
            for i in 0..n
                invariant y.len() == n, k1.len() == n, k2.len() == n, k3.len() == n, k4.len() == n, k5.len() == n, k6.len() == n, y1.len() == n, cont.len() == 5 * n, atol.ok(n as nat), rtol.ok(n as nat),
                    forall|j: int| 0 <= j < i ==> R(#[trigger] y1@[j]) == R(y@[j]) + R(h) * (1real / 5real) * R(k1@[j]),
            {
                proof { fp::obeys(); }
                y1[i] = y[i] + h * A21 * k1[i];
            }
            assert(forall|j: int| 0 <= j < n ==> R(#[trigger] y1@[j]) == R(y@[j]) + R(h) * (1real / 5real) * R(k1@[j]));
            f.ode(x + C2 * h, &y1, &mut k2, Tracked(tr));

            // Stage 3
            for i in 0..n
                invariant y.len() == n, k1.len() == n, k2.len() == n, k3.len() == n, k4.len() == n, k5.len() == n, k6.len() == n, y1.len() == n, cont.len() == 5 * n, atol.ok(n as nat), rtol.ok(n as nat),
                    forall|j: int| 0 <= j < i ==> R(#[trigger] y1@[j]) == R(y@[j]) + R(h) * ((3real / 40real) * R(k1@[j]) + (9real / 40real) * R(k2@[j])),
            {
                proof { fp::obeys(); }
                y1[i] = y[i] + h * (A31 * k1[i] + A32 * k2[i]);
            }
            assert(forall|j: int| 0 <= j < n ==> R(#[trigger] y1@[j]) == R(y@[j]) + R(h) * ((3real / 40real) * R(k1@[j]) + (9real / 40real) * R(k2@[j])));
            f.ode(x + C3 * h, &y1, &mut k3, Tracked(tr));

            // Stage 4
            for i in 0..n
                invariant y.len() == n, k1.len() == n, k2.len() == n, k3.len() == n, k4.len() == n, k5.len() == n, k6.len() == n, y1.len() == n, cont.len() == 5 * n, atol.ok(n as nat), rtol.ok(n as nat),
                    forall|j: int| 0 <= j < i ==> R(#[trigger] y1@[j]) == R(y@[j]) + R(h) * ((44real / 45real) * R(k1@[j]) + (0real - 56real / 15real) * R(k2@[j]) + (32real / 9real) * R(k3@[j])),
            {
                proof { fp::obeys(); }
                y1[i] = y[i] + h * (A41 * k1[i] + A42 * k2[i] + A43 * k3[i]);
            }
            assert(forall|j: int| 0 <= j < n ==> R(#[trigger] y1@[j]) == R(y@[j]) + R(h) * ((44real / 45real) * R(k1@[j]) + (0real - 56real / 15real) * R(k2@[j]) + (32real / 9real) * R(k3@[j])));
            f.ode(x + C4 * h, &y1, &mut k4, Tracked(tr));

            // Stage 5
            for i in 0..n
                invariant y.len() == n, k1.len() == n, k2.len() == n, k3.len() == n, k4.len() == n, k5.len() == n, k6.len() == n, y1.len() == n, cont.len() == 5 * n, atol.ok(n as nat), rtol.ok(n as nat),
                    forall|j: int| 0 <= j < i ==> R(#[trigger] y1@[j]) == R(y@[j]) + R(h) * ((19372real / 6561real) * R(k1@[j]) + (0real - 25360real / 2187real) * R(k2@[j]) + (64448real / 6561real) * R(k3@[j]) + (0real - 212real / 729real) * R(k4@[j])),
            {
                proof { fp::obeys(); }
                y1[i] = y[i] + h * (A51 * k1[i] + A52 * k2[i] + A53 * k3[i] + A54 * k4[i]);
            }
            assert(forall|j: int| 0 <= j < n ==> R(#[trigger] y1@[j]) == R(y@[j]) + R(h) * ((19372real / 6561real) * R(k1@[j]) + (0real - 25360real / 2187real) * R(k2@[j]) + (64448real / 6561real) * R(k3@[j]) + (0real - 212real / 729real) * R(k4@[j])));
            f.ode(x + C5 * h, &y1, &mut k5, Tracked(tr));

            // Stage 6 (ysti)
            for i in 0..n
                invariant y.len() == n, k1.len() == n, k2.len() == n, k3.len() == n, k4.len() == n, k5.len() == n, k6.len() == n, y1.len() == n, cont.len() == 5 * n, atol.ok(n as nat), rtol.ok(n as nat),
            {
                proof { fp::obeys(); }
                y1[i] =
                    y[i] + h * (A61 * k1[i] + A62 * k2[i] + A63 * k3[i] + A64 * k4[i] + A65 * k5[i]);
            }
            xph = x + h;
            f.ode(xph, &y1, &mut k6, Tracked(tr));

            // Final stage
            for i in 0..n
                invariant y.len() == n, k1.len() == n, k2.len() == n, k3.len() == n, k4.len() == n, k5.len() == n, k6.len() == n, y1.len() == n, cont.len() == 5 * n, atol.ok(n as nat), rtol.ok(n as nat),
            {
                proof { fp::obeys(); }
                y1[i] =
                    y[i] + h * (A71 * k1[i] + A73 * k3[i] + A74 * k4[i] + A75 * k5[i] + A76 * k6[i]);
            }
            f.ode(xph, &y1, &mut k2, Tracked(tr));
            evals.ode = evals.ode + (6);

            // Prepare last segment of dense output before recalculating k4
            event = xout.map_or(false, |xo| xo <= xph);
            if self.dense_output || event {
                for i in 0..n
                    invariant y.len() == n, k1.len() == n, k2.len() == n, k3.len() == n, k4.len() == n, k5.len() == n, k6.len() == n, y1.len() == n, cont.len() == 5 * n, atol.ok(n as nat), rtol.ok(n as nat),
                {
                proof { fp::obeys(); }
                    cont[4 * n + i] = h
                        * (D1 * k1[i] + D3 * k3[i] + D4 * k4[i] + D5 * k5[i] + D6 * k6[i] + D7 * k2[i]);
                }
            }

            // K4 scaled for error estimate
            for i in 0..n
                invariant y.len() == n, k1.len() == n, k2.len() == n, k3.len() == n, k4.len() == n, k5.len() == n, k6.len() == n, y1.len() == n, cont.len() == 5 * n, atol.ok(n as nat), rtol.ok(n as nat),
            {
                proof { fp::obeys(); }
                k4[i] =
                    (E1 * k1[i] + E3 * k3[i] + E4 * k4[i] + E5 * k5[i] + E6 * k6[i] + E7 * k2[i]) * h;
            }

            // Error estimation
            let mut err = 0.0_f64;
            for i in 0..n
                invariant y.len() == n, k1.len() == n, k2.len() == n, k3.len() == n, k4.len() == n, k5.len() == n, k6.len() == n, y1.len() == n, cont.len() == 5 * n, atol.ok(n as nat), rtol.ok(n as nat),
            {
                proof { fp::obeys(); }
                let sk = (*atol.index(i)) + (*rtol.index(i)) * y[i].abs().max(y1[i].abs());
                err = err + ((k4[i] / sk) * (k4[i] / sk));
            }
            err = (err / to_f(n)).sqrt();

            // Computation of hnew
            fac11 = err.powf(expo1);
            // Lund-Stabilization
            fac = fac11 / facold.powf(beta);
            // We require fac1 <= hnew/h <= fac2
            fac = facc2.max(facc1.min(fac / safety_factor));
            hnew = h / fac;

            if err <= 1.0 {
                // Step accepted
                facold = err.max(1.0e-4);
                steps.accepted = steps.accepted + (1);

                // Stiffness detection
                if (steps.accepted % nstiff == 0) || (iasti > 0) {
                    let mut stnum = 0.0_f64;
                    let mut stden = 0.0_f64;
                    for i in 0..n
                        invariant y.len() == n, k1.len() == n, k2.len() == n, k3.len() == n, k4.len() == n, k5.len() == n, k6.len() == n, y1.len() == n, cont.len() == 5 * n, atol.ok(n as nat), rtol.ok(n as nat),
                    {
                proof { fp::obeys(); }
                        let d1 = k2[i] - k6[i];
                        let ysti = y[i]
                            + h * (A61 * k1[i] + A62 * k2[i] + A63 * k3[i] + A64 * k4[i] + A65 * k5[i]);
                        let d2 = y1[i] - ysti;
                        stnum = stnum + (d1 * d1);
                        stden = stden + (d2 * d2);
                    }
                    if stden > 0.0 {
                        hlamb = h.abs() * (stnum / stden).sqrt();
                    }
                    if hlamb > 3.25 {
                        nonstiff = 0;
                        iasti = iasti + (1);
                        if iasti == 15 {
                            status = Status::ProbablyStiff;
                            break;
                        }
                    } else {
                        nonstiff = nonstiff + (1);
                        if nonstiff == 6 {
                            iasti = 0;
                        }
                    }
                }

                // Prepare dense output
                if self.dense_output || event {
                    for i in 0..n
                        invariant y.len() == n, k1.len() == n, k2.len() == n, k3.len() == n, k4.len() == n, k5.len() == n, k6.len() == n, y1.len() == n, cont.len() == 5 * n, atol.ok(n as nat), rtol.ok(n as nat),
                    {
                proof { fp::obeys(); }
                        let ydiff = y1[i] - y[i];
                        let bspl = h * k1[i] - ydiff;
                        cont[i] = y[i];
                        cont[n + i] = ydiff;
                        cont[2 * n + i] = bspl;
                        cont[3 * n + i] = vneg(h) * k2[i] + ydiff - bspl;
                    }
                }

                // Update state variables
                k1.copy_from_slice(&k2);
                y.copy_from_slice(&y1);
                xold = x;
                x = xph;

                if let Some(solout) = solout.as_mut() {
                    let interpolant = if self.dense_output || event {
                        Some(StepInterpolant::new(&cont, xold, h))
                    } else {
                        None
                    };
                    match solout.solout(xold, &mut x, &mut y, interpolant.as_ref(), Tracked(tr)) {
                        ControlFlag::Interrupt => {
                            status = Status::UserInterrupt;
                            break;
                        }
                        ControlFlag::ModifiedSolution => {
                            // Update derivatives at new (x, y).
                            f.ode(x, &y, &mut k1, Tracked(tr));
                            evals.ode = evals.ode + (1);
                        }
                        ControlFlag::XOut(xo) => {
                            xout = Some(xo);
                        }
                        ControlFlag::Continue => {}
                    }
                }

                // Normal exit
                if last {
                    h = hnew;
                    status = Status::Success;
                    break;
                }

                // Check for step size limits
                if hnew.abs() > h_max.abs() {
                    hnew = posneg * h_max.abs();
                }

                // Prevent oscillations due to previous rejected step
                if reject {
                    hnew = posneg * hnew.abs().min(h.abs());
                    reject = false;
                }
            } else {
                // Step rejected
                hnew = h / facc1.min(fac11 / safety_factor);
                reject = true;
                if steps.accepted > 1 {
                    steps.rejected = steps.rejected + (1);
                }
                last = false;
            }
            h = hnew;
        }

        Ok(IntegrationResult::new(h, status, evals, steps))
    }

    /// Continuous output function for DOPRI5
    pub fn interpolate(xi: Float, yi: &mut [Float], cont: &[Float], xold: Float, h: Float)
        requires old(yi)@.len() >= cont@.len() / 5
    {
        let n = cont.len() / 5;
        let theta = (xi - xold) / h;
        let theta1 = 1.0 - theta;
        for i in 0..n
            invariant n == cont@.len() / 5, yi@.len() >= n,
        {
            yi[i] = cont[i]
                + theta
                    * (cont[n + i]
                        + theta1
                            * (cont[2 * n + i] + theta * (cont[3 * n + i] + theta1 * cont[4 * n + i])));
        }
    }
}


} // verus!
fn main() {}
