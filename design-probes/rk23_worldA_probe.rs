#![feature(const_destruct)]
#![allow(unused)]
use vstd::prelude::*;
use vstd::std_specs::ops::*;
verus! {
pub mod fp { use vstd::prelude::*; use vstd::std_specs::ops::*;
pub broadcast axiom fn f64_add_req(a: f64, b: f64) ensures #[trigger] a.add_req(b);
pub broadcast axiom fn f64_sub_req(a: f64, b: f64) ensures #[trigger] a.sub_req(b);
pub broadcast axiom fn f64_mul_req(a: f64, b: f64) ensures #[trigger] a.mul_req(b);
pub broadcast axiom fn f64_div_req(a: f64, b: f64) ensures #[trigger] a.div_req(b);
pub broadcast group f64_ops { f64_add_req, f64_sub_req, f64_mul_req, f64_div_req }
}
broadcast use fp::f64_ops;
pub type Float = f64;
global size_of usize == 8;
pub uninterp spec fn s_powi(x: f64, y: i32) -> f64;
pub assume_specification [f64::powi] (x: f64, y: i32) -> (r: f64) ensures r == s_powi(x, y);
pub uninterp spec fn s_signum(x: f64) -> f64;
pub uninterp spec fn s_abs(x: f64) -> f64;
pub assume_specification [f64::signum] (x: f64) -> (r: f64) ensures r == s_signum(x);
pub assume_specification [f64::abs] (x: f64) -> (r: f64) ensures r == s_abs(x);
pub assume_specification<T: Clone> [<[T]>::to_vec] (s: &[T]) -> (r: Vec<T>) ensures r@ == s@;
#[verifier::allow(undeclared_external_trait)]
pub assume_specification<T, U, F: FnOnce(T) -> U> [Option::<T>::map_or] (o: Option<T>, d: U, f: F) -> (r: U)
    where U: core::marker::Destruct, F: core::marker::Destruct
    requires o is Some ==> f.requires((o->Some_0,))
    ensures o is None ==> r == d, o is Some ==> f.ensures((o->Some_0,), r);


pub uninterp spec fn s_of_usize(x: usize) -> f64;
#[verifier::external_body] pub fn to_f(x: usize) -> (r: f64) ensures r == s_of_usize(x) { x as f64 }
pub uninterp spec fn s_powf(x: f64, y: f64) -> f64;
pub assume_specification [f64::powf] (x: f64, y: f64) -> (r: f64) ensures r == s_powf(x, y);
pub uninterp spec fn s_sqrt(x: f64) -> f64;
pub assume_specification [f64::sqrt] (x: f64) -> (r: f64) ensures r == s_sqrt(x);
pub uninterp spec fn s_min(x: f64, y: f64) -> f64;
pub assume_specification [f64::min] (x: f64, y: f64) -> (r: f64) ensures r == s_min(x, y);
pub uninterp spec fn s_max(x: f64, y: f64) -> f64;
pub assume_specification [f64::max] (x: f64, y: f64) -> (r: f64) ensures r == s_max(x, y);
pub uninterp spec fn s_neg(x: f64) -> f64;
#[verifier::external_body] pub fn vneg(x: f64) -> (r: f64) ensures r == s_neg(x) { -x }
pub enum Tolerance { Scalar(Float), Vector(Vec<Float>) }
impl Tolerance {
  pub open spec fn ok(&self, n: nat) -> bool { match self { Tolerance::Scalar(_) => true, Tolerance::Vector(v) => v@.len() == n } }
  #[verifier::external_body] pub fn index(&self, i: usize) -> (r: &Float) requires self is Vector ==> i < self->Vector_0@.len() { unimplemented!() }
}
#[verifier::external_body]
pub fn hinit<F: IVP>(f: &F, x: Float, y: &[Float], posneg: Float, f0: &[Float], f1: &mut [Float], y1: &mut [Float], iord: usize, hmax: Float, atol: &Tolerance, rtol: &Tolerance, Tracked(tr): Tracked<&mut Trace>) -> (r: Float)
    requires y@.len() == f0@.len(), old(f1)@.len() == y@.len(), old(y1)@.len() == y@.len(), atol.ok(y@.len() as nat), rtol.ok(y@.len() as nat)
    ensures final(f1)@.len() == old(f1)@.len(), final(y1)@.len() == old(y1)@.len(),
        final(tr).ode_calls == old(tr).ode_calls + 1, final(tr).solout_calls == old(tr).solout_calls, final(tr).last_x == old(tr).last_x, final(tr).stopped == old(tr).stopped
{ unimplemented!() }
pub struct RK23 { pub safety_factor: Float, pub scale_min: Float, pub scale_max: Float, pub max_step: Option<Float>, pub first_step: Option<Float>, pub max_steps: usize, pub dense_output: bool }
pub struct DOPRI5 { pub uround: Float, pub safety_factor: Float, pub scale_min: Float, pub scale_max: Float, pub beta: Float, pub max_step: Option<Float>, pub first_step: Option<Float>, pub max_steps: usize, pub stiff_test: usize, pub dense_output: bool }
#[verifier::external_body]
pub fn vslice_copy<T: Copy>(v: &mut Vec<T>, a: usize, b: usize, src: &[T])
    requires a <= b <= old(v)@.len(), src@.len() == b - a
    ensures final(v)@ == old(v)@.subrange(0, a as int) + src@ + old(v)@.subrange(b as int, old(v)@.len() as int)
{ v[a..b].copy_from_slice(src) }
pub enum Status { Success, UserInterrupt, NeedLargerNMax, StepSizeTooSmall, ProbablyStiff, SingularMatrix, PoorConvergence }
pub struct Evals { pub ode: usize, pub jac: usize, pub lu: usize }
impl Evals { pub fn new() -> (r: Self) ensures r.ode == 0, r.jac == 0, r.lu == 0 { Self { ode: 0, jac: 0, lu: 0 } } }
pub struct Steps { pub total: usize, pub accepted: usize, pub rejected: usize }
impl Steps { pub fn new() -> (r: Self) ensures r.total == 0, r.accepted == 0, r.rejected == 0 { Self { total: 0, accepted: 0, rejected: 0 } } }
pub struct IntegrationResult { pub h: Float, pub status: Status, pub evals: Evals, pub steps: Steps }
impl IntegrationResult { pub fn new(h: Float, status: Status, evals: Evals, steps: Steps) -> (r: Self) ensures r.h == h, r.status == status, r.evals == evals, r.steps == steps { Self { h, status, evals, steps } } }
pub enum ControlFlag { Continue, Interrupt, XOut(Float), ModifiedSolution }
#[allow(inconsistent_fields)]
pub enum ConfigError { InvalidScaleFactors { min: Float, max: Float }, MustBePositive { parameter: &'static str, value: usize }, InvalidStepSize { value: Float, expected_sign: Float },
  OutOfRange { parameter: &'static str, value: Float, min: Float, max: Float } }
pub enum Error { Config(ConfigError) }

pub struct StepInterpolant<'a> { pub cont: &'a [Float], pub xold: Float, pub h: Float }
impl<'a> StepInterpolant<'a> {
    pub fn new(cont: &'a [Float], xold: Float, h: Float) -> (r: Self) ensures r.cont@ == cont@, r.xold == xold, r.h == h { Self { cont, xold, h } }
}

/// Ghost log of everything a solver did through its two callbacks.
pub tracked struct Trace {
    pub ghost ode_calls: int,          // number of IVP::ode calls made
    pub ghost solout_calls: int,       // number of SolOut::solout calls made
    pub ghost last_x: f64,             // x handed back by the latest solout call
    pub ghost stopped: bool,           // a solout call returned Interrupt
}

pub trait IVP {
    spec fn rhs(&self, x: Float, y: Seq<Float>) -> Seq<Float>;
    fn ode(&self, x: Float, y: &[Float], dydx: &mut [Float], Tracked(tr): Tracked<&mut Trace>)
        requires y@.len() == old(dydx)@.len()
        ensures final(dydx)@ == self.rhs(x, y@), final(dydx)@.len() == old(dydx)@.len(),
            final(tr).ode_calls == old(tr).ode_calls + 1,
            final(tr).solout_calls == old(tr).solout_calls, final(tr).last_x == old(tr).last_x, final(tr).stopped == old(tr).stopped;
}

pub trait SolOut {
    fn solout(&mut self, xold: Float, x: &mut Float, y: &mut [Float], interpolant: Option<&StepInterpolant<'_>>, Tracked(tr): Tracked<&mut Trace>) -> (r: ControlFlag)
        requires
            !old(tr).stopped,
            old(tr).solout_calls == 0 ==> xold == *old(x) && interpolant is None,
            old(tr).solout_calls > 0 ==> xold == old(tr).last_x,
        ensures final(y)@.len() == old(y)@.len(),
            final(tr).ode_calls == old(tr).ode_calls,
            final(tr).solout_calls == old(tr).solout_calls + 1,
            final(tr).last_x == *final(x),
            final(tr).stopped == (r is Interrupt),
            !(r is ModifiedSolution) ==> final(y)@ == old(y)@ && *final(x) == *old(x);
}



impl RK23 {
    /// Bogacki–Shampine 3(2) pair (RK23) — adaptive solver with optional dense output.
    ///
    /// This function integrates the autonomous system `y' = f(xc, y)` from `x0` to
    /// `xend`. It performs classical error control using the embedded 2nd‑order
    /// estimate and can, if requested, provide dense-output coefficients for
    /// interpolation inside each step and call a user-provided `SolOut` hook.
    ///
    /// # Arguments
    ///
    /// ## Defining the Problem
    /// - `f`: Right‑hand side implementing `IVP`.
    /// - `x0`: Initial independent variable value.
    /// - `xend`: Final independent variable value.
    /// - `y0`: Slice containing the initial state.
    /// - `rtol`, `atol`: Relative and absolute tolerances (see [`Tolerance`]).
    /// 
    /// ## Output Control
    /// - `solout`: Optional mutable reference to a `SolOut` callback used for
    ///   intermediate output. If `dense_output` is `true` the callback may receive
    ///   a dense interpolant.
    /// - `dense_output`: If `true`, dense‑output coefficients are computed every
    ///   accepted step to enable fast interpolation via the provided interpolant.
    /// 
    /// Solver settings (`safety_factor`, `scale_min`, `scale_max`, `max_step`, `first_step`, `max_steps`)
    /// are configured via the `RK23` struct fields.
    ///
    /// # Returns
    /// A `Result` with `IntegrationResult` on success or an `Error` if validation fails.
    pub fn solve<F, S>(
        &self,
        f: &F,
        x0: Float,
        y0: &[Float],
        xend: Float,
        rtol: Tolerance,
        atol: Tolerance,
        mut solout: Option<&mut S>,
        Tracked(tr): Tracked<&mut Trace>,
    ) -> (r: Result<IntegrationResult, Error>)
    where
        F: IVP,
        S: SolOut,
    requires
        4 * y0@.len() <= usize::MAX, self.max_steps < 0x7fff_0000,
        atol.ok(y0@.len() as nat), rtol.ok(y0@.len() as nat),
        old(tr).solout_calls == 0, !old(tr).stopped,
    ensures
        r is Ok ==> (r->Ok_0).evals.ode == final(tr).ode_calls - old(tr).ode_calls,
        r is Ok ==> ((r->Ok_0).status is UserInterrupt <==> final(tr).stopped),
        r is Ok && solout is Some ==> final(tr).solout_calls == (r->Ok_0).steps.accepted + 1,
    {
        let ghost so_some = solout is Some;
        // Create mutable copies for the solver to mutate
        let mut x = x0;
        let mut y = y0.to_vec();

        // --- Input Validation ---
        
        // Maximum Number of Steps
        let nmax = self.max_steps;
        if nmax == 0 {
            return Err(Error::Config(ConfigError::MustBePositive {
                parameter: "max_steps",
                value: nmax,
            }));
        }

        // Safety Factor
        let safety_factor = self.safety_factor;
        if safety_factor >= 1.0 || safety_factor <= 1e-4 {
            return Err(Error::Config(ConfigError::OutOfRange {
                parameter: "safety_factor",
                value: safety_factor,
                min: 1e-4,
                max: 1.0,
            }));
        }

        // Step size scaling factors
        let scale_min = self.scale_min;
        let scale_max = self.scale_max;
        if scale_min <= 0.0 || scale_max <= scale_min {
            return Err(Error::Config(ConfigError::InvalidScaleFactors {
                min: scale_min,
                max: scale_max,
            }));
        }

        // Error exponent
        let error_exponent = vneg(1.0) / 3.0;

        // Maximum step size
        let hmax = self.max_step.map(|h| h.abs()).unwrap_or((xend - x).abs());

        // --- Declarations ---
        let n = y.len();
        let mut k1 = vec![0.0; n];
        let mut k2 = vec![0.0; n];
        let mut k3 = vec![0.0; n];
        let mut k4 = vec![0.0; n];
        let mut yt = vec![0.0; n];
        let mut ye = vec![0.0; n];
        let mut cont = vec![0.0; 4 * n];
        let mut evals = Evals::new();
        let mut steps = Steps::new();
        let mut status = Status::Success;
        let mut xold = x;
        let mut xout: Option<Float> = None;
        let posneg = (xend - x).signum();

        // --- Initializations ---
        f.ode(x, &y, &mut k1, Tracked(tr));
        evals.ode = evals.ode + (1);
        let mut h = match self.first_step {
            Some(h0) => h0.abs() * posneg,
            None => {
                evals.ode = evals.ode + (1);
                hinit(
                    f, x, &y, posneg, &k1, &mut k2, &mut k3, 3, hmax, &atol, &rtol, Tracked(tr),
                )
            }
        };
        // Initial SolOut call (no interpolator yet; xold == x)
        if let Some(sol) = solout.as_mut() {
            match sol.solout(xold, &mut x, &mut y, None, Tracked(tr)) {
                ControlFlag::Interrupt => {
                    return Ok(IntegrationResult {
                        h,
                        status: Status::UserInterrupt,
                        evals,
                        steps,
                    });
                }
                ControlFlag::ModifiedSolution => {
                    // Recompute k1 at new (x, y).
                    f.ode(x, &y, &mut k1, Tracked(tr));
                    evals.ode = evals.ode + (1);
                }
                ControlFlag::XOut(xo) => {
                    xout = Some(xo);
                }
                ControlFlag::Continue => {}
            }
        }

        // --- Main integration loop ---
        loop
            invariant_except_break !tr.stopped, status is Success,
            invariant y.len() == n, k1.len() == n, k2.len() == n, k3.len() == n, k4.len() == n, yt.len() == n, ye.len() == n, cont.len() == 4 * n, atol.ok(n as nat), rtol.ok(n as nat), nmax == self.max_steps, nmax < 0x7fff_0000,
                steps.total <= nmax, steps.accepted <= steps.total,
                evals.ode == tr.ode_calls - old(tr).ode_calls,
                k1@ == f.rhs(x, y@),
                tr.solout_calls > 0 ==> tr.last_x == x,
                solout is Some == so_some, solout is None ==> tr.solout_calls == 0, solout is Some ==> tr.solout_calls == steps.accepted + 1,
            ensures (status is UserInterrupt) == tr.stopped, solout is Some == so_some,
                evals.ode == tr.ode_calls - old(tr).ode_calls,
                solout is Some ==> tr.solout_calls == steps.accepted + 1,
            decreases nmax + 2 - steps.total,
        {
            // Check for maximum number of steps
            if steps.total >= nmax {
                status = Status::NeedLargerNMax;
                break;
            }

            // Check for last step adjustment
            if (x + h - xend) * posneg > 0.0 {
                h = xend - x;
            }

            // Stage 2
            for i in 0..n
                invariant y.len() == n, k1.len() == n, k2.len() == n, k3.len() == n, k4.len() == n, yt.len() == n, ye.len() == n, cont.len() == 4 * n, atol.ok(n as nat), rtol.ok(n as nat),
            {
                yt[i] = y[i] + h * A21 * k1[i];
            }
            f.ode(x + C2 * h, &yt, &mut k2, Tracked(tr));

            // Stage 3
            for i in 0..n
                invariant y.len() == n, k1.len() == n, k2.len() == n, k3.len() == n, k4.len() == n, yt.len() == n, ye.len() == n, cont.len() == 4 * n, atol.ok(n as nat), rtol.ok(n as nat),
            {
                yt[i] = y[i] + h * A32 * k2[i];
            }
            f.ode(x + C3 * h, &yt, &mut k3, Tracked(tr));

            // Compute solution and error estimate
            for i in 0..n
                invariant y.len() == n, k1.len() == n, k2.len() == n, k3.len() == n, k4.len() == n, yt.len() == n, ye.len() == n, cont.len() == 4 * n, atol.ok(n as nat), rtol.ok(n as nat),
            {
                yt[i] = y[i] + h * (B1 * k1[i] + B2 * k2[i] + B3 * k3[i]);
            }

            // Stage 4/1: derivative at new point, also used as k1 if accepted.
            f.ode(x + h, &yt, &mut k4, Tracked(tr));

            evals.ode = evals.ode + (3);

            // Error estimate using embedded 2nd order solution
            for i in 0..n
                invariant y.len() == n, k1.len() == n, k2.len() == n, k3.len() == n, k4.len() == n, yt.len() == n, ye.len() == n, cont.len() == 4 * n, atol.ok(n as nat), rtol.ok(n as nat),
            {
                ye[i] = h * (E1 * k1[i] + E2 * k2[i] + E3 * k3[i] + E4 * k4[i]);
            }

            // Error estimation
            let mut err = 0.0;
            for i in 0..n
                invariant y.len() == n, k1.len() == n, k2.len() == n, k3.len() == n, k4.len() == n, yt.len() == n, ye.len() == n, cont.len() == 4 * n, atol.ok(n as nat), rtol.ok(n as nat),
            {
                let tol = (*atol.index(i)) + (*rtol.index(i)) * yt[i].abs().max(y[i].abs());
                err = err + ((ye[i] / tol).powi(2));
            }
            err = (err / to_f(n)).sqrt();

            if err <= 1.0 {
                // Step accepted
                steps.total = steps.total + (1);
                steps.accepted = steps.accepted + (1);

                // Update state
                ye.copy_from_slice(&y);
                y.copy_from_slice(&yt);
                xold = x;
                x = x + (h);

                // Prepare dense output
                if self.dense_output && solout.is_some() {
                    vslice_copy(&mut cont, 0, n, &ye);
                    for i in 0..n
                        invariant y.len() == n, k1.len() == n, k2.len() == n, k3.len() == n, k4.len() == n, yt.len() == n, ye.len() == n, cont.len() == 4 * n, atol.ok(n as nat), rtol.ok(n as nat),
                    {
                        cont[n + i] = k1[i];
                        cont[2 * n + i] = D21 * k1[i] + D22 * k2[i] + D23 * k3[i] + D24 * k4[i];
                        cont[3 * n + i] = D31 * k1[i] + D32 * k2[i] + D33 * k3[i] + D34 * k4[i];
                    }
                }

                // Optional callback function
                if let Some(sol) = solout.as_mut() {
                    let event = xout.map_or(false, |xo| xo <= x);
                    let interpolant = if self.dense_output || event {
                        Some(StepInterpolant::new(&cont, xold, h))
                    } else {
                        None
                    };
                    match sol.solout(xold, &mut x, &mut y, interpolant.as_ref(), Tracked(tr)) {
                        ControlFlag::Interrupt => {
                            status = Status::UserInterrupt;
                            break;
                        }
                        ControlFlag::ModifiedSolution => {
                            // Update with modified solution
                            // Recompute k1 at new (x, y).
                            f.ode(x, &y, &mut k1, Tracked(tr));
                            evals.ode = evals.ode + (1);
                        }
                        ControlFlag::XOut(xo) => {
                            xout = Some(xo);
                            // Reuse k4 as k1 for the next step to save an evaluation.
                            k1.copy_from_slice(&k4);
                        }
                        ControlFlag::Continue => {
                            // Reuse k4 as k1 for the next step to save an evaluation.
                            k1.copy_from_slice(&k4);
                        }
                    }
                }

                // Adjust step size
                h = h * ((safety_factor * err.powf(error_exponent)).min(scale_max).max(scale_min));
                if h.abs() > hmax {
                    h = hmax * posneg;
                }

                // Normal exit
                if x == xend {
                    break;
                }
            } else {
                // Step rejected
                steps.rejected = steps.rejected + (1);
                h = h * ((safety_factor * err.powf(error_exponent)).min(1.0).max(scale_min));
            }
        }

        Ok(IntegrationResult::new(h, status, evals, steps))
    }

    /// Dense output evaluation for RK23
    pub fn interpolate(xi: Float, yi: &mut [Float], cont: &[Float], xold: Float, h: Float)
        requires cont@.len() >= 4 * old(yi)@.len()
    {
        let n = yi.len();
        let xc = (xi - xold) / h;
        let x2 = xc * xc;
        let x3 = x2 * xc;
        for i in 0..n
            invariant n == yi@.len(), cont@.len() >= 4 * n,
        {
            yi[i] = cont[i] + h * (cont[n + i] * xc + cont[2 * n + i] * x2 + cont[3 * n + i] * x3);
        }
    }
}

// RK23 Butcher tableau coefficients
#[verifier::external_body] exec const C2: Float = 0.5;
#[verifier::external_body] exec const C3: Float = 0.75;

#[verifier::external_body] exec const A21: Float = 0.5;
#[verifier::external_body] exec const A32: Float = 0.75;

#[verifier::external_body] exec const B1: Float = 2.0 / 9.0;
#[verifier::external_body] exec const B2: Float = 1.0 / 3.0;
#[verifier::external_body] exec const B3: Float = 4.0 / 9.0;

#[verifier::external_body] exec const E1: Float = 5.0 / 72.0;
#[verifier::external_body] exec const E2: Float = -1.0 / 12.0;
#[verifier::external_body] exec const E3: Float = -1.0 / 9.0;
#[verifier::external_body] exec const E4: Float = 1.0 / 8.0;

#[verifier::external_body] exec const D21: Float = -4.0 / 3.0;
#[verifier::external_body] exec const D22: Float = 1.0;
#[verifier::external_body] exec const D23: Float = 4.0 / 3.0;
#[verifier::external_body] exec const D24: Float = -1.0;
#[verifier::external_body] exec const D31: Float = 5.0 / 9.0;
#[verifier::external_body] exec const D32: Float = -2.0 / 3.0;
#[verifier::external_body] exec const D33: Float = -8.0 / 9.0;
#[verifier::external_body] exec const D34: Float = 1.0;


} // verus!
fn main() {}
