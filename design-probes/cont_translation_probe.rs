#![allow(unused)]
use vstd::prelude::*;
use vstd::std_specs::ops::*;
verus! {
global size_of usize == 8;
pub mod fp { use vstd::prelude::*; use vstd::std_specs::ops::*;
pub broadcast axiom fn f64_add_req(a: f64, b: f64) ensures #[trigger] a.add_req(b);
pub broadcast axiom fn f64_sub_req(a: f64, b: f64) ensures #[trigger] a.sub_req(b);
pub broadcast group f64_ops { f64_add_req, f64_sub_req }
}
broadcast use fp::f64_ops;
pub type Float = f64;
pub uninterp spec fn s_min(x: f64, y: f64) -> f64;
pub assume_specification [f64::min] (x: f64, y: f64) -> (r: f64) ensures r == s_min(x, y);
pub uninterp spec fn s_max(x: f64, y: f64) -> f64;
pub assume_specification [f64::max] (x: f64, y: f64) -> (r: f64) ensures r == s_max(x, y);
#[derive(Clone, Copy)]
pub enum Method { RK23, DOPRI5, DOP853, RK4, RADAU, BDF }
#[derive(Clone, Copy)]
pub enum InterpId { RK23, DOPRI5, DOP853, RK4, RADAU, BDF }
pub enum Status { Success, UserInterrupt, NeedLargerNMax, StepSizeTooSmall, ProbablyStiff, SingularMatrix, PoorConvergence }
pub enum InterpolationError { NotEnabled, OutOfRange { t: Float, t_start: Float, t_end: Float } }
pub enum Error { Interpolation(InterpolationError) }
pub struct DenseSegment { pub cont: Vec<Float>, pub xold: Float, pub h: Float, pub interp_fn: InterpId, pub ty_: Ghost<usize> }
impl DenseSegment {
    pub fn new(cont: Vec<Float>, xold: Float, h: Float, interp_fn: InterpId) -> (r: Self) ensures r.cont == cont, r.xold == xold, r.h == h { Self { cont, xold, h, interp_fn, ty_: Ghost(0) } }
    #[verifier::external_body] pub fn interpolate(&self, xi: Float, yi: &mut [Float]) ensures final(yi)@.len() == old(yi)@.len() { unimplemented!() }
}
/// Piecewise dense output over all accepted steps.
pub struct ContinuousOutput {
    pub segs: Vec<DenseSegment>,
    pub n_states: usize,
}

impl ContinuousOutput {
    
    /// Create a constant ContinuousOutput that always returns the initial state.

    /// Domain covered by the dense output (inclusive on the right within tolerance).
    pub fn t_span(&self) -> Option<(Float, Float)> {
        if self.segs.is_empty() {
            return None;
        }
        let first = self.segs.first().unwrap();
        let last = self.segs.last().unwrap();
        let start = first.xold;
        let end = last.xold + last.h;
        Some((start, end))
    }

    /// Interpolate y(t) if t lies within any recorded step; returns None if outside.
    pub fn evaluate(&self, t: Float) -> Option<Vec<Float>> {
        let seg = self.find_segment(t)?;
        let mut yi = vec![0.0; self.n_states];
        seg.interpolate(t, &mut yi);
        Some(yi)
    }


    /// Interpolate y(t) allowing extrapolation beyond the recorded range.
    /// This matches SciPy's OdeSolution.__call__ behavior.
    pub fn evaluate_extrapolate(&self, t: Float) -> Option<Vec<Float>> {
        let seg = self.find_segment_extrapolate(t)?;
        let mut yi = vec![0.0; self.n_states];
        seg.interpolate(t, &mut yi);
        Some(yi)
    }

    fn find_segment(&self, t: Float) -> Option<&DenseSegment> {
        if self.segs.is_empty() {
            return None;
        }
        
        let tol = 1e-12;
        
        // Strict interpolation - only return segment if t is within it
        for seg in &self.segs {
            let left = seg.xold.min(seg.xold + seg.h);
            let right = seg.xold.max(seg.xold + seg.h);
            if t >= left - tol && t <= right + tol {
                return Some(seg);
            }
        }
        
        None
    }
    
    fn find_segment_extrapolate(&self, t: Float) -> Option<&DenseSegment> {
        if self.segs.is_empty() {
            return None;
        }
        
        let tol = 1e-12;
        
        // First check if t is within any segment (interpolation)
        for seg in &self.segs {
            let left = seg.xold.min(seg.xold + seg.h);
            let right = seg.xold.max(seg.xold + seg.h);
            if t >= left - tol && t <= right + tol {
                return Some(seg);
            }
        }
        
        // If not within any segment, allow extrapolation using the closest segment
        // This matches SciPy's behavior
        let first = self.segs.first().unwrap();
        let last = self.segs.last().unwrap();
        
        let first_left = first.xold.min(first.xold + first.h);
        let last_right = last.xold.max(last.xold + last.h);
        
        if t < first_left {
            // Extrapolate backwards using first segment
            Some(first)
        } else if t > last_right {
            // Extrapolate forwards using last segment
            Some(last)
        } else {
            // This shouldn't happen, but return None to be safe
            None
        }
    }
}

} // verus!
fn main() {}
