#![feature(const_destruct)]
#![allow(unused)]
use vstd::prelude::*;
use vstd::std_specs::ops::*;
verus! {
pub mod fp { use vstd::prelude::*; use vstd::std_specs::ops::*;
pub broadcast axiom fn f64_add_req(a: f64, b: f64) ensures #[trigger] a.add_req(b);
pub broadcast axiom fn f64_sub_req(a: f64, b: f64) ensures #[trigger] a.sub_req(b);
pub broadcast axiom fn f64_mul_req(a: f64, b: f64) ensures #[trigger] a.mul_req(b);
pub broadcast axiom fn f64_div_req(a: f64, b: f64) ensures #[trigger] a.div_req(b);
pub broadcast group f64_ops { f64_add_req, f64_sub_req, f64_mul_req, f64_div_req }
}
broadcast use fp::f64_ops;
pub type Float = f64;
global size_of usize == 8;
pub uninterp spec fn s_signum(x: f64) -> f64;
pub uninterp spec fn s_abs(x: f64) -> f64;
pub assume_specification [f64::signum] (x: f64) -> (r: f64) ensures r == s_signum(x);
pub assume_specification [f64::abs] (x: f64) -> (r: f64) ensures r == s_abs(x);
pub assume_specification<T: Clone> [<[T]>::to_vec] (s: &[T]) -> (r: Vec<T>) ensures r@ == s@;
#[verifier::allow(undeclared_external_trait)]
pub assume_specification<T, U, F: FnOnce(T) -> U> [Option::<T>::map_or] (o: Option<T>, d: U, f: F) -> (r: U)
    where U: core::marker::Destruct, F: core::marker::Destruct
    requires o is Some ==> f.requires((o->Some_0,))
    ensures o is None ==> r == d, o is Some ==> f.ensures((o->Some_0,), r);


pub uninterp spec fn s_of_usize(x: usize) -> f64;
#[verifier::external_body] pub fn to_f(x: usize) -> (r: f64) ensures r == s_of_usize(x) { x as f64 }
pub uninterp spec fn s_powf(x: f64, y: f64) -> f64;
pub assume_specification [f64::powf] (x: f64, y: f64) -> (r: f64) ensures r == s_powf(x, y);
pub uninterp spec fn s_sqrt(x: f64) -> f64;
pub assume_specification [f64::sqrt] (x: f64) -> (r: f64) ensures r == s_sqrt(x);
pub uninterp spec fn s_min(x: f64, y: f64) -> f64;
pub assume_specification [f64::min] (x: f64, y: f64) -> (r: f64) ensures r == s_min(x, y);
pub uninterp spec fn s_max(x: f64, y: f64) -> f64;
pub assume_specification [f64::max] (x: f64, y: f64) -> (r: f64) ensures r == s_max(x, y);
pub uninterp spec fn s_neg(x: f64) -> f64;
#[verifier::external_body] pub fn vneg(x: f64) -> (r: f64) ensures r == s_neg(x) { -x }
pub enum Tolerance { Scalar(Float), Vector(Vec<Float>) }
impl Tolerance {
  pub open spec fn ok(&self, n: nat) -> bool { match self { Tolerance::Scalar(_) => true, Tolerance::Vector(v) => v@.len() == n } }
  #[verifier::external_body] pub fn index(&self, i: usize) -> (r: &Float) requires self is Vector ==> i < self->Vector_0@.len() { unimplemented!() }
}
#[verifier::external_body]
pub fn hinit<F: IVP>(f: &F, x: Float, y: &[Float], posneg: Float, f0: &[Float], f1: &mut [Float], y1: &mut [Float], iord: usize, hmax: Float, atol: &Tolerance, rtol: &Tolerance, Tracked(tr): Tracked<&mut Trace>) -> (r: Float)
    requires y@.len() == f0@.len(), old(f1)@.len() == y@.len(), old(y1)@.len() == y@.len(), atol.ok(y@.len() as nat), rtol.ok(y@.len() as nat)
    ensures final(f1)@.len() == old(f1)@.len(), final(y1)@.len() == old(y1)@.len(),
        final(tr).ode_calls == old(tr).ode_calls + 1, final(tr).solout_calls == old(tr).solout_calls, final(tr).last_x == old(tr).last_x, final(tr).stopped == old(tr).stopped
{ unimplemented!() }
pub struct DOPRI5 { pub uround: Float, pub safety_factor: Float, pub scale_min: Float, pub scale_max: Float, pub beta: Float, pub max_step: Option<Float>, pub first_step: Option<Float>, pub max_steps: usize, pub stiff_test: usize, pub dense_output: bool }
pub enum Status { Success, UserInterrupt, NeedLargerNMax, StepSizeTooSmall, ProbablyStiff, SingularMatrix, PoorConvergence }
pub struct Evals { pub ode: usize, pub jac: usize, pub lu: usize }
impl Evals { pub fn new() -> (r: Self) ensures r.ode == 0, r.jac == 0, r.lu == 0 { Self { ode: 0, jac: 0, lu: 0 } } }
pub struct Steps { pub total: usize, pub accepted: usize, pub rejected: usize }
impl Steps { pub fn new() -> (r: Self) ensures r.total == 0, r.accepted == 0, r.rejected == 0 { Self { total: 0, accepted: 0, rejected: 0 } } }
pub struct IntegrationResult { pub h: Float, pub status: Status, pub evals: Evals, pub steps: Steps }
impl IntegrationResult { pub fn new(h: Float, status: Status, evals: Evals, steps: Steps) -> (r: Self) ensures r.h == h, r.status == status, r.evals == evals, r.steps == steps { Self { h, status, evals, steps } } }
pub enum ControlFlag { Continue, Interrupt, XOut(Float), ModifiedSolution }
#[allow(inconsistent_fields)]
pub enum ConfigError { MustBePositive { parameter: &'static str, value: usize }, InvalidStepSize { value: Float, expected_sign: Float },
  OutOfRange { parameter: &'static str, value: Float, min: Float, max: Float } }
pub enum Error { Config(ConfigError) }

pub struct StepInterpolant<'a> { pub cont: &'a [Float], pub xold: Float, pub h: Float }
impl<'a> StepInterpolant<'a> {
    pub fn new(cont: &'a [Float], xold: Float, h: Float) -> (r: Self) ensures r.cont@ == cont@, r.xold == xold, r.h == h { Self { cont, xold, h } }
}

/// Ghost log of everything a solver did through its two callbacks.
pub tracked struct Trace {
    pub ghost ode_calls: int,          // number of IVP::ode calls made
    pub ghost solout_calls: int,       // number of SolOut::solout calls made
    pub ghost last_x: f64,             // x handed back by the latest solout call
    pub ghost stopped: bool,           // a solout call returned Interrupt
}

pub trait IVP {
    spec fn rhs(&self, x: Float, y: Seq<Float>) -> Seq<Float>;
    fn ode(&self, x: Float, y: &[Float], dydx: &mut [Float], Tracked(tr): Tracked<&mut Trace>)
        requires y@.len() == old(dydx)@.len()
        ensures final(dydx)@ == self.rhs(x, y@), final(dydx)@.len() == old(dydx)@.len(),
            final(tr).ode_calls == old(tr).ode_calls + 1,
            final(tr).solout_calls == old(tr).solout_calls, final(tr).last_x == old(tr).last_x, final(tr).stopped == old(tr).stopped;
}

pub trait SolOut {
    fn solout(&mut self, xold: Float, x: &mut Float, y: &mut [Float], interpolant: Option<&StepInterpolant<'_>>, Tracked(tr): Tracked<&mut Trace>) -> (r: ControlFlag)
        requires
            !old(tr).stopped,
            old(tr).solout_calls == 0 ==> xold == *old(x) && interpolant is None,
            old(tr).solout_calls > 0 ==> xold == old(tr).last_x,
        ensures final(y)@.len() == old(y)@.len(),
            final(tr).ode_calls == old(tr).ode_calls,
            final(tr).solout_calls == old(tr).solout_calls + 1,
            final(tr).last_x == *final(x),
            final(tr).stopped == (r is Interrupt),
            !(r is ModifiedSolution) ==> final(y)@ == old(y)@ && *final(x) == *old(x);
}



impl DOPRI5 {
    /// Dormand–Prince DOPRI5 — explicit embedded Runge–Kutta 5(4) solver with
    /// adaptive step-size control and optional dense output.
    ///
    /// This function integrates the autonomous system `y' = f(x, y)` from `x0` to
    /// `xend`. It performs classical error control (embedded estimates) and,
    /// optionally, computes dense-output coefficients for continuous interpolation
    /// inside each step.
    ///
    /// # Arguments
    ///
    /// ## Defining the Problem
    /// - `f`: Right‑hand side implementing `IVP`.
    /// - `x0`: Initial independent variable value.
    /// - `xend`: Final independent variable value.
    /// - `y0`: Slice containing the initial state.
    /// - `rtol`, `atol`: Relative and absolute tolerances (see [`Tolerance`]).
    ///
    /// ## Output Control
    /// - `solout`: Optional mutable reference to a `SolOut` callback used for
    ///   intermediate output and event handling. If `dense_output` is `true` the
    ///   callback may receive a dense interpolant.
    /// - `dense_output`: If `true`, dense‑output coefficients are computed every
    ///   accepted step to enable fast interpolation via the provided interpolant.
    ///
    /// Solver settings (`uround`, `safety_factor`, `scale_min`, `scale_max`, `beta`, 
    /// `max_step`, `first_step`, `max_steps`, `stiff_test`) are configured via the 
    /// `DOPRI5` struct fields.
    ///
    /// # Returns
    /// A `Result` with `IntegrationResult` on success or an `Error` if validation fails.
    pub fn solve<F, S>(
        &self,
        f: &F,
        x0: Float,
        y0: &[Float],
        xend: Float,
        rtol: Tolerance,
        atol: Tolerance,
        mut solout: Option<&mut S>,
        Tracked(tr): Tracked<&mut Trace>,
    ) -> (r: Result<IntegrationResult, Error>)
    where
        F: IVP,
        S: SolOut,
    requires
        5 * y0@.len() <= usize::MAX,
        self.max_steps < 0x7fff_0000,
        atol.ok(y0@.len() as nat), rtol.ok(y0@.len() as nat),
        old(tr).solout_calls == 0, !old(tr).stopped,
    ensures
        r is Ok ==> (r->Ok_0).evals.ode == final(tr).ode_calls - old(tr).ode_calls,
        r is Ok ==> ((r->Ok_0).status is UserInterrupt <==> final(tr).stopped),
        r is Ok && solout is Some && !((r->Ok_0).status is ProbablyStiff) ==> final(tr).solout_calls == (r->Ok_0).steps.accepted + 1,
        r is Ok ==> (r->Ok_0).steps.accepted <= (r->Ok_0).steps.total,
        r is Ok && (r->Ok_0).status is NeedLargerNMax ==> (r->Ok_0).steps.total > self.max_steps,
    {
        let ghost so_some = solout is Some;
        // Create mutable copies for the solver to mutate
        let mut x = x0;
        let mut y = y0.to_vec();

        // --- Input Validation ---

        // Rounding Unit
        let uround = self.uround;
        if uround <= 1e-35 || uround >= 1.0 {
            return Err(Error::Config(ConfigError::OutOfRange {
                parameter: "uround",
                value: uround,
                min: 1e-35,
                max: 1.0,
            }));
        }

        // Safety Factor
        let safety_factor = self.safety_factor;
        if safety_factor >= 1.0 || safety_factor <= 1e-4 {
            return Err(Error::Config(ConfigError::OutOfRange {
                parameter: "safety_factor",
                value: safety_factor,
                min: 1e-4,
                max: 1.0,
            }));
        }

        // Parameters for step size selection
        let facc1 = 1.0 / self.scale_min;
        let facc2 = 1.0 / self.scale_max;

        // Beta for step control stabilization
        let beta = self.beta;
        if beta > 0.2 {
            return Err(Error::Config(ConfigError::OutOfRange {
                parameter: "beta",
                value: beta,
                min: 0.0,
                max: 0.2,
            }));
        }

        // Maximum step size
        let h_max = self.max_step.unwrap_or((xend - x).abs());

        // Maximum Number of Steps
        let nmax = self.max_steps;
        if nmax == 0 {
            return Err(Error::Config(ConfigError::MustBePositive {
                parameter: "max_steps",
                value: nmax,
            }));
        }

        // Number of steps before performing a stiffness test
        let nstiff = self.stiff_test;
        if nstiff == 0 {
            return Err(Error::Config(ConfigError::MustBePositive {
                parameter: "stiff_test",
                value: nstiff,
            }));
        }

        // --- Declarations ---
        let n = y.len();
        let mut k1 = vec![0.0; n];
        let mut k2 = vec![0.0; n];
        let mut k3 = vec![0.0; n];
        let mut k4 = vec![0.0; n];
        let mut k5 = vec![0.0; n];
        let mut k6 = vec![0.0; n];
        let mut y1 = vec![0.0; n];
        let mut cont = vec![0.0; n * 5];
        let mut facold: Float = 1e-4;
        let mut last = false;
        let mut reject = false;
        let mut nonstiff = 0;
        let mut hlamb = 0.0;
        let mut iasti = 0;
        let mut fac11;
        let mut fac;
        let mut hnew;
        let mut xph;
        let mut evals = Evals::new();
        let mut steps = Steps::new();
        let mut xold = x;
        let mut xout = None;
        let mut event;
        let status;
        let expo1 = 0.2 - beta * 0.75;
        let posneg = (xend - x).signum();

        // --- Initializations ---
        f.ode(x, &y, &mut k1, Tracked(tr));
        evals.ode = evals.ode + (1);
        let mut h = match self.first_step {
            Some(h0) => h0.abs() * posneg,
            None => {
                evals.ode = evals.ode + (1);
                hinit(
                    f, x, &y, posneg, &k1, &mut k2, &mut k3, 5, h_max, &atol, &rtol, Tracked(tr),
                )
            }
        };

        // Initial SolOut call
        if let Some(solout) = solout.as_mut() {
            match solout.solout(xold, &mut x, &mut y, None, Tracked(tr)) {
                ControlFlag::Interrupt => {
                    return Ok(IntegrationResult {
                        h,
                        status: Status::UserInterrupt,
                        evals,
                        steps,
                    });
                }
                ControlFlag::ModifiedSolution => {
                    // Recompute k1 at new (x, y).
                    f.ode(x, &y, &mut k1, Tracked(tr));
                    evals.ode = evals.ode + (1);
                }
                ControlFlag::XOut(xo) => {
                    xout = Some(xo);
                }
                ControlFlag::Continue => {}
            }
        }

        // --- Main integration loop ---
        loop
            invariant_except_break !tr.stopped, 0 <= iasti < 15, solout is Some ==> tr.solout_calls == steps.accepted + 1,
            invariant y.len() == n, k1.len() == n, k2.len() == n, k3.len() == n, k4.len() == n, k5.len() == n, k6.len() == n, y1.len() == n, cont.len() == 5 * n, atol.ok(n as nat), rtol.ok(n as nat), nmax == self.max_steps, nmax < 0x7fff_0000, nstiff > 0,
                steps.total <= nmax + 1, steps.accepted <= steps.total, steps.rejected <= steps.total,
                evals.ode == tr.ode_calls - old(tr).ode_calls,
                evals.ode <= 8 * steps.total + 3,
                k1@ == f.rhs(x, y@),
                tr.solout_calls > 0 ==> tr.last_x == x,
                solout is None ==> tr.solout_calls == 0,
                0 <= nonstiff <= steps.accepted, solout is Some == so_some,
            ensures (status is UserInterrupt) == tr.stopped, solout is Some == so_some,
                evals.ode == tr.ode_calls - old(tr).ode_calls,
                steps.accepted <= steps.total,
                status is NeedLargerNMax ==> steps.total > nmax,
                solout is Some && !(status is ProbablyStiff) ==> tr.solout_calls == steps.accepted + 1,
            decreases nmax + 2 - steps.total,
        {
            // Check for maximum number of steps
            if steps.total > nmax {
                status = Status::NeedLargerNMax;
                break;
            }

            // Check for underflow due to machine rounding
            if 0.1 * h.abs() <= x.abs() * uround {
                status = Status::StepSizeTooSmall;
                break;
            }

            // Adjust last step to land on xend
            if (x + 1.01 * h - xend) * posneg > 0.0 {
                h = xend - x;
                last = true;
            }

            steps.total = steps.total + (1);

            // Stage 2
            for i in 0..n
                invariant y.len() == n, k1.len() == n, k2.len() == n, k3.len() == n, k4.len() == n, k5.len() == n, k6.len() == n, y1.len() == n, cont.len() == 5 * n, atol.ok(n as nat), rtol.ok(n as nat),
            {
                y1[i] = y[i] + h * A21 * k1[i];
            }
            f.ode(x + C2 * h, &y1, &mut k2, Tracked(tr));

            // Stage 3
            for i in 0..n
                invariant y.len() == n, k1.len() == n, k2.len() == n, k3.len() == n, k4.len() == n, k5.len() == n, k6.len() == n, y1.len() == n, cont.len() == 5 * n, atol.ok(n as nat), rtol.ok(n as nat),
            {
                y1[i] = y[i] + h * (A31 * k1[i] + A32 * k2[i]);
            }
            f.ode(x + C3 * h, &y1, &mut k3, Tracked(tr));

            // Stage 4
            for i in 0..n
                invariant y.len() == n, k1.len() == n, k2.len() == n, k3.len() == n, k4.len() == n, k5.len() == n, k6.len() == n, y1.len() == n, cont.len() == 5 * n, atol.ok(n as nat), rtol.ok(n as nat),
            {
                y1[i] = y[i] + h * (A41 * k1[i] + A42 * k2[i] + A43 * k3[i]);
            }
            f.ode(x + C4 * h, &y1, &mut k4, Tracked(tr));

            // Stage 5
            for i in 0..n
                invariant y.len() == n, k1.len() == n, k2.len() == n, k3.len() == n, k4.len() == n, k5.len() == n, k6.len() == n, y1.len() == n, cont.len() == 5 * n, atol.ok(n as nat), rtol.ok(n as nat),
            {
                y1[i] = y[i] + h * (A51 * k1[i] + A52 * k2[i] + A53 * k3[i] + A54 * k4[i]);
            }
            f.ode(x + C5 * h, &y1, &mut k5, Tracked(tr));

            // Stage 6 (ysti)
            for i in 0..n
                invariant y.len() == n, k1.len() == n, k2.len() == n, k3.len() == n, k4.len() == n, k5.len() == n, k6.len() == n, y1.len() == n, cont.len() == 5 * n, atol.ok(n as nat), rtol.ok(n as nat),
            {
                y1[i] =
                    y[i] + h * (A61 * k1[i] + A62 * k2[i] + A63 * k3[i] + A64 * k4[i] + A65 * k5[i]);
            }
            xph = x + h;
            f.ode(xph, &y1, &mut k6, Tracked(tr));

            // Final stage
            for i in 0..n
                invariant y.len() == n, k1.len() == n, k2.len() == n, k3.len() == n, k4.len() == n, k5.len() == n, k6.len() == n, y1.len() == n, cont.len() == 5 * n, atol.ok(n as nat), rtol.ok(n as nat),
            {
                y1[i] =
                    y[i] + h * (A71 * k1[i] + A73 * k3[i] + A74 * k4[i] + A75 * k5[i] + A76 * k6[i]);
            }
            f.ode(xph, &y1, &mut k2, Tracked(tr));
            evals.ode = evals.ode + (6);

            // Prepare last segment of dense output before recalculating k4
            event = xout.map_or(false, |xo| xo <= xph);
            if self.dense_output || event {
                for i in 0..n
                    invariant y.len() == n, k1.len() == n, k2.len() == n, k3.len() == n, k4.len() == n, k5.len() == n, k6.len() == n, y1.len() == n, cont.len() == 5 * n, atol.ok(n as nat), rtol.ok(n as nat),
                {
                    cont[4 * n + i] = h
                        * (D1 * k1[i] + D3 * k3[i] + D4 * k4[i] + D5 * k5[i] + D6 * k6[i] + D7 * k2[i]);
                }
            }

            // K4 scaled for error estimate
            for i in 0..n
                invariant y.len() == n, k1.len() == n, k2.len() == n, k3.len() == n, k4.len() == n, k5.len() == n, k6.len() == n, y1.len() == n, cont.len() == 5 * n, atol.ok(n as nat), rtol.ok(n as nat),
            {
                k4[i] =
                    (E1 * k1[i] + E3 * k3[i] + E4 * k4[i] + E5 * k5[i] + E6 * k6[i] + E7 * k2[i]) * h;
            }

            // Error estimation
            let mut err = 0.0_f64;
            for i in 0..n
                invariant y.len() == n, k1.len() == n, k2.len() == n, k3.len() == n, k4.len() == n, k5.len() == n, k6.len() == n, y1.len() == n, cont.len() == 5 * n, atol.ok(n as nat), rtol.ok(n as nat),
            {
                let sk = (*atol.index(i)) + (*rtol.index(i)) * y[i].abs().max(y1[i].abs());
                err = err + ((k4[i] / sk) * (k4[i] / sk));
            }
            err = (err / to_f(n)).sqrt();

            // Computation of hnew
            fac11 = err.powf(expo1);
            // Lund-Stabilization
            fac = fac11 / facold.powf(beta);
            // We require fac1 <= hnew/h <= fac2
            fac = facc2.max(facc1.min(fac / safety_factor));
            hnew = h / fac;

            if err <= 1.0 {
                // Step accepted
                facold = err.max(1.0e-4);
                steps.accepted = steps.accepted + (1);

                // Stiffness detection
                if (steps.accepted % nstiff == 0) || (iasti > 0) {
                    let mut stnum = 0.0_f64;
                    let mut stden = 0.0_f64;
                    for i in 0..n
                        invariant y.len() == n, k1.len() == n, k2.len() == n, k3.len() == n, k4.len() == n, k5.len() == n, k6.len() == n, y1.len() == n, cont.len() == 5 * n, atol.ok(n as nat), rtol.ok(n as nat),
                    {
                        let d1 = k2[i] - k6[i];
                        let ysti = y[i]
                            + h * (A61 * k1[i] + A62 * k2[i] + A63 * k3[i] + A64 * k4[i] + A65 * k5[i]);
                        let d2 = y1[i] - ysti;
                        stnum = stnum + (d1 * d1);
                        stden = stden + (d2 * d2);
                    }
                    if stden > 0.0 {
                        hlamb = h.abs() * (stnum / stden).sqrt();
                    }
                    if hlamb > 3.25 {
                        nonstiff = 0;
                        iasti = iasti + (1);
                        if iasti == 15 {
                            status = Status::ProbablyStiff;
                            break;
                        }
                    } else {
                        nonstiff = nonstiff + (1);
                        if nonstiff == 6 {
                            iasti = 0;
                        }
                    }
                }

                // Prepare dense output
                if self.dense_output || event {
                    for i in 0..n
                        invariant y.len() == n, k1.len() == n, k2.len() == n, k3.len() == n, k4.len() == n, k5.len() == n, k6.len() == n, y1.len() == n, cont.len() == 5 * n, atol.ok(n as nat), rtol.ok(n as nat),
                    {
                        let ydiff = y1[i] - y[i];
                        let bspl = h * k1[i] - ydiff;
                        cont[i] = y[i];
                        cont[n + i] = ydiff;
                        cont[2 * n + i] = bspl;
                        cont[3 * n + i] = vneg(h) * k2[i] + ydiff - bspl;
                    }
                }

                // Update state variables
                k1.copy_from_slice(&k2);
                y.copy_from_slice(&y1);
                xold = x;
                x = xph;

                if let Some(solout) = solout.as_mut() {
                    let interpolant = if self.dense_output || event {
                        Some(StepInterpolant::new(&cont, xold, h))
                    } else {
                        None
                    };
                    match solout.solout(xold, &mut x, &mut y, interpolant.as_ref(), Tracked(tr)) {
                        ControlFlag::Interrupt => {
                            status = Status::UserInterrupt;
                            break;
                        }
                        ControlFlag::ModifiedSolution => {
                            // Update derivatives at new (x, y).
                            f.ode(x, &y, &mut k1, Tracked(tr));
                            evals.ode = evals.ode + (1);
                        }
                        ControlFlag::XOut(xo) => {
                            xout = Some(xo);
                        }
                        ControlFlag::Continue => {}
                    }
                }

                // Normal exit
                if last {
                    h = hnew;
                    status = Status::Success;
                    break;
                }

                // Check for step size limits
                if hnew.abs() > h_max.abs() {
                    hnew = posneg * h_max.abs();
                }

                // Prevent oscillations due to previous rejected step
                if reject {
                    hnew = posneg * hnew.abs().min(h.abs());
                    reject = false;
                }
            } else {
                // Step rejected
                hnew = h / facc1.min(fac11 / safety_factor);
                reject = true;
                if steps.accepted > 1 {
                    steps.rejected = steps.rejected + (1);
                }
                last = false;
            }
            h = hnew;
        }

        Ok(IntegrationResult::new(h, status, evals, steps))
    }

    /// Continuous output function for DOPRI5
    pub fn interpolate(xi: Float, yi: &mut [Float], cont: &[Float], xold: Float, h: Float)
        requires old(yi)@.len() >= cont@.len() / 5
    {
        let n = cont.len() / 5;
        let theta = (xi - xold) / h;
        let theta1 = 1.0 - theta;
        for i in 0..n
            invariant n == cont@.len() / 5, yi@.len() >= n,
        {
            yi[i] = cont[i]
                + theta
                    * (cont[n + i]
                        + theta1
                            * (cont[2 * n + i] + theta * (cont[3 * n + i] + theta1 * cont[4 * n + i])));
        }
    }
}

// DOPRI5 Butcher tableau coefficients
#[verifier::external_body] exec const C2: Float = 0.2;
#[verifier::external_body] exec const C3: Float = 0.3;
#[verifier::external_body] exec const C4: Float = 0.8;
#[verifier::external_body] exec const C5: Float = 8.0 / 9.0;

#[verifier::external_body] exec const A21: Float = 0.2;
#[verifier::external_body] exec const A31: Float = 3.0 / 40.0;
#[verifier::external_body] exec const A32: Float = 9.0 / 40.0;
#[verifier::external_body] exec const A41: Float = 44.0 / 45.0;
#[verifier::external_body] exec const A42: Float = -56.0 / 15.0;
#[verifier::external_body] exec const A43: Float = 32.0 / 9.0;
#[verifier::external_body] exec const A51: Float = 19372.0 / 6561.0;
#[verifier::external_body] exec const A52: Float = -25360.0 / 2187.0;
#[verifier::external_body] exec const A53: Float = 64448.0 / 6561.0;
#[verifier::external_body] exec const A54: Float = -212.0 / 729.0;
#[verifier::external_body] exec const A61: Float = 9017.0 / 3168.0;
#[verifier::external_body] exec const A62: Float = -355.0 / 33.0;
#[verifier::external_body] exec const A63: Float = 46732.0 / 5247.0;
#[verifier::external_body] exec const A64: Float = 49.0 / 176.0;
#[verifier::external_body] exec const A65: Float = -5103.0 / 18656.0;
#[verifier::external_body] exec const A71: Float = 35.0 / 384.0;
#[verifier::external_body] exec const A73: Float = 500.0 / 1113.0;
#[verifier::external_body] exec const A74: Float = 125.0 / 192.0;
#[verifier::external_body] exec const A75: Float = -2187.0 / 6784.0;
#[verifier::external_body] exec const A76: Float = 11.0 / 84.0;

#[verifier::external_body] exec const E1: Float = 71.0 / 57600.0;
#[verifier::external_body] exec const E3: Float = -71.0 / 16695.0;
#[verifier::external_body] exec const E4: Float = 71.0 / 1920.0;
#[verifier::external_body] exec const E5: Float = -17253.0 / 339200.0;
#[verifier::external_body] exec const E6: Float = 22.0 / 525.0;
#[verifier::external_body] exec const E7: Float = -1.0 / 40.0;

#[verifier::external_body] exec const D1: Float = -12715105075.0 / 11282082432.0;
#[verifier::external_body] exec const D3: Float = 87487479700.0 / 32700410799.0;
#[verifier::external_body] exec const D4: Float = -10690763975.0 / 1880347072.0;
#[verifier::external_body] exec const D5: Float = 701980252875.0 / 199316789632.0;
#[verifier::external_body] exec const D6: Float = -1453857185.0 / 822651844.0;
#[verifier::external_body] exec const D7: Float = 69997945.0 / 29380423.0;

} // verus!
fn main() {}
