#![feature(const_destruct)]
#![allow(unused)]
use vstd::prelude::*;
use vstd::std_specs::ops::*;
verus! {
pub mod fp { use vstd::prelude::*; use vstd::std_specs::ops::*;
pub broadcast axiom fn f64_add_req(a: f64, b: f64) ensures #[trigger] a.add_req(b);
pub broadcast axiom fn f64_sub_req(a: f64, b: f64) ensures #[trigger] a.sub_req(b);
pub broadcast axiom fn f64_mul_req(a: f64, b: f64) ensures #[trigger] a.mul_req(b);
pub broadcast axiom fn f64_div_req(a: f64, b: f64) ensures #[trigger] a.div_req(b);
pub broadcast group f64_ops { f64_add_req, f64_sub_req, f64_mul_req, f64_div_req }
}
broadcast use fp::f64_ops;
pub type Float = f64;
global size_of usize == 8;
pub uninterp spec fn s_signum(x: f64) -> f64;
pub uninterp spec fn s_abs(x: f64) -> f64;
pub assume_specification [f64::signum] (x: f64) -> (r: f64) ensures r == s_signum(x);
pub assume_specification [f64::abs] (x: f64) -> (r: f64) ensures r == s_abs(x);
pub assume_specification<T: Clone> [<[T]>::to_vec] (s: &[T]) -> (r: Vec<T>) ensures r@ == s@;
#[verifier::allow(undeclared_external_trait)]
pub assume_specification<T, U, F: FnOnce(T) -> U> [Option::<T>::map_or] (o: Option<T>, d: U, f: F) -> (r: U)
    where U: core::marker::Destruct, F: core::marker::Destruct
    requires o is Some ==> f.requires((o->Some_0,))
    ensures o is None ==> r == d, o is Some ==> f.ensures((o->Some_0,), r);


pub uninterp spec fn s_neg(x: f64) -> f64;
#[verifier::external_body] pub fn vneg(x: f64) -> (r: f64) ensures r == s_neg(x) { -x }
pub uninterp spec fn s_of_usize(x: usize) -> f64;
#[verifier::external_body] pub fn to_f(x: usize) -> (r: f64) ensures r == s_of_usize(x) { x as f64 }
pub uninterp spec fn s_powf(x: f64, y: f64) -> f64;
pub assume_specification [f64::powf] (x: f64, y: f64) -> (r: f64) ensures r == s_powf(x, y);
pub uninterp spec fn s_powi(x: f64, y: i32) -> f64;
pub assume_specification [f64::powi] (x: f64, y: i32) -> (r: f64) ensures r == s_powi(x, y);
pub uninterp spec fn s_sqrt(x: f64) -> f64;
pub assume_specification [f64::sqrt] (x: f64) -> (r: f64) ensures r == s_sqrt(x);
pub uninterp spec fn s_clamp(x: f64, a: f64, b: f64) -> f64;
pub assume_specification [f64::clamp] (x: f64, a: f64, b: f64) -> (r: f64) ensures r == s_clamp(x, a, b);
pub uninterp spec fn s_min(x: f64, y: f64) -> f64;
pub assume_specification [f64::min] (x: f64, y: f64) -> (r: f64) ensures r == s_min(x, y);
pub uninterp spec fn s_max(x: f64, y: f64) -> f64;
pub assume_specification [f64::max] (x: f64, y: f64) -> (r: f64) ensures r == s_max(x, y);

#[derive(Clone)]
pub enum MatrixStorage { Identity, Full, Banded { ml: usize, mu: usize } }
pub struct Matrix { pub n: usize, pub m: usize, pub data: Vec<Float>, pub storage: MatrixStorage }
impl Matrix {
    #[verifier::external_body] pub fn zeros(n: usize, m: usize) -> (r: Self) ensures r.n == n, r.m == m { unimplemented!() }
    #[verifier::external_body] pub fn from_storage(n: usize, m: usize, s: MatrixStorage) -> (r: Self) ensures r.n == n, r.m == m { unimplemented!() }
    #[verifier::external_body] pub fn index(&self, ij: (usize, usize)) -> (r: &Float) requires ij.0 < self.n, ij.1 < self.m { unimplemented!() }
    #[verifier::external_body] pub fn index_mut(&mut self, ij: (usize, usize)) -> (r: &mut Float) requires ij.0 < old(self).n, ij.1 < old(self).m ensures final(self).n == old(self).n, final(self).m == old(self).m { unimplemented!() }
}
#[verifier::external_body] pub fn lu_decomp(a: &mut Matrix, ip: &mut [usize]) -> (r: Result<(), Error>) ensures final(a).n == old(a).n, final(a).m == old(a).m, final(ip)@.len() == old(ip)@.len() { unimplemented!() }
#[verifier::external_body] pub fn lu_decomp_complex(ar: &mut Matrix, ai: &mut Matrix, ip: &mut [usize]) -> (r: Result<(), Error>) ensures final(ar).n == old(ar).n, final(ar).m == old(ar).m, final(ai).n == old(ai).n, final(ai).m == old(ai).m, final(ip)@.len() == old(ip)@.len() { unimplemented!() }
#[verifier::external_body] pub fn lin_solve(a: &Matrix, b: &mut [Float], ip: &[usize]) requires a.n == a.m, old(b)@.len() >= a.n, ip@.len() == a.n ensures final(b)@.len() == old(b)@.len() { unimplemented!() }
#[verifier::external_body] pub fn lin_solve_complex(ar: &Matrix, ai: &Matrix, br: &mut [Float], bi: &mut [Float], ip: &[usize]) ensures final(br)@.len() == old(br)@.len(), final(bi)@.len() == old(bi)@.len() { unimplemented!() }
pub enum Status { Success, UserInterrupt, NeedLargerNMax, StepSizeTooSmall, ProbablyStiff, SingularMatrix, PoorConvergence }
pub struct Evals { pub ode: usize, pub jac: usize, pub lu: usize }
impl Evals { pub fn new() -> (r: Self) ensures r.ode == 0, r.jac == 0, r.lu == 0 { Self { ode: 0, jac: 0, lu: 0 } } }
pub struct Steps { pub total: usize, pub accepted: usize, pub rejected: usize }
impl Steps { pub fn new() -> (r: Self) ensures r.total == 0, r.accepted == 0, r.rejected == 0 { Self { total: 0, accepted: 0, rejected: 0 } } }
pub struct IntegrationResult { pub h: Float, pub status: Status, pub evals: Evals, pub steps: Steps }
impl IntegrationResult { pub fn new(h: Float, status: Status, evals: Evals, steps: Steps) -> (r: Self) ensures r.h == h, r.status == status, r.evals == evals, r.steps == steps { Self { h, status, evals, steps } } }
pub enum ControlFlag { Continue, Interrupt, XOut(Float), ModifiedSolution }
#[allow(inconsistent_fields)]
pub enum ConfigError { MustBePositive { parameter: &'static str, value: usize }, InvalidStepSize { value: Float, expected_sign: Float },
  OutOfRange { parameter: &'static str, value: Float, min: Float, max: Float }, InvalidScaleFactors { min: Float, max: Float },
  InvalidDAEPartition { n: usize, nind1: usize, nind2: usize, nind3: usize } }
pub enum Error { Config(ConfigError), LinearAlgebra }

pub struct StepInterpolant<'a> { pub cont: &'a [Float], pub xold: Float, pub h: Float }
impl<'a> StepInterpolant<'a> {
    pub fn new(cont: &'a [Float], xold: Float, h: Float) -> (r: Self) ensures r.cont@ == cont@, r.xold == xold, r.h == h { Self { cont, xold, h } }
}

/// Ghost log of everything a solver did through its two callbacks.
pub tracked struct Trace {
    pub ghost jac_calls: int,
    pub ghost ode_calls: int,          // number of IVP::ode calls made
    pub ghost solout_calls: int,       // number of SolOut::solout calls made
    pub ghost last_x: f64,             // x handed back by the latest solout call
    pub ghost stopped: bool,           // a solout call returned Interrupt
}

pub trait IVP {
    spec fn rhs(&self, x: Float, y: Seq<Float>) -> Seq<Float>;
    fn ode(&self, x: Float, y: &[Float], dydx: &mut [Float], Tracked(tr): Tracked<&mut Trace>)
        requires y@.len() == old(dydx)@.len()
        ensures final(dydx)@ == self.rhs(x, y@), final(dydx)@.len() == old(dydx)@.len(),
            final(tr).ode_calls == old(tr).ode_calls + 1,
            final(tr).solout_calls == old(tr).solout_calls, final(tr).last_x == old(tr).last_x, final(tr).stopped == old(tr).stopped, final(tr).jac_calls == old(tr).jac_calls;
    fn jac(&self, x: Float, y: &[Float], j: &mut Matrix, Tracked(tr): Tracked<&mut Trace>) ensures final(j).n == old(j).n, final(j).m == old(j).m,
        final(tr).jac_calls == old(tr).jac_calls + 1, final(tr).ode_calls == old(tr).ode_calls, final(tr).solout_calls == old(tr).solout_calls, final(tr).last_x == old(tr).last_x, final(tr).stopped == old(tr).stopped;
    fn mass(&self, m: &mut Matrix) ensures final(m).n == old(m).n, final(m).m == old(m).m;
}

pub trait SolOut {
    fn solout(&mut self, xold: Float, x: &mut Float, y: &mut [Float], interpolant: Option<&StepInterpolant<'_>>, Tracked(tr): Tracked<&mut Trace>) -> (r: ControlFlag)
        requires
            !old(tr).stopped,
            old(tr).solout_calls == 0 ==> xold == *old(x) && interpolant is None,
            old(tr).solout_calls > 0 ==> xold == old(tr).last_x,
        ensures final(y)@.len() == old(y)@.len(),
            final(tr).ode_calls == old(tr).ode_calls,
            final(tr).solout_calls == old(tr).solout_calls + 1,
            final(tr).last_x == *final(x),
            final(tr).stopped == (r is Interrupt), final(tr).jac_calls == old(tr).jac_calls,
            !(r is ModifiedSolution) ==> final(y)@ == old(y)@ && *final(x) == *old(x);
}


pub struct RADAU { pub max_steps: usize, pub uround: Float, pub safety_factor: Float, pub scale_min: Float, pub scale_max: Float,
 pub max_step: Option<Float>, pub min_step: Option<Float>, pub newton_maxiter: usize, pub newton_tol: Option<Float>, pub predictive: bool,
 pub nind1: Option<usize>, pub nind2: Option<usize>, pub nind3: Option<usize>, pub jac_storage: MatrixStorage, pub mass_storage: MatrixStorage,
 pub first_step: Option<Float>, pub dense_output: bool }
pub enum Tolerance { Scalar(Float), Vector(Vec<Float>) }
impl Tolerance {
  pub open spec fn ok(&self, n: nat) -> bool { match self { Tolerance::Scalar(_) => true, Tolerance::Vector(v) => v@.len() == n } }
  #[verifier::external_body] pub fn index(&self, i: usize) -> (r: &Float) requires self is Vector ==> i < self->Vector_0@.len() { unimplemented!() }
  #[verifier::external_body] pub fn index_mut(&mut self, i: usize) -> (r: &mut Float) requires *old(self) is Vector ==> i < (*old(self))->Vector_0@.len() ensures forall|n: nat| old(self).ok(n) ==> final(self).ok(n) { unimplemented!() }
  pub open spec fn ok_len(&self) -> nat { match self { Tolerance::Scalar(_) => 0, Tolerance::Vector(v) => v@.len() } }
}
impl RADAU {
    /// Radau IIA(5) — implicit Runge–Kutta solver with adaptive steps and dense output.
    ///
    /// This function integrates a stiff system or index‑1/2/3 DAE `M·y' = f(x, y)` from `x0` to
    /// `xend`. It uses simplified Newton iterations with a numerically approximated Jacobian
    /// by default, performs adaptive step control, and can provide dense output.
    ///
    /// # Arguments
    ///
    /// ## Defining the Problem
    /// - `f`: Right‑hand side implementing `IVP` (optionally providing `jac`, `mass`).
    /// - `x0`: Initial abscissa; `xend`: final abscissa.
    /// - `y0`: Initial state.
    /// - `rtol`, `atol`: Relative/absolute tolerances (scalar or vector).
    ///
    /// ## Output Control
    /// - `solout`: Optional mutable `SolOut` callback invoked initially and after each accepted step.
    ///
    /// Solver settings are configured via the `RADAU` struct fields.
    ///
    /// # Returns
    /// A `Result` with `IntegrationResult` on success or an input `Error`.
    pub fn solve<F, S>(
        &self,
        f: &F,
        x0: Float,
        y0: &[Float],
        xend: Float,
        rtol: Tolerance,
        atol: Tolerance,
        mut solout: Option<&mut S>,
        Tracked(tr): Tracked<&mut Trace>,
    ) -> (r: Result<IntegrationResult, Error>)
    where
        F: IVP,
        S: SolOut,
    requires
        1 <= y0@.len(), 4 * y0@.len() <= usize::MAX, self.max_steps < 0x7fff_0000, self.newton_maxiter < 0x7fff_0000,
        atol.ok(y0@.len() as nat), rtol.ok(y0@.len() as nat),
        self.nind1 is Some ==> self.nind1->Some_0 < 0x7fff_0000, self.nind2 is Some ==> self.nind2->Some_0 < 0x7fff_0000, self.nind3 is Some ==> self.nind3->Some_0 < 0x7fff_0000,
        old(tr).solout_calls == 0, !old(tr).stopped,
    ensures
        r is Ok ==> (r->Ok_0).evals.ode == final(tr).ode_calls - old(tr).ode_calls,
        r is Ok ==> (r->Ok_0).evals.jac == final(tr).jac_calls - old(tr).jac_calls,
        r is Ok ==> ((r->Ok_0).status is UserInterrupt <==> final(tr).stopped),
        r is Ok && solout is Some ==> final(tr).solout_calls == (r->Ok_0).steps.accepted + 1,
    {
        let ghost so_some = solout is Some;
        // Create mutable copies for the solver to mutate
        let mut x = x0;
        let mut y = y0.to_vec();

        // --- Input Validation ---

        // nmax
        let nmax = self.max_steps;
        if nmax == 0 {
            return Err(Error::Config(ConfigError::MustBePositive {
                parameter: "max_steps",
                value: nmax,
            }));
        }
        // uround
        let uround = self.uround;
        if uround <= 1e-35 || uround >= 1.0 {
            return Err(Error::Config(ConfigError::OutOfRange {
                parameter: "uround",
                value: uround,
                min: 1e-35,
                max: 1.0,
            }));
        }
        // safety factor
        let safety_factor = self.safety_factor;
        if safety_factor <= 1e-4 || safety_factor >= 1.0 {
            return Err(Error::Config(ConfigError::OutOfRange {
                parameter: "safety_factor",
                value: safety_factor,
                min: 1e-4,
                max: 1.0,
            }));
        }
        // Step-size scaling bounds: clamp factor quot in [facc2, facc1]
        let scale_min = self.scale_min;
        let scale_max = self.scale_max;
        let facl = 1.0 / scale_min;
        let facr = 1.0 / scale_max;
        if scale_min <= 0.0 || !(scale_min < scale_max) {
            return Err(Error::Config(ConfigError::InvalidScaleFactors {
                min: scale_min,
                max: scale_max,
            }));
        }

        // hmax and hmin
        let hmax = self.max_step.unwrap_or_else(|| (xend - x).abs());
        let hmin = self.min_step.unwrap_or(0.0);

        // Max newton iterations
        let max_newton = self.newton_maxiter;
        if max_newton == 0 {
            return Err(Error::Config(ConfigError::MustBePositive {
                parameter: "newton_maxiter",
                value: max_newton,
            }));
        }

        // Adjust tolerances
        let expm = 2.0 / 3.0;
        let n = y.len();
        let mut rtol = rtol;
        let mut atol = atol;
        for i in 0..n
            invariant y.len() == n, rtol.ok(n as nat), atol.ok(n as nat),
        {
            let quot = (*atol.index(i)) / (*rtol.index(i));
            *rtol.index_mut(i) = 0.1 * (*rtol.index(i)).powf(expm);
            *atol.index_mut(i) = (*rtol.index(i)) * quot;
        }

        // Newton tolerance
        let newton_tol = match self.newton_tol {
            Some(v) => v,
            None => {
                let tolst = (*rtol.index(0));
                (10.0 * uround / tolst).max(0.03f64.min(tolst.sqrt()))
            }
        };

        // Predictive step-size control
        let predictive = self.predictive;

        // Differential Algebraic equation index settings.
        // Accept counts and infer nind1 when omitted.
        let nind1_opt = self.nind1;
        let nind2_opt = self.nind2;
        let nind3_opt = self.nind3;
        let mut nind1 = nind1_opt.unwrap_or(0);
        let nind2 = nind2_opt.unwrap_or(0);
        let nind3 = nind3_opt.unwrap_or(0);

        let provided =
            (nind1_opt.is_some() as u8) + (nind2_opt.is_some() as u8) + (nind3_opt.is_some() as u8);
        if provided == 0 {
            // Pure ODE by default: all variables are index-1
            nind1 = n;
        } else if nind1_opt.is_none() {
            // Infer nind1 so that counts sum to n
            if nind2 + nind3 > n {
                return Err(Error::Config(ConfigError::InvalidDAEPartition {
                    n,
                    nind1,
                    nind2,
                    nind3,
                }));
            } else {
                nind1 = n - nind2 - nind3;
            }
        } else {
            // Validate explicit sums
            if nind1 + nind2 + nind3 != n {
                return Err(Error::Config(ConfigError::InvalidDAEPartition {
                    n,
                    nind1,
                    nind2,
                    nind3,
                }));
            }
        }

        // Initial step size: use provided h0 or default to 1e-6 (signed)
        let posneg = (xend - x).signum();
        let mut h = if let Some(h0) = self.first_step {
            // Auto-correct the sign of h0 to match integration direction
            h0.abs() * posneg
        } else {
            1.0e-6 * posneg
        };
        if h == 0.0 {
            return Err(Error::Config(ConfigError::InvalidStepSize {
                value: h,
                expected_sign: posneg,
            }));
        }
        h = h.clamp(vneg(hmax), hmax);

        // --- Declarations ---

        // Workspace
        let mut z1 = vec![0.0; n];
        let mut z2 = vec![0.0; n];
        let mut z3 = vec![0.0; n];
        let mut f1 = vec![0.0; n];
        let mut f2 = vec![0.0; n];
        let mut f3 = vec![0.0; n];
        let mut scal = vec![0.0; n];
        let mut e1 = Matrix::zeros(n, n);
        let mut e2r = Matrix::zeros(n, n);
        let mut e2i = Matrix::zeros(n, n);
        let mut ip1 = vec![0; n];
        let mut ip2 = vec![0; n];
        let mut cont = vec![0.0; n * 4];

        // Jacobian and mass matrices with user-preferred storage
        let mut jac = Matrix::from_storage(n, n, self.jac_storage.clone());
        let mut mass = Matrix::from_storage(n, n, self.mass_storage.clone());

        // Counters
        let mut evals = Evals::new();
        let mut steps = Steps::new();

        // Status
        let status;
        let mut singular_count = 0;

        // Step-size control
        let mut hold = h;
        let mut hnew: Float;
        let mut hhfac: Float = h;
        let mut last = false;
        let mut reject = false;
        let mut h_acc: Float = 0.0;
        let mut err_acc: Float = 0.0;
        let mut fac: Float;
        let mut quot: Float;
        let mut qt;
        let quot1: Float = 1.0;
        let quot2: Float = 1.2;
        let cfac: Float = safety_factor * (1.0 + 2.0 * to_f((max_newton)));

        // Newton iteration control
        let mut faccon: Float = 1.0;
        let mut theta: Float;
        let thet: Float = 0.001;
        let mut dynold: Float = 0.0;
        let mut thqold: Float = 0.0;
        let mut dyno: Float;

        // Error and time bookkeeping
        let mut err: Float;
        let mut xold = x;
        let mut xph;

        // Flags
        let mut first = true;
        let mut call_jac = true;
        let mut call_decomp = true;

        // --- Initializations ---

        let mut f0 = vec![0.0; n];
        f.ode(x, &y, &mut f0, Tracked(tr));
        evals.ode = evals.ode + (1);

        // Optional output scheduling
        let mut xout: Option<Float> = None;

        // Initial callback (xold=xc; no interpolant yet)
        if let Some(sol) = solout.as_mut() {
            match sol.solout(xold, &mut x, &mut y, None, Tracked(tr)) {
                ControlFlag::Continue => {}
                ControlFlag::Interrupt => {
                    return Ok(IntegrationResult::new(
                        h,
                        Status::UserInterrupt,
                        evals,
                        steps,
                    ));
                }
                ControlFlag::ModifiedSolution => {
                    // Update derivatives at new (x, y).
                    f.ode(x, &y, &mut f0, Tracked(tr));
                    evals.ode = evals.ode + (1);
                }
                ControlFlag::XOut(xo) => {
                    xout = Some(xo);
                }
            }
        }

        // Initial mass matrix
        f.mass(&mut mass);

        // Error scale
        for i in 0..n
            invariant y.len() == n, z1.len() == n, z2.len() == n, z3.len() == n, f0.len() == n, f1.len() == n, f2.len() == n, f3.len() == n, scal.len() == n, cont.len() == 4 * n, ip1.len() == n, ip2.len() == n, e1.n == n, e1.m == n, e2r.n == n, e2r.m == n, e2i.n == n, e2i.m == n, jac.n == n, jac.m == n, mass.n == n, mass.m == n, rtol.ok(n as nat), atol.ok(n as nat), nind1 + nind2 + nind3 == n, n >= 1, nind1 < 0x7fff_0000, nind2 < 0x7fff_0000, nind3 < 0x7fff_0000,
        {
            scal[i] = (*atol.index(i)) + (*rtol.index(i)) * y[i].abs();
        }

        // --- Main integration loop ---
        'main: loop
            invariant_except_break !tr.stopped, solout is Some ==> tr.solout_calls == steps.accepted + 1,
            invariant y.len() == n, z1.len() == n, z2.len() == n, z3.len() == n, f0.len() == n, f1.len() == n, f2.len() == n, f3.len() == n, scal.len() == n, cont.len() == 4 * n, ip1.len() == n, ip2.len() == n, e1.n == n, e1.m == n, e2r.n == n, e2r.m == n, e2i.n == n, e2i.m == n, jac.n == n, jac.m == n, mass.n == n, mass.m == n, rtol.ok(n as nat), atol.ok(n as nat), nind1 + nind2 + nind3 == n, n >= 1, nind1 < 0x7fff_0000, nind2 < 0x7fff_0000, nind3 < 0x7fff_0000, nmax == self.max_steps, nmax < 0x7fff_0000, max_newton == self.newton_maxiter, 1 <= max_newton < 0x7fff_0000,
                steps.total <= nmax + 1, steps.accepted <= steps.total, steps.rejected <= steps.total, 0 <= singular_count <= 5,
                evals.ode == tr.ode_calls - old(tr).ode_calls, evals.jac == tr.jac_calls - old(tr).jac_calls,
                evals.ode <= (3 * max_newton + 4) * (steps.total + 1), evals.jac <= steps.total + 1, evals.lu <= 4 * (steps.total + 7),
                tr.solout_calls > 0 ==> tr.last_x == x,
                solout is Some == so_some, solout is None ==> tr.solout_calls == 0,
            ensures (status is UserInterrupt) == tr.stopped, solout is Some == so_some,
                evals.ode == tr.ode_calls - old(tr).ode_calls, evals.jac == tr.jac_calls - old(tr).jac_calls,
                solout is Some ==> tr.solout_calls == steps.accepted + 1,
            decreases nmax + 2 - steps.total, 6 - singular_count,
        {
            if call_jac {
                // Jacobian and mass at (x, y)
                f.jac(x, &y, &mut jac, Tracked(tr));
                evals.jac = evals.jac + (1);
            }

            if call_decomp {
                // Build E1 and E2 matrices
                let fac1 = U1 / h;
                let alphn = ALPH / h;
                let betan = BETA / h;
                for r in 0..n
                    invariant y.len() == n, z1.len() == n, z2.len() == n, z3.len() == n, f0.len() == n, f1.len() == n, f2.len() == n, f3.len() == n, scal.len() == n, cont.len() == 4 * n, ip1.len() == n, ip2.len() == n, e1.n == n, e1.m == n, e2r.n == n, e2r.m == n, e2i.n == n, e2i.m == n, jac.n == n, jac.m == n, mass.n == n, mass.m == n, rtol.ok(n as nat), atol.ok(n as nat), nind1 + nind2 + nind3 == n, n >= 1, nind1 < 0x7fff_0000, nind2 < 0x7fff_0000, nind3 < 0x7fff_0000,
                {
                    for c in 0..n
                        invariant y.len() == n, z1.len() == n, z2.len() == n, z3.len() == n, f0.len() == n, f1.len() == n, f2.len() == n, f3.len() == n, scal.len() == n, cont.len() == 4 * n, ip1.len() == n, ip2.len() == n, e1.n == n, e1.m == n, e2r.n == n, e2r.m == n, e2i.n == n, e2i.m == n, jac.n == n, jac.m == n, mass.n == n, mass.m == n, rtol.ok(n as nat), atol.ok(n as nat), nind1 + nind2 + nind3 == n, n >= 1, nind1 < 0x7fff_0000, nind2 < 0x7fff_0000, nind3 < 0x7fff_0000,
                    {
                        // E1 = (U1/h)·M − J
                        *e1.index_mut((r, c)) = (*mass.index((r, c))) * fac1 - (*jac.index((r, c)));
                        *e2r.index_mut((r, c)) = (*mass.index((r, c))) * alphn - (*jac.index((r, c)));
                        *e2i.index_mut((r, c)) = (*mass.index((r, c))) * betan;
                    }
                }

                // LU decomp of real matrix E1
                evals.lu = evals.lu + (1);
                if lu_decomp(&mut e1, &mut ip1).is_err() {
                    singular_count = singular_count + (1);
                    if singular_count > 5 {
                        status = Status::SingularMatrix;
                        break 'main;
                    }
                    h = h * (0.5);
                    hhfac = 0.5;
                    reject = true;
                    last = false;
                    continue 'main;
                }

                // LU decomp of complex matrix E2
                evals.lu = evals.lu + (1);
                if lu_decomp_complex(&mut e2r, &mut e2i, &mut ip2).is_err() {
                    singular_count = singular_count + (1);
                    if singular_count > 5 {
                        status = Status::SingularMatrix;
                        break 'main;
                    }
                    h = h * (0.5);
                    hhfac = 0.5;
                    reject = true;
                    last = false;
                    continue 'main;
                }
            }

            // --- Integration step ---
            steps.total = steps.total + (1);

            // Max step guard
            if steps.total > nmax {
                status = Status::NeedLargerNMax;
                break;
            }

            // Step size guard
            if 0.1 * h.abs() <= x.abs() * uround {
                status = Status::StepSizeTooSmall;
                break;
            }

            // Account for index-2 and index-3 algebraic variables
            if nind2 > 0 {
                for i in nind1..(nind1 + nind2)
                    invariant y.len() == n, z1.len() == n, z2.len() == n, z3.len() == n, f0.len() == n, f1.len() == n, f2.len() == n, f3.len() == n, scal.len() == n, cont.len() == 4 * n, ip1.len() == n, ip2.len() == n, e1.n == n, e1.m == n, e2r.n == n, e2r.m == n, e2i.n == n, e2i.m == n, jac.n == n, jac.m == n, mass.n == n, mass.m == n, rtol.ok(n as nat), atol.ok(n as nat), nind1 + nind2 + nind3 == n, n >= 1, nind1 < 0x7fff_0000, nind2 < 0x7fff_0000, nind3 < 0x7fff_0000,
                {
                    scal[i] = scal[i] / (hhfac);
                }
            }
            if nind3 > 0 {
                for i in (nind1 + nind2)..(nind1 + nind2 + nind3)
                    invariant y.len() == n, z1.len() == n, z2.len() == n, z3.len() == n, f0.len() == n, f1.len() == n, f2.len() == n, f3.len() == n, scal.len() == n, cont.len() == 4 * n, ip1.len() == n, ip2.len() == n, e1.n == n, e1.m == n, e2r.n == n, e2r.m == n, e2i.n == n, e2i.m == n, jac.n == n, jac.m == n, mass.n == n, mass.m == n, rtol.ok(n as nat), atol.ok(n as nat), nind1 + nind2 + nind3 == n, n >= 1, nind1 < 0x7fff_0000, nind2 < 0x7fff_0000, nind3 < 0x7fff_0000,
                {
                    scal[i] = scal[i] / (hhfac.powi(2));
                }
            }
            xph = x + h;

            // Initialize stage increments and transforms
            if first {
                for i in 0..n
                    invariant y.len() == n, z1.len() == n, z2.len() == n, z3.len() == n, f0.len() == n, f1.len() == n, f2.len() == n, f3.len() == n, scal.len() == n, cont.len() == 4 * n, ip1.len() == n, ip2.len() == n, e1.n == n, e1.m == n, e2r.n == n, e2r.m == n, e2i.n == n, e2i.m == n, jac.n == n, jac.m == n, mass.n == n, mass.m == n, rtol.ok(n as nat), atol.ok(n as nat), nind1 + nind2 + nind3 == n, n >= 1, nind1 < 0x7fff_0000, nind2 < 0x7fff_0000, nind3 < 0x7fff_0000,
                {
                    z1[i] = 0.0;
                    z2[i] = 0.0;
                    z3[i] = 0.0;
                    f1[i] = 0.0;
                    f2[i] = 0.0;
                    f3[i] = 0.0;
                }
            } else {
                let c3q = h / hold;
                let c1q = C1 * c3q;
                let c2q = C2 * c3q;

                for i in 0..n

                    invariant y.len() == n, z1.len() == n, z2.len() == n, z3.len() == n, f0.len() == n, f1.len() == n, f2.len() == n, f3.len() == n, scal.len() == n, cont.len() == 4 * n, ip1.len() == n, ip2.len() == n, e1.n == n, e1.m == n, e2r.n == n, e2r.m == n, e2i.n == n, e2i.m == n, jac.n == n, jac.m == n, mass.n == n, mass.m == n, rtol.ok(n as nat), atol.ok(n as nat), nind1 + nind2 + nind3 == n, n >= 1, nind1 < 0x7fff_0000, nind2 < 0x7fff_0000, nind3 < 0x7fff_0000,

                {
                    let ak1 = cont[n + i];
                    let ak2 = cont[2 * n + i];
                    let ak3 = cont[3 * n + i];

                    z1[i] = c1q * (ak1 + (c1q - C2M1) * (ak2 + (c1q - C1M1) * ak3));
                    z2[i] = c2q * (ak1 + (c2q - C2M1) * (ak2 + (c2q - C1M1) * ak3));
                    z3[i] = c3q * (ak1 + (c3q - C2M1) * (ak2 + (c3q - C1M1) * ak3));

                    f1[i] = z1[i] * TI00 + z2[i] * TI01 + z3[i] * TI02;
                    f2[i] = z1[i] * TI10 + z2[i] * TI11 + z3[i] * TI12;
                    f3[i] = z1[i] * TI20 + z2[i] * TI21 + z3[i] * TI22;
                }
            }

            // --- Loop for simplified newton iteration ---
            faccon = faccon.max(uround).powf(0.8);
            theta = thet.abs();
            let mut newt_iter = 0;
            #[verifier::loop_isolation(false)]
            'newton: loop
                invariant y.len() == n, z1.len() == n, z2.len() == n, z3.len() == n, f0.len() == n, f1.len() == n, f2.len() == n, f3.len() == n, scal.len() == n, cont.len() == 4 * n, ip1.len() == n, ip2.len() == n, e1.n == n, e1.m == n, e2r.n == n, e2r.m == n, e2i.n == n, e2i.m == n, jac.n == n, jac.m == n, mass.n == n, mass.m == n, rtol.ok(n as nat), atol.ok(n as nat), nind1 + nind2 + nind3 == n, n >= 1, nind1 < 0x7fff_0000, nind2 < 0x7fff_0000, nind3 < 0x7fff_0000, nmax == self.max_steps, nmax < 0x7fff_0000, max_newton == self.newton_maxiter, 1 <= max_newton < 0x7fff_0000,
                steps.total <= nmax + 1, steps.accepted <= steps.total, steps.rejected <= steps.total, 0 <= singular_count <= 5,
                evals.ode == tr.ode_calls - old(tr).ode_calls, evals.jac == tr.jac_calls - old(tr).jac_calls,
                evals.ode <= (3 * max_newton + 4) * (steps.total + 1), evals.jac <= steps.total + 1, evals.lu <= 4 * (steps.total + 7),
                tr.solout_calls > 0 ==> tr.last_x == x,
                solout is Some == so_some, solout is None ==> tr.solout_calls == 0, !tr.stopped, solout is Some ==> tr.solout_calls == steps.accepted + 1, 0 <= newt_iter <= max_newton, steps.total >= 1,
                decreases max_newton + 1 - newt_iter,
            {
                if newt_iter >= max_newton {
                    singular_count = singular_count + (1);
                    if singular_count > 5 {
                        status = Status::SingularMatrix;
                        break 'main;
                    }
                    h = h * (0.5);
                    hhfac = 0.5;
                    reject = true;
                    last = false;
                    call_decomp = true;
                    continue 'main;
                }

                // --- Compute the stages ---
                for i in 0..n
                    invariant y.len() == n, z1.len() == n, z2.len() == n, z3.len() == n, f0.len() == n, f1.len() == n, f2.len() == n, f3.len() == n, scal.len() == n, cont.len() == 4 * n, ip1.len() == n, ip2.len() == n, e1.n == n, e1.m == n, e2r.n == n, e2r.m == n, e2i.n == n, e2i.m == n, jac.n == n, jac.m == n, mass.n == n, mass.m == n, rtol.ok(n as nat), atol.ok(n as nat), nind1 + nind2 + nind3 == n, n >= 1, nind1 < 0x7fff_0000, nind2 < 0x7fff_0000, nind3 < 0x7fff_0000,
                {
                    cont[i] = y[i] + z1[i];
                }
                f.ode(x + C1 * h, &cont[..n], &mut z1, Tracked(tr));
                for i in 0..n
                    invariant y.len() == n, z1.len() == n, z2.len() == n, z3.len() == n, f0.len() == n, f1.len() == n, f2.len() == n, f3.len() == n, scal.len() == n, cont.len() == 4 * n, ip1.len() == n, ip2.len() == n, e1.n == n, e1.m == n, e2r.n == n, e2r.m == n, e2i.n == n, e2i.m == n, jac.n == n, jac.m == n, mass.n == n, mass.m == n, rtol.ok(n as nat), atol.ok(n as nat), nind1 + nind2 + nind3 == n, n >= 1, nind1 < 0x7fff_0000, nind2 < 0x7fff_0000, nind3 < 0x7fff_0000,
                {
                    cont[i] = y[i] + z2[i];
                }
                f.ode(x + C2 * h, &cont[..n], &mut z2, Tracked(tr));
                for i in 0..n
                    invariant y.len() == n, z1.len() == n, z2.len() == n, z3.len() == n, f0.len() == n, f1.len() == n, f2.len() == n, f3.len() == n, scal.len() == n, cont.len() == 4 * n, ip1.len() == n, ip2.len() == n, e1.n == n, e1.m == n, e2r.n == n, e2r.m == n, e2i.n == n, e2i.m == n, jac.n == n, jac.m == n, mass.n == n, mass.m == n, rtol.ok(n as nat), atol.ok(n as nat), nind1 + nind2 + nind3 == n, n >= 1, nind1 < 0x7fff_0000, nind2 < 0x7fff_0000, nind3 < 0x7fff_0000,
                {
                    cont[i] = y[i] + z3[i];
                }
                f.ode(xph, &cont[..n], &mut z3, Tracked(tr));
                evals.ode = evals.ode + (3);

                // --- Solve the linear systems ---
                for i in 0..n
                    invariant y.len() == n, z1.len() == n, z2.len() == n, z3.len() == n, f0.len() == n, f1.len() == n, f2.len() == n, f3.len() == n, scal.len() == n, cont.len() == 4 * n, ip1.len() == n, ip2.len() == n, e1.n == n, e1.m == n, e2r.n == n, e2r.m == n, e2i.n == n, e2i.m == n, jac.n == n, jac.m == n, mass.n == n, mass.m == n, rtol.ok(n as nat), atol.ok(n as nat), nind1 + nind2 + nind3 == n, n >= 1, nind1 < 0x7fff_0000, nind2 < 0x7fff_0000, nind3 < 0x7fff_0000,
                {
                    let a1 = z1[i];
                    let a2 = z2[i];
                    let a3 = z3[i];
                    z1[i] = TI00 * a1 + TI01 * a2 + TI02 * a3;
                    z2[i] = TI10 * a1 + TI11 * a2 + TI12 * a3;
                    z3[i] = TI20 * a1 + TI21 * a2 + TI22 * a3;
                }

                let fac1 = U1 / h;
                let alphn = ALPH / h;
                let betan = BETA / h;

                // Add mass contributions from current F
                for i in 0..n
                    invariant y.len() == n, z1.len() == n, z2.len() == n, z3.len() == n, f0.len() == n, f1.len() == n, f2.len() == n, f3.len() == n, scal.len() == n, cont.len() == 4 * n, ip1.len() == n, ip2.len() == n, e1.n == n, e1.m == n, e2r.n == n, e2r.m == n, e2i.n == n, e2i.m == n, jac.n == n, jac.m == n, mass.n == n, mass.m == n, rtol.ok(n as nat), atol.ok(n as nat), nind1 + nind2 + nind3 == n, n >= 1, nind1 < 0x7fff_0000, nind2 < 0x7fff_0000, nind3 < 0x7fff_0000,
                {
                    let mut sum1 = 0.0;
                    let mut sum2 = 0.0;
                    let mut sum3 = 0.0;
                    for j in 0..n
                        invariant y.len() == n, z1.len() == n, z2.len() == n, z3.len() == n, f0.len() == n, f1.len() == n, f2.len() == n, f3.len() == n, scal.len() == n, cont.len() == 4 * n, ip1.len() == n, ip2.len() == n, e1.n == n, e1.m == n, e2r.n == n, e2r.m == n, e2i.n == n, e2i.m == n, jac.n == n, jac.m == n, mass.n == n, mass.m == n, rtol.ok(n as nat), atol.ok(n as nat), nind1 + nind2 + nind3 == n, n >= 1, nind1 < 0x7fff_0000, nind2 < 0x7fff_0000, nind3 < 0x7fff_0000,
                    {
                        let mij = (*mass.index((i, j)));
                        sum1 = sum1 - (mij * f1[j]);
                        sum2 = sum2 - (mij * f2[j]);
                        sum3 = sum3 - (mij * f3[j]);
                    }
                    z1[i] = z1[i] + (sum1 * fac1);
                    z2[i] = z2[i] + sum2 * alphn - sum3 * betan;
                    z3[i] = z3[i] + sum3 * alphn + sum2 * betan;
                }

                // Solve E1 * Z1 = RHS1 (real system)
                lin_solve(&e1, &mut z1, &ip1);

                // Solve E2 * [Z2; Z3] = [RHS2; RHS3] (complex system)
                lin_solve_complex(&e2r, &e2i, &mut z2, &mut z3, &ip2);

                newt_iter = newt_iter + (1);

                // Compute dynamic norm
                dyno = 0.0;
                for i in 0..n
                    invariant y.len() == n, z1.len() == n, z2.len() == n, z3.len() == n, f0.len() == n, f1.len() == n, f2.len() == n, f3.len() == n, scal.len() == n, cont.len() == 4 * n, ip1.len() == n, ip2.len() == n, e1.n == n, e1.m == n, e2r.n == n, e2r.m == n, e2i.n == n, e2i.m == n, jac.n == n, jac.m == n, mass.n == n, mass.m == n, rtol.ok(n as nat), atol.ok(n as nat), nind1 + nind2 + nind3 == n, n >= 1, nind1 < 0x7fff_0000, nind2 < 0x7fff_0000, nind3 < 0x7fff_0000,
                {
                    let denom = scal[i];
                    let v1 = z1[i] / denom;
                    let v2 = z2[i] / denom;
                    let v3 = z3[i] / denom;
                    dyno = dyno + (v1 * v1 + v2 * v2 + v3 * v3);
                }
                dyno = (dyno / (3.0 * to_f(n))).sqrt();

                // Bad convergence or number of iterations is too large
                if newt_iter > 1 && newt_iter < max_newton {
                    let thq = dyno / dynold;
                    if newt_iter == 2 {
                        theta = thq;
                    } else {
                        theta = (thq * thqold).sqrt();
                    }
                    thqold = thq;
                    if theta < 0.99 {
                        faccon = theta / (1.0 - theta);
                        let remaining_iters = to_f(max_newton - 1 - newt_iter);
                        let dyth = faccon * dyno * theta.powf(remaining_iters) / newton_tol;
                        if dyth >= 1.0 {
                            let qnewt = 1e-4f64.max(20.0f64.min(dyth));
                            let exponent = vneg(1.0) / (4.0 + remaining_iters);
                            hhfac = 0.8 * qnewt.powf(exponent);
                            h = h * (hhfac);
                            steps.rejected = steps.rejected + (1);
                            last = false;
                            break 'newton;
                        }
                    } else {
                        // Unexpected step rejection - continue with reduced step
                        singular_count = singular_count + (1);
                        if singular_count > 5 {
                            status = Status::SingularMatrix;
                            break 'main;
                        }
                        h = h * (0.5);
                        hhfac = 0.5;
                        reject = true;
                        last = false;
                        call_decomp = true;
                        continue 'main;
                    }
                }
                dynold = dyno.max(uround);

                // Compute new F and Z
                for i in 0..n
                    invariant y.len() == n, z1.len() == n, z2.len() == n, z3.len() == n, f0.len() == n, f1.len() == n, f2.len() == n, f3.len() == n, scal.len() == n, cont.len() == 4 * n, ip1.len() == n, ip2.len() == n, e1.n == n, e1.m == n, e2r.n == n, e2r.m == n, e2i.n == n, e2i.m == n, jac.n == n, jac.m == n, mass.n == n, mass.m == n, rtol.ok(n as nat), atol.ok(n as nat), nind1 + nind2 + nind3 == n, n >= 1, nind1 < 0x7fff_0000, nind2 < 0x7fff_0000, nind3 < 0x7fff_0000,
                {
                    f1[i] = f1[i] + (z1[i]);
                    f2[i] = f2[i] + (z2[i]);
                    f3[i] = f3[i] + (z3[i]);
                }

                for i in 0..n

                    invariant y.len() == n, z1.len() == n, z2.len() == n, z3.len() == n, f0.len() == n, f1.len() == n, f2.len() == n, f3.len() == n, scal.len() == n, cont.len() == 4 * n, ip1.len() == n, ip2.len() == n, e1.n == n, e1.m == n, e2r.n == n, e2r.m == n, e2i.n == n, e2i.m == n, jac.n == n, jac.m == n, mass.n == n, mass.m == n, rtol.ok(n as nat), atol.ok(n as nat), nind1 + nind2 + nind3 == n, n >= 1, nind1 < 0x7fff_0000, nind2 < 0x7fff_0000, nind3 < 0x7fff_0000,

                {
                    z1[i] = f1[i] * T00 + f2[i] * T01 + f3[i] * T02;
                    z2[i] = f1[i] * T10 + f2[i] * T11 + f3[i] * T12;
                    z3[i] = f1[i] * T20 + f2[i];
                }

                // Check Newton tolerance
                if faccon * dyno > newton_tol {
                    continue 'newton;
                } else {
                    break 'newton;
                }
            }

            // --- Error estimation ---
            let hee1 = DD1 / h;
            let hee2 = DD2 / h;
            let hee3 = DD3 / h;
            for i in 0..n
                invariant y.len() == n, z1.len() == n, z2.len() == n, z3.len() == n, f0.len() == n, f1.len() == n, f2.len() == n, f3.len() == n, scal.len() == n, cont.len() == 4 * n, ip1.len() == n, ip2.len() == n, e1.n == n, e1.m == n, e2r.n == n, e2r.m == n, e2i.n == n, e2i.m == n, jac.n == n, jac.m == n, mass.n == n, mass.m == n, rtol.ok(n as nat), atol.ok(n as nat), nind1 + nind2 + nind3 == n, n >= 1, nind1 < 0x7fff_0000, nind2 < 0x7fff_0000, nind3 < 0x7fff_0000,
            {
                f1[i] = hee1 * z1[i] + hee2 * z2[i] + hee3 * z3[i];
            }
            for i in 0..n
                invariant y.len() == n, z1.len() == n, z2.len() == n, z3.len() == n, f0.len() == n, f1.len() == n, f2.len() == n, f3.len() == n, scal.len() == n, cont.len() == 4 * n, ip1.len() == n, ip2.len() == n, e1.n == n, e1.m == n, e2r.n == n, e2r.m == n, e2i.n == n, e2i.m == n, jac.n == n, jac.m == n, mass.n == n, mass.m == n, rtol.ok(n as nat), atol.ok(n as nat), nind1 + nind2 + nind3 == n, n >= 1, nind1 < 0x7fff_0000, nind2 < 0x7fff_0000, nind3 < 0x7fff_0000,
            {
                let mut sum = 0.0;
                for j in 0..n
                    invariant y.len() == n, z1.len() == n, z2.len() == n, z3.len() == n, f0.len() == n, f1.len() == n, f2.len() == n, f3.len() == n, scal.len() == n, cont.len() == 4 * n, ip1.len() == n, ip2.len() == n, e1.n == n, e1.m == n, e2r.n == n, e2r.m == n, e2i.n == n, e2i.m == n, jac.n == n, jac.m == n, mass.n == n, mass.m == n, rtol.ok(n as nat), atol.ok(n as nat), nind1 + nind2 + nind3 == n, n >= 1, nind1 < 0x7fff_0000, nind2 < 0x7fff_0000, nind3 < 0x7fff_0000,
                {
                    sum = sum + ((*mass.index((i, j))) * f1[j]);
                }
                f2[i] = sum;
                cont[i] = sum + f0[i];
            }
            lin_solve(&e1, &mut cont, &ip1);
            evals.lu = evals.lu + (1);

            // Error estimate
            err = 0.0;
            for i in 0..n
                invariant y.len() == n, z1.len() == n, z2.len() == n, z3.len() == n, f0.len() == n, f1.len() == n, f2.len() == n, f3.len() == n, scal.len() == n, cont.len() == 4 * n, ip1.len() == n, ip2.len() == n, e1.n == n, e1.m == n, e2r.n == n, e2r.m == n, e2i.n == n, e2i.m == n, jac.n == n, jac.m == n, mass.n == n, mass.m == n, rtol.ok(n as nat), atol.ok(n as nat), nind1 + nind2 + nind3 == n, n >= 1, nind1 < 0x7fff_0000, nind2 < 0x7fff_0000, nind3 < 0x7fff_0000,
            {
                let r = cont[i] / scal[i];
                err = err + (r * r);
            }
            err = (err / to_f(n)).sqrt().max(1e-10);

            // Optional refinement on first/rejected step
            if err >= 1.0 && (first || reject) {
                for i in 0..n
                    invariant y.len() == n, z1.len() == n, z2.len() == n, z3.len() == n, f0.len() == n, f1.len() == n, f2.len() == n, f3.len() == n, scal.len() == n, cont.len() == 4 * n, ip1.len() == n, ip2.len() == n, e1.n == n, e1.m == n, e2r.n == n, e2r.m == n, e2i.n == n, e2i.m == n, jac.n == n, jac.m == n, mass.n == n, mass.m == n, rtol.ok(n as nat), atol.ok(n as nat), nind1 + nind2 + nind3 == n, n >= 1, nind1 < 0x7fff_0000, nind2 < 0x7fff_0000, nind3 < 0x7fff_0000,
                {
                    cont[i] = cont[i] + (y[i]);
                }
                f.ode(x, &cont[..n], &mut f1, Tracked(tr));
                evals.ode = evals.ode + (1);

                // contv = f1 + f2; solve again
                for i in 0..n
                    invariant y.len() == n, z1.len() == n, z2.len() == n, z3.len() == n, f0.len() == n, f1.len() == n, f2.len() == n, f3.len() == n, scal.len() == n, cont.len() == 4 * n, ip1.len() == n, ip2.len() == n, e1.n == n, e1.m == n, e2r.n == n, e2r.m == n, e2i.n == n, e2i.m == n, jac.n == n, jac.m == n, mass.n == n, mass.m == n, rtol.ok(n as nat), atol.ok(n as nat), nind1 + nind2 + nind3 == n, n >= 1, nind1 < 0x7fff_0000, nind2 < 0x7fff_0000, nind3 < 0x7fff_0000,
                {
                    cont[i] = f1[i] + f2[i];
                }
                lin_solve(&e1, &mut cont, &ip1);

                // Recompute error
                err = 0.0;
                for i in 0..n
                    invariant y.len() == n, z1.len() == n, z2.len() == n, z3.len() == n, f0.len() == n, f1.len() == n, f2.len() == n, f3.len() == n, scal.len() == n, cont.len() == 4 * n, ip1.len() == n, ip2.len() == n, e1.n == n, e1.m == n, e2r.n == n, e2r.m == n, e2i.n == n, e2i.m == n, jac.n == n, jac.m == n, mass.n == n, mass.m == n, rtol.ok(n as nat), atol.ok(n as nat), nind1 + nind2 + nind3 == n, n >= 1, nind1 < 0x7fff_0000, nind2 < 0x7fff_0000, nind3 < 0x7fff_0000,
                {
                    let r = cont[i] / scal[i];
                    err = err + (r * r);
                }
                err = (err / to_f(n)).sqrt().max(1e-10);
            }

            // --- Computation of hnew ---
            fac = safety_factor.min(cfac / (to_f(newt_iter) + 2.0 * to_f(max_newton)));
            quot = facr.max(facl.min(err.powf(0.25) / fac));
            hnew = h / quot;

            if err <= 1.0 {
                // --- Step accepted ---
                steps.accepted = steps.accepted + (1);
                first = false;

                // Predictive Gustafsson controller (use previous accepted step if available)
                if predictive {
                    if steps.accepted > 1 {
                        let mut facgus = (h_acc / h) * (err * err / err_acc).powf(0.25) / safety_factor;
                        facgus = facr.max(facl.min(facgus));
                        quot = quot.max(facgus);
                        hnew = h / quot;
                    }
                    h_acc = h;
                    err_acc = err.max(1e-2);
                }

                // Update solution
                xold = x;
                hold = h;
                x = xph;

                // Dense output coefficients and update y
                for i in 0..n
                    invariant y.len() == n, z1.len() == n, z2.len() == n, z3.len() == n, f0.len() == n, f1.len() == n, f2.len() == n, f3.len() == n, scal.len() == n, cont.len() == 4 * n, ip1.len() == n, ip2.len() == n, e1.n == n, e1.m == n, e2r.n == n, e2r.m == n, e2i.n == n, e2i.m == n, jac.n == n, jac.m == n, mass.n == n, mass.m == n, rtol.ok(n as nat), atol.ok(n as nat), nind1 + nind2 + nind3 == n, n >= 1, nind1 < 0x7fff_0000, nind2 < 0x7fff_0000, nind3 < 0x7fff_0000,
                {
                    y[i] = y[i] + (z3[i]);
                    let ak = (z1[i] - z2[i]) / C1MC2;
                    let acont3 = (ak - (z1[i] / C1)) / C2;
                    cont[0 * n + i] = y[i];
                    cont[n + i] = (z2[i] - z3[i]) / C2M1;
                    cont[2 * n + i] = (ak - cont[n + i]) / C1M1;
                    cont[3 * n + i] = cont[2 * n + i] - acont3;
                }

                // New derivative at x+h
                f.ode(x, &y, &mut f0, Tracked(tr));
                evals.ode = evals.ode + (1);

                // Compute error scale
                for i in 0..n
                    invariant y.len() == n, z1.len() == n, z2.len() == n, z3.len() == n, f0.len() == n, f1.len() == n, f2.len() == n, f3.len() == n, scal.len() == n, cont.len() == 4 * n, ip1.len() == n, ip2.len() == n, e1.n == n, e1.m == n, e2r.n == n, e2r.m == n, e2i.n == n, e2i.m == n, jac.n == n, jac.m == n, mass.n == n, mass.m == n, rtol.ok(n as nat), atol.ok(n as nat), nind1 + nind2 + nind3 == n, n >= 1, nind1 < 0x7fff_0000, nind2 < 0x7fff_0000, nind3 < 0x7fff_0000,
                {
                    scal[i] = (*atol.index(i)) + (*rtol.index(i)) * y[i].abs();
                }

                // Callback with optional dense interpolant
                if let Some(sol) = solout.as_mut() {
                    // Build interpolant if requested or an event output is due
                    let event = xout.map_or(false, |xo| xo <= x);
                    let interpolant = if self.dense_output || event {
                        Some(StepInterpolant::new(&cont, xold, h))
                    } else {
                        None
                    };
                    match sol.solout(xold, &mut x, &mut y, interpolant.as_ref(), Tracked(tr)) {
                        ControlFlag::Continue => {}
                        ControlFlag::Interrupt => {
                            status = Status::UserInterrupt;
                            break 'main;
                        }
                        ControlFlag::ModifiedSolution => {
                            // Update derivatives at new (x, y).
                            f.ode(x, &y, &mut f0, Tracked(tr));
                            evals.ode = evals.ode + (1);
                        }
                        ControlFlag::XOut(xo) => {
                            xout = Some(xo);
                        }
                    }
                }

                if last {
                    h = hnew;
                    status = Status::Success;
                    break 'main;
                }

                // Step accepted so we can reset singular counter
                singular_count = 0;

                // Constrain new step size
                hnew = hnew.abs().clamp(hmin, hmax) * posneg;

                // Prevent oscillations due to previous step rejections
                if reject {
                    hnew = posneg * hnew.abs().min(h.abs());
                    reject = false;
                }

                // Sophisticated step size control
                if (x + hnew / quot1 - xend) * posneg >= 0.0 {
                    h = xend - x;
                    last = true;
                } else {
                    qt = hnew / h;
                    hhfac = h;
                    if theta < thet && qt > quot1 && qt < quot2 {
                        call_decomp = false;
                        call_jac = false;
                        continue 'main;
                    }
                    h = hnew;
                }
                hhfac = h;
                call_decomp = true;
                call_jac = theta >= thet;
            } else {
                // --- Step rejected ---
                reject = true;
                call_decomp = true;
                last = false;

                // If first step, reduce more aggressively
                if first {
                    h = h * (0.1);
                    hhfac = 0.1;
                } else {
                    steps.rejected = steps.rejected + (1);
                    hhfac = hnew / h;
                    h = hnew;
                }
            }
        }

        Ok(IntegrationResult::new(h, status, evals, steps))
    }

    #[verifier::exec_allows_no_decreases_clause]
    pub fn interpolate(xi: Float, yi: &mut [Float], cont: &[Float], xold: Float, h: Float) {
        let n = cont.len() / 4;
        // s = (xi - (xold + h)) / h
        let s = (xi - (xold + h)) / h;
        let c0 = &cont[0 * n..n];
        let c1 = &cont[n..2 * n];
        let c2 = &cont[2 * n..3 * n];
        let c3 = &cont[3 * n..4 * n];
        for i in 0..n {
            yi[i] = c0[i] + s * (c1[i] + (s - C2M1) * (c2[i] + (s - C1M1) * c3[i]));
        }
    }
}

// --- Radau IIA(5) coefficients ---
#[verifier::external_body] exec const C1: Float = 0.155_051_025_721_682_2;
#[verifier::external_body] exec const C2: Float = 0.644_948_974_278_317_8;
#[verifier::external_body] exec const C1M1: Float = -0.844_948_974_278_317_8;
#[verifier::external_body] exec const C2M1: Float = -0.355_051_025_721_682_2;
#[verifier::external_body] exec const C1MC2: Float = -0.489_897_948_556_635_6;
#[verifier::external_body] exec const DD1: Float = -10.048_809_399_827_416;
#[verifier::external_body] exec const DD2: Float = 1.382_142_733_160_749;
#[verifier::external_body] exec const DD3: Float = -0.333_333_333_333_333_3;
#[verifier::external_body] exec const U1: Float = 3.637_834_252_744_496;
#[verifier::external_body] exec const ALPH: Float = 2.681_082_873_627_752_3;
#[verifier::external_body] exec const BETA: Float = 3.050_430_199_247_410_5;

// Transformation matrix
#[verifier::external_body] exec const T00: Float = 9.123_239_487_089_295E-2;
#[verifier::external_body] exec const T01: Float = -1.412_552_950_209_542E-1;
#[verifier::external_body] exec const T02: Float = -3.002_919_410_514_742_4E-2;
#[verifier::external_body] exec const T10: Float = 2.417_179_327_071_07E-1;
#[verifier::external_body] exec const T11: Float = 2.041_293_522_937_999_4E-1;
#[verifier::external_body] exec const T12: Float = 3.829_421_127_572_619E-1;
#[verifier::external_body] exec const T20: Float = 9.660_481_826_150_93E-1;

// Inverse transformation matrix
#[verifier::external_body] exec const TI00: Float = 4.325_579_890_063_155;
#[verifier::external_body] exec const TI01: Float = 3.391_992_518_158_098_4E-1;
#[verifier::external_body] exec const TI02: Float = 5.417_705_399_358_749E-1;
#[verifier::external_body] exec const TI10: Float = -4.178_718_591_551_905;
#[verifier::external_body] exec const TI11: Float = -3.276_828_207_610_623_7E-1;
#[verifier::external_body] exec const TI12: Float = 4.766_235_545_005_504_4E-1;
#[verifier::external_body] exec const TI20: Float = -5.028_726_349_457_868E-1;
#[verifier::external_body] exec const TI21: Float = 2.571_926_949_855_605;
#[verifier::external_body] exec const TI22: Float = -5.960_392_048_282_249E-1;

} // verus!
fn main() {}
