import re
from fractions import Fraction as Fr
from functools import lru_cache
def consts(path):
    src=open(path).read(); c={}
    for m in re.finditer(r'^const (\w+): Float = ([^;]+);', src, re.M):
        e=m.group(2).replace('_','').strip()
        if '/' in e:
            a,b=e.split('/'); c[m.group(1)]=Fr(a.strip())/Fr(b.strip())
        else: c[m.group(1)]=Fr(e)
    return c
@lru_cache(None)
def trees(n):
    if n==1: return [()]
    res=set()
    def rec(rem,mx,cur):
        if rem==0: res.add(tuple(sorted(cur))); return
        for s in range(min(rem,mx),0,-1):
            for t in trees(s): rec(rem-s,s,cur+[t])
    rec(n-1,n-1,[]); return sorted(res)
def order(t): return 1+sum(order(s) for s in t)
def gamma(t):
    g=order(t)
    for s in t: g*=gamma(s)
    return g
def check(name,A,w,S,target,maxp):
    # w: weights; target(t) -> expected value
    def phi(t,i):
        r=Fr(1)
        for s in t: r*=sum(A[i][j]*phi(s,j) for j in range(1,i))
        return r
    for p in range(1,maxp+1):
        worst=max(abs(float(sum(w[i]*phi(t,i) for i in range(1,S+1))-target(t))) for t in trees(p))
        print(f"  {name} order {p}: worst residual {worst:.3e}")
# DOPRI5
c=consts('/repo/src/methods/dopri5.rs'); S=7
A=[[Fr(0)]*(S+1) for _ in range(S+1)]
for k,v in c.items():
    m=re.fullmatch(r'A(\d)(\d)',k)
    if m: A[int(m.group(1))][int(m.group(2))]=v
b=[Fr(0)]*(S+1)
for j in range(1,7): b[j]=A[7][j]
print("DOPRI5 b (5th order):"); check("b",A,b,S,lambda t:Fr(1,gamma(t)),6)
e=[Fr(0)]*(S+1)
for k,v in c.items():
    m=re.fullmatch(r'E(\d)',k)
    if m: e[int(m.group(1))]=v
print("DOPRI5 e:"); check("e",A,e,S,lambda t:Fr(0),6)
# RK23
c=consts('/repo/src/methods/rk23.rs'); S=4
A=[[Fr(0)]*(S+1) for _ in range(S+1)]
A[2][1]=c['A21']; A[3][2]=c['A32']; A[4][1]=c['B1']; A[4][2]=c['B2']; A[4][3]=c['B3']
b=[Fr(0),c['B1'],c['B2'],c['B3'],Fr(0)]
print("RK23 b:"); check("b",A,b,S,lambda t:Fr(1,gamma(t)),4)
e=[Fr(0),c['E1'],c['E2'],c['E3'],c['E4']]
print("RK23 e:"); check("e",A,e,S,lambda t:Fr(0),4)
print("RK23 endpoints: 1+D21+D31-B1 =", 1+c['D21']+c['D31']-c['B1'], " D22+D32-B2=",c['D22']+c['D32']-c['B2'], " D23+D33-B3=",c['D23']+c['D33']-c['B3'], " D24+D34=",c['D24']+c['D34'])
# RK4
c=consts('/repo/src/methods/rk4.rs'); S=4
A=[[Fr(0)]*(S+1) for _ in range(S+1)]
A[2][1]=c['A21']; A[3][2]=c['A32']; A[4][3]=c['A43']
b=[Fr(0),c['B1'],c['B2'],c['B3'],c['B4']]
print("RK4 b:"); check("b",A,b,S,lambda t:Fr(1,gamma(t)),5)
# DOP853
c=consts('/repo/src/methods/dop853.rs'); S=12
A=[[Fr(0)]*(S+1) for _ in range(S+1)]
for k,v in c.items():
    m=re.fullmatch(r'A(\d+)',k)
    if not m: continue
    d=m.group(1); cand=[]
    for q in range(1,len(d)):
        i,j=int(d[:q]),int(d[q:])
        if 2<=i<=12 and 1<=j<i and not d[q:].startswith('0'): cand.append((i,j))
    if len(cand)==1: A[cand[0][0]][cand[0][1]]=v
er=[Fr(0)]*(S+1)
for nm,idx in [('ER1',1),('ER6',6),('ER7',7),('ER8',8),('ER9',9),('ER10',10),('ER11',11),('ER12',12)]: er[idx]=c[nm]
print("DOP853 er:"); check("er",A,er,S,lambda t:Fr(0),7)
b=[Fr(0)]*(S+1)
for nm,idx in [('B1',1),('B6',6),('B7',7),('B8',8),('B9',9),('B10',10),('B11',11),('B12',12)]: b[idx]=c[nm]
bh=list(b); bh[1]-=c['BH1']; bh[9]-=c['BH2']; bh[12]-=c['BH3']
print("DOP853 b-bh:"); check("bh",A,bh,S,lambda t:Fr(0),5)
# row sums c_i
cs={i:sum(A[i][j] for j in range(1,i)) for i in range(2,13)}
for i in range(2,12): print("  c%d-rowsum %.2e"%(i,float(cs[i]-c['C%d'%i])))
print("  c12 rowsum-1 %.2e"%float(cs[12]-1))
