use vstd::prelude::*;
verus! {
pub struct M { pub n: usize, pub data: Vec<f64> }
impl M {
    pub open spec fn wf(&self) -> bool { self.data@.len() == self.n * self.n }
    pub open spec fn at(&self, i: int, j: int) -> f64 { self.data@[i * self.n + j] }

    fn index_mut(&mut self, ij: (usize, usize)) -> (r: &mut f64)
        requires old(self).wf(), ij.0 < old(self).n, ij.1 < old(self).n,
        ensures
            *r == old(self).at(ij.0 as int, ij.1 as int),
            final(self).n == old(self).n,
            final(self).data@ == old(self).data@.update(ij.0 * old(self).n + ij.1, *final(r)),
    {
        let (i, j) = ij;
        assert(i * self.n + j < self.n * self.n) by (nonlinear_arith)
            requires i < self.n, j < self.n;
        assert(self.n * self.n <= usize::MAX);
        &mut self.data[i * self.n + j]
    }
}

fn user(a: &mut M, v: f64)
    requires old(a).wf(), old(a).n == 3
    ensures final(a).wf(), final(a).at(1, 2) == v, final(a).at(0, 0) == old(a).at(0, 0),
{
    *a.index_mut((1, 2)) = v;
}
}
fn main() {}
