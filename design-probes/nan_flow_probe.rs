#![allow(unused)]
use vstd::prelude::*;
use vstd::std_specs::ops::*;
use vstd::std_specs::cmp::*;
use core::cmp::Ordering;
verus! {
global size_of usize == 8;
pub mod defs { use vstd::prelude::*;
pub uninterp spec fn nan(x: f64) -> bool;
pub uninterp spec fn s_sqrt(x: f64) -> f64;
pub uninterp spec fn s_of_usize(x: usize) -> f64;
}
use defs::*;
pub mod fp { use vstd::prelude::*; use vstd::std_specs::ops::*; use vstd::std_specs::cmp::*; use core::cmp::Ordering; use super::defs::*;
pub broadcast axiom fn f64_add_req(a: f64, b: f64) ensures #[trigger] a.add_req(b);
pub broadcast axiom fn f64_mul_req(a: f64, b: f64) ensures #[trigger] a.mul_req(b);
pub broadcast axiom fn f64_div_req(a: f64, b: f64) ensures #[trigger] a.div_req(b);
pub axiom fn obeys() ensures <f64 as AddSpec<f64>>::obeys_add_spec(), <f64 as MulSpec<f64>>::obeys_mul_spec(), <f64 as DivSpec<f64>>::obeys_div_spec(),
    <f64 as PartialOrdSpec<f64>>::obeys_partial_cmp_spec();
// IEEE NaN propagation (each a loop-free CBMC lemma over all f64: probe `nan_prop` verified in 1.9 s)
pub broadcast axiom fn nan_add(a: f64, b: f64) ensures nan(a) || nan(b) ==> nan(#[trigger] a.add_spec(b));
pub broadcast axiom fn nan_mul(a: f64, b: f64) ensures nan(a) || nan(b) ==> nan(#[trigger] a.mul_spec(b));
pub broadcast axiom fn nan_div(a: f64, b: f64) ensures nan(a) || nan(b) ==> nan(#[trigger] a.div_spec(b));
pub broadcast axiom fn nan_sqrt(a: f64) ensures nan(a) ==> nan(#[trigger] s_sqrt(a));
pub broadcast axiom fn nan_cmp(a: f64, b: f64) ensures nan(a) || nan(b) ==> #[trigger] a.partial_cmp_spec(&b) is None;
pub broadcast group ops { f64_add_req, f64_mul_req, f64_div_req, nan_add, nan_mul, nan_div, nan_sqrt, nan_cmp }
}
broadcast use fp::ops;
pub assume_specification [f64::sqrt] (x: f64) -> (r: f64) ensures r == s_sqrt(x);
#[verifier::external_body] pub fn to_f(x: usize) -> (r: f64) ensures r == s_of_usize(x) { x as f64 }

/// region dopri5.rs "Error estimation" .. "if err <= 1.0" (verbatim statements; `sk` abstracted to a vector for the probe)
fn err_accept(k4: &Vec<f64>, sk: &Vec<f64>, n: usize) -> (accepted: bool)
    requires k4.len() == n, sk.len() == n
    ensures accepted ==> forall|j: int| 0 <= j < n ==> !nan(#[trigger] k4@[j].div_spec(sk@[j])),
{
    proof { fp::obeys(); }
            let mut err = 0.0_f64;
            for i in 0..n
                invariant k4.len() == n, sk.len() == n,
                    <f64 as AddSpec<f64>>::obeys_add_spec(), <f64 as MulSpec<f64>>::obeys_mul_spec(), <f64 as DivSpec<f64>>::obeys_div_spec(),
                    forall|j: int| 0 <= j < i ==> nan(#[trigger] k4@[j].div_spec(sk@[j])) ==> nan(err),
            {
                err = err + ((k4[i] / sk[i]) * (k4[i] / sk[i]));
            }
            err = (err / to_f(n)).sqrt();
            if err <= 1.0 { true } else { false }
}
proof fn vac() { assert(false); }
}
fn main() {}
