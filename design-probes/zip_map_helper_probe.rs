use vstd::prelude::*;
use vstd::std_specs::ops::*;
verus! {
pub mod fp { use vstd::prelude::*; use vstd::std_specs::ops::*;
pub broadcast axiom fn f64_add_req(a: f64, b: f64) ensures #[trigger] a.add_req(b);
pub axiom fn add_obeys() ensures <f64 as AddSpec<f64>>::obeys_add_spec();
pub broadcast group f64_ops { f64_add_req }
}
broadcast use fp::f64_ops;

/// trusted: `a.into_iter().zip(b).map(f).collect::<Vec<_>>()`
#[verifier::external_body]
pub fn vx_zip_map<T, U, V, F: Fn((T, U)) -> V>(a: Vec<T>, b: Vec<U>, f: F) -> (r: Vec<V>)
    requires forall|k: int| 0 <= k < a@.len() && k < b@.len() ==> f.requires(((#[trigger] a@[k], b@[k]),)),
    ensures r@.len() == (if a@.len() <= b@.len() { a@.len() } else { b@.len() }),
        forall|k: int| 0 <= k < r@.len() ==> f.ensures(((a@[k], b@[k]),), #[trigger] r@[k]),
{ a.into_iter().zip(b).map(f).collect() }

fn add_full(a: Vec<f64>, b: Vec<f64>) -> (data: Vec<f64>)
    requires a@.len() == b@.len()
    ensures data@.len() == a@.len(), forall|k: int| 0 <= k < a@.len() ==> #[trigger] data@[k] == a@[k].add_spec(b@[k]),
{
    proof { fp::add_obeys(); }
    let data = vx_zip_map(a, b, |p: (f64, f64)| -> (s: f64) ensures s == p.0.add_spec(p.1) { p.0 + p.1 });
    data
}
}
fn main() {}
