#![feature(const_destruct)]
#![allow(unused)]
use vstd::prelude::*;
use vstd::std_specs::ops::*;
verus! {
pub mod fp { use vstd::prelude::*; use vstd::std_specs::ops::*;
pub broadcast axiom fn f64_add_req(a: f64, b: f64) ensures #[trigger] a.add_req(b);
pub broadcast axiom fn f64_sub_req(a: f64, b: f64) ensures #[trigger] a.sub_req(b);
pub broadcast axiom fn f64_mul_req(a: f64, b: f64) ensures #[trigger] a.mul_req(b);
pub broadcast axiom fn f64_div_req(a: f64, b: f64) ensures #[trigger] a.div_req(b);
pub broadcast group f64_ops { f64_add_req, f64_sub_req, f64_mul_req, f64_div_req }
}
broadcast use fp::f64_ops;
pub type Float = f64;
global size_of usize == 8;
pub uninterp spec fn s_signum(x: f64) -> f64;
pub uninterp spec fn s_abs(x: f64) -> f64;
pub assume_specification [f64::signum] (x: f64) -> (r: f64) ensures r == s_signum(x);
pub assume_specification [f64::abs] (x: f64) -> (r: f64) ensures r == s_abs(x);
pub assume_specification<T: Clone> [<[T]>::to_vec] (s: &[T]) -> (r: Vec<T>) ensures r@ == s@;
#[verifier::allow(undeclared_external_trait)]
pub assume_specification<T, U, F: FnOnce(T) -> U> [Option::<T>::map_or] (o: Option<T>, d: U, f: F) -> (r: U)
    where U: core::marker::Destruct, F: core::marker::Destruct
    requires o is Some ==> f.requires((o->Some_0,))
    ensures o is None ==> r == d, o is Some ==> f.ensures((o->Some_0,), r);


pub uninterp spec fn s_of_usize(x: usize) -> f64;
#[verifier::external_body] pub fn to_f(x: usize) -> (r: f64) ensures r == s_of_usize(x) { x as f64 }
pub uninterp spec fn s_powf(x: f64, y: f64) -> f64;
pub assume_specification [f64::powf] (x: f64, y: f64) -> (r: f64) ensures r == s_powf(x, y);
pub uninterp spec fn s_sqrt(x: f64) -> f64;
pub assume_specification [f64::sqrt] (x: f64) -> (r: f64) ensures r == s_sqrt(x);
pub uninterp spec fn s_min(x: f64, y: f64) -> f64;
pub assume_specification [f64::min] (x: f64, y: f64) -> (r: f64) ensures r == s_min(x, y);
pub uninterp spec fn s_max(x: f64, y: f64) -> f64;
pub assume_specification [f64::max] (x: f64, y: f64) -> (r: f64) ensures r == s_max(x, y);
pub uninterp spec fn s_neg(x: f64) -> f64;
#[verifier::external_body] pub fn vneg(x: f64) -> (r: f64) ensures r == s_neg(x) { -x }
pub enum Tolerance { Scalar(Float), Vector(Vec<Float>) }
impl Tolerance {
  pub open spec fn ok(&self, n: nat) -> bool { match self { Tolerance::Scalar(_) => true, Tolerance::Vector(v) => v@.len() == n } }
  #[verifier::external_body] pub fn index(&self, i: usize) -> (r: &Float) requires self is Vector ==> i < self->Vector_0@.len() { unimplemented!() }
}

pub struct DOPRI5 { pub uround: Float, pub safety_factor: Float, pub scale_min: Float, pub scale_max: Float, pub beta: Float, pub max_step: Option<Float>, pub first_step: Option<Float>, pub max_steps: usize, pub stiff_test: usize, pub dense_output: bool }
pub enum Status { Success, UserInterrupt, NeedLargerNMax, StepSizeTooSmall, ProbablyStiff, SingularMatrix, PoorConvergence }
pub struct Evals { pub ode: usize, pub jac: usize, pub lu: usize }
impl Evals { pub fn new() -> (r: Self) ensures r.ode == 0, r.jac == 0, r.lu == 0 { Self { ode: 0, jac: 0, lu: 0 } } }
pub struct Steps { pub total: usize, pub accepted: usize, pub rejected: usize }
impl Steps { pub fn new() -> (r: Self) ensures r.total == 0, r.accepted == 0, r.rejected == 0 { Self { total: 0, accepted: 0, rejected: 0 } } }
pub struct IntegrationResult { pub h: Float, pub status: Status, pub evals: Evals, pub steps: Steps }
impl IntegrationResult { pub fn new(h: Float, status: Status, evals: Evals, steps: Steps) -> (r: Self) ensures r.h == h, r.status == status, r.evals == evals, r.steps == steps { Self { h, status, evals, steps } } }
pub enum ControlFlag { Continue, Interrupt, XOut(Float), ModifiedSolution }
#[allow(inconsistent_fields)]
pub enum ConfigError { MustBePositive { parameter: &'static str, value: usize }, InvalidStepSize { value: Float, expected_sign: Float },
  OutOfRange { parameter: &'static str, value: Float, min: Float, max: Float } }
pub enum Error { Config(ConfigError) }

pub struct StepInterpolant<'a> { pub cont: &'a [Float], pub xold: Float, pub h: Float }
impl<'a> StepInterpolant<'a> {
    pub fn new(cont: &'a [Float], xold: Float, h: Float) -> (r: Self) ensures r.cont@ == cont@, r.xold == xold, r.h == h { Self { cont, xold, h } }
}

/// Ghost log of everything a solver did through its two callbacks.
pub tracked struct Trace {
    pub ghost ode_calls: int,          // number of IVP::ode calls made
    pub ghost solout_calls: int,       // number of SolOut::solout calls made
    pub ghost last_x: f64,             // x handed back by the latest solout call
    pub ghost stopped: bool,           // a solout call returned Interrupt
}

pub trait IVP {
    spec fn rhs(&self, x: Float, y: Seq<Float>) -> Seq<Float>;
    fn ode(&self, x: Float, y: &[Float], dydx: &mut [Float], Tracked(tr): Tracked<&mut Trace>)
        requires y@.len() == old(dydx)@.len()
        ensures final(dydx)@ == self.rhs(x, y@), final(dydx)@.len() == old(dydx)@.len(),
            final(tr).ode_calls == old(tr).ode_calls + 1,
            final(tr).solout_calls == old(tr).solout_calls, final(tr).last_x == old(tr).last_x, final(tr).stopped == old(tr).stopped;
}

pub trait SolOut {
    fn solout(&mut self, xold: Float, x: &mut Float, y: &mut [Float], interpolant: Option<&StepInterpolant<'_>>, Tracked(tr): Tracked<&mut Trace>) -> (r: ControlFlag)
        requires
            !old(tr).stopped,
            old(tr).solout_calls == 0 ==> xold == *old(x) && interpolant is None,
            old(tr).solout_calls > 0 ==> xold == old(tr).last_x,
        ensures final(y)@.len() == old(y)@.len(),
            final(tr).ode_calls == old(tr).ode_calls,
            final(tr).solout_calls == old(tr).solout_calls + 1,
            final(tr).last_x == *final(x),
            final(tr).stopped == (r is Interrupt),
            !(r is ModifiedSolution) ==> final(y)@ == old(y)@ && *final(x) == *old(x);
}



/// Compute an initial step size guess for an ODE solver.
pub fn hinit<F>(
    f: &F,
    x: Float,
    y: &[Float],
    posneg: Float,
    f0: &[Float],
    f1: &mut [Float],
    y1: &mut [Float],
    iord: usize,
    hmax: Float,
    atol: &Tolerance,
    rtol: &Tolerance,
    Tracked(tr): Tracked<&mut Trace>,
) -> (r: Float)
where
    F: IVP,
    requires y@.len() == f0@.len(), old(f1)@.len() == y@.len(), old(y1)@.len() == y@.len(), atol.ok(y@.len() as nat), rtol.ok(y@.len() as nat),
    ensures final(f1)@.len() == old(f1)@.len(), final(y1)@.len() == old(y1)@.len(),
        final(tr).ode_calls == old(tr).ode_calls + 1, final(tr).solout_calls == old(tr).solout_calls, final(tr).last_x == old(tr).last_x, final(tr).stopped == old(tr).stopped,
{
    let n = y.len();
    let mut dnf: Float = 0.0;
    let mut dny: Float = 0.0;

    for i in 0..n

        invariant n == y@.len(), y@.len() == f0@.len(), f1@.len() == n, y1@.len() == n, atol.ok(n as nat), rtol.ok(n as nat),

    {
        let sk = (*atol.index(i)) + (*rtol.index(i)) * y[i].abs();
        dnf = dnf + ((f0[i] / sk) * (f0[i] / sk));
        dny = dny + ((y[i] / sk) * (y[i] / sk));
    }

    let mut h: Float;
    if dnf <= 1e-10 || dny <= 1e-10 {
        h = 1.0e-6;
    } else {
        h = (dny / dnf).sqrt() * 0.01;
    }

    if h > hmax.abs() {
        h = hmax.abs();
    }
    h = h.abs() * posneg.signum();

    // Explicit Euler step: y1 = y + h * f0
    for i in 0..n
        invariant n == y@.len(), y@.len() == f0@.len(), f1@.len() == n, y1@.len() == n, atol.ok(n as nat), rtol.ok(n as nat),
    {
        y1[i] = y[i] + h * f0[i];
    }
    // Evaluate f at x+h
    f.ode(x + h, y1, f1, Tracked(tr));

    // Estimate second derivative
    let mut der2: Float = 0.0;
    for i in 0..n
        invariant n == y@.len(), y@.len() == f0@.len(), f1@.len() == n, y1@.len() == n, atol.ok(n as nat), rtol.ok(n as nat),
    {
        let sk = (*atol.index(i)) + (*rtol.index(i)) * y[i].abs();
        let df = (f1[i] - f0[i]) / sk;
        der2 = der2 + (df * df);
    }
    der2 = der2.sqrt() / h.abs();

    let der12 = der2.abs().max(dnf.sqrt());
    let h1: Float;
    if der12 <= 1.0e-15_f64 {
        h1 = (1.0e-6_f64).max(h.abs() * 1.0e-3_f64);
    } else {
        h1 = (0.01_f64 / der12).powf(1.0_f64 / to_f(iord));
    }

    let h_final = h.abs().min(100.0_f64 * h.abs()).min(h1).min(hmax.abs());
    h_final.abs() * posneg.signum()
}
} // verus!
fn main() {}
