import re, sympy as sp
src=open('/repo/src/methods/radau.rs').read()
c={}
for m in re.finditer(r'^const (\w+): Float = ([^;]+);', src, re.M):
    c[m.group(1)]=sp.Rational(m.group(2).replace('_','').strip().replace('E','e'))
z1,z2,z3,s=sp.symbols('z1 z2 z3 s')
c1=(z2-z3)/c['C2M1']; ak=(z1-z2)/c['C1MC2']; c2=(ak-c1)/c['C1M1']; ac3=(ak-z1/c['C1'])/c['C2']; c3=c2-ac3
u=z3+s*(c1+(s-c['C2M1'])*(c2+(s-c['C1M1'])*c3))   # u - y_old
for name,val,target in [('left s=-1',-1,0),('c1 node',c['C1']-1,z1),('c2 node',c['C2']-1,z2),('right s=0',0,z3)]:
    e=sp.expand(u.subs(s,val)-target)
    print(name,[float(e.coeff(v)) for v in (z1,z2,z3)])
# T*TI
T=sp.Matrix([[c['T00'],c['T01'],c['T02']],[c['T10'],c['T11'],c['T12']],[c['T20'],1,0]])
TI=sp.Matrix([[c['TI00'],c['TI01'],c['TI02']],[c['TI10'],c['TI11'],c['TI12']],[c['TI20'],c['TI21'],c['TI22']]])
print("T*TI - I max", max(abs(float(x)) for x in (T*TI-sp.eye(3))))
L=sp.Matrix([[c['U1'],0,0],[0,c['ALPH'],-c['BETA']],[0,c['BETA'],c['ALPH']]])
W=T*L*TI
cs=[c['C1'],c['C2'],sp.Integer(1)]
for k in (1,2,3):
    lhs=W*sp.Matrix([ci**k/k for ci in cs]); rhs=sp.Matrix([ci**(k-1) for ci in cs])
    print("colloc k",k,max(abs(float(x)) for x in (lhs-rhs)))
