import re, sympy as sp
from fractions import Fraction as Fr
from functools import lru_cache
exec(open('est.py').read().split("# DOPRI5")[0])
th=sp.symbols('theta'); t1=1-th
def R(x): return sp.Rational(x.numerator,x.denominator)
c=consts('/repo/src/methods/dopri5.rs'); S=7
A=[[sp.Integer(0)]*(S+1) for _ in range(S+1)]
for k,v in c.items():
    m=re.fullmatch(r'A(\d)(\d)',k)
    if m: A[int(m.group(1))][int(m.group(2))]=R(v)
b=[sp.Integer(0)]+[A[7][j] for j in range(1,7)]+[sp.Integer(0)]
d=[sp.Integer(0)]*(S+1)
for nm,i in [('D1',1),('D3',3),('D4',4),('D5',5),('D6',6),('D7',7)]: d[i]=R(c[nm])
def delta(i,j): return 1 if i==j else 0
bt=[None]+[th*b[i]+th*t1*(delta(i,1)-b[i])+th**2*t1*(2*b[i]-delta(i,1)-delta(i,7))+th**2*t1**2*d[i] for i in range(1,S+1)]
def phi(t,i):
    r=sp.Integer(1)
    for s in t: r*=sum(A[i][j]*phi(s,j) for j in range(1,i))
    return r
for p in range(1,6):
    worst=0
    for t in trees(p):
        expr=sp.expand(sum(bt[i]*phi(t,i) for i in range(1,S+1))-th**order(t)/gamma(t))
        worst=max(worst, max([abs(float(cf)) for cf in sp.Poly(expr,th).all_coeffs()]+[0]))
    print("DOPRI5 dense order",p,"worst coeff residual",worst)
