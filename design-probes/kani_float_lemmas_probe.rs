#[cfg(kani)]
mod l {
    #[kani::proof]
    fn landing_not_last_fwd() {
        let x: f64 = kani::any(); let h: f64 = kani::any(); let xend: f64 = kani::any(); let c: f64 = kani::any();
        kani::assume(x.is_finite() && h.is_finite() && xend.is_finite());
        kani::assume(h > 0.0 && c >= 0.0 && c <= 1.0);
        kani::assume(x <= xend);
        let posneg = 1.0f64;
        kani::assume(!((x + 1.01 * h - xend) * posneg > 0.0));
        let t = x + c * h;
        assert!(t <= xend);
        assert!(t >= x);
    }
    #[kani::proof]
    fn landing_last_fwd() {
        let x: f64 = kani::any(); let xend: f64 = kani::any(); let c: f64 = kani::any();
        kani::assume(x.is_finite() && xend.is_finite());
        kani::assume(c >= 0.0 && c <= 1.0);
        kani::assume(x < xend);
        let h = xend - x;
        kani::assume(h.is_finite());
        let t = x + c * h;
        assert!(t >= x);
        assert!(t <= xend);
    }
}
