#![allow(unused)]
use vstd::prelude::*;
verus! {
global size_of usize == 8;
pub type Float = f64;
pub enum MatrixStorage { Identity, Full, Banded { ml: usize, mu: usize } }
pub struct Matrix { pub n: usize, pub m: usize, pub data: Vec<Float>, pub storage: MatrixStorage }
pub uninterp spec fn feq(a: f64, b: f64) -> bool;
impl Matrix {
    pub open spec fn wf(&self) -> bool {
        match self.storage {
            MatrixStorage::Identity => self.data@.len() == 2 && self.data@[0] == 1.0f64 && self.data@[1] == 0.0f64,
            MatrixStorage::Full => self.data@.len() == self.n * self.m,
            MatrixStorage::Banded { ml, mu } => self.data@.len() == (ml + mu + 1) * self.m,
        }
    }
    pub open spec fn at(&self, i: int, j: int) -> f64 {
        match self.storage {
            MatrixStorage::Identity => if i == j { self.data@[0] } else { self.data@[1] },
            MatrixStorage::Full => self.data@[i * self.m + j],
            MatrixStorage::Banded { ml, mu } => if -mu <= i - j <= ml { self.data@[(i - j + mu) * self.m + j] } else { 0.0f64 },
        }
    }
    // verbatim (base.rs)
    pub fn nrows(&self) -> (r: usize) ensures r == self.n {
        self.n
    }
    pub fn identity(n: usize) -> (r: Self)
        ensures r.wf(), r.n == n, r.m == n, forall|i: int, j: int| 0 <= i < n && 0 <= j < n ==> #[trigger] r.at(i, j) == (if i == j { 1.0f64 } else { 0.0f64 }),
    {
        Matrix {
            n,
            m: n,
            // Keep [one, zero] so indexing can return references.
            data: vec![1.0, 0.0],
            storage: MatrixStorage::Identity,
        }
    }
}
pub trait IVP {
    // verbatim default body (ivp.rs), contract from C15: "with no mass matrix supplied the problem is y' = f whatever mass storage is selected"
    fn mass(&self, m: &mut Matrix)
        requires old(m).wf(), old(m).n == old(m).m
        ensures final(m).wf(), final(m).n == old(m).n, final(m).m == old(m).m,
            forall|i: int, j: int| 0 <= i < old(m).n && 0 <= j < old(m).n ==> #[trigger] final(m).at(i, j) == (if i == j { 1.0f64 } else { 0.0f64 }),
    {
        Matrix::identity(m.nrows());
    }
}
}
fn main() {}
