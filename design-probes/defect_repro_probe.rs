use ivp::prelude::*;
use ivp::methods::{RADAU, RK23, RK4};
use ivp::solout::SolOut;
use std::cell::Cell;

struct Lin { calls: Cell<usize>, tmax: Cell<f64> }
impl IVP for Lin {
    fn ode(&self, t: f64, y: &[f64], d: &mut [f64]) { self.calls.set(self.calls.get()+1); if t > self.tmax.get() { self.tmax.set(t);} for i in 0..y.len() { d[i] = -y[i]; } }
}
struct Ramp; // y' = 1, event y - 0.55 terminal
impl IVP for Ramp {
    fn ode(&self, _t: f64, _y: &[f64], d: &mut [f64]) { d[0] = 1.0; }
    fn n_events(&self) -> usize { 1 }
    fn events(&self, _t: f64, y: &[f64], out: &mut [f64]) { out[0] = y[0] - 0.55; }
    fn event_config(&self, _i: usize) -> EventConfig { let mut c = EventConfig::new(); c.terminal(); c }
}
struct NanAfter;
impl IVP for NanAfter { fn ode(&self, t: f64, y: &[f64], d: &mut [f64]) { d[0] = if t > 0.5 { f64::NAN } else { -y[0] }; } }
struct Nop; impl SolOut for Nop { fn solout(&mut self, _: f64, _: &mut f64, _: &mut [f64], _: Option<&StepInterpolant<'_>>) -> ControlFlag { ControlFlag::Continue } }

fn main() {
    // F1: RK4 nfev / naccpt
    let f = Lin { calls: Cell::new(0), tmax: Cell::new(f64::MIN) };
    let s = solve_ivp(&f, 0.0, 1.0, &[1.0], Options::builder().method(Method::RK4).build()).unwrap();
    println!("F1 RK4: nfev={} actual_calls={} naccpt={} intervals={}", s.nfev, f.calls.get(), s.naccpt, s.t.len()-1);
    // F2: RK4 overshoot
    let f = Lin { calls: Cell::new(0), tmax: Cell::new(f64::MIN) };
    let s = solve_ivp(&f, 0.0, 1.0, &[1.0], Options::builder().method(Method::RK4).first_step(0.3).build()).unwrap();
    println!("F2 RK4 first_step=0.3: last t={} status={:?} max ode time={}", s.t.last().unwrap(), s.status, f.tmax.get());
    // F5: Radau scalar vs vector tolerance
    for n in [1usize, 4] {
        let y0 = vec![1.0; n];
        let f = Lin { calls: Cell::new(0), tmax: Cell::new(f64::MIN) };
        let a = solve_ivp(&f, 0.0, 1.0, &y0, Options::builder().method(Method::RADAU).rtol(1e-6).atol(1e-9).build()).unwrap();
        let b = solve_ivp(&f, 0.0, 1.0, &y0, Options::builder().method(Method::RADAU).rtol(vec![1e-6; n]).atol(vec![1e-9; n]).build()).unwrap();
        println!("F5 Radau n={}: scalar-tol naccpt={} vector-tol naccpt={} err_scalar={:.2e} err_vec={:.2e}", n, a.naccpt, b.naccpt,
            (a.y.last().unwrap()[0]-(-1.0f64).exp()).abs(), (b.y.last().unwrap()[0]-(-1.0f64).exp()).abs());
    }
    // F6: low-level RADAU builder defaults + default mass
    let f = Lin { calls: Cell::new(0), tmax: Cell::new(f64::MIN) };
    let r = RADAU::builder().build().solve(&f, 0.0, &[1.0], 1.0, 1e-6.into(), 1e-9.into(), Some(&mut Nop));
    println!("F6 RADAU builder default mass storage: {:?}", r.map(|r| (r.status, r.steps.accepted)));
    // F7: Matrix::square
    let r = std::panic::catch_unwind(|| { let m = Matrix::square(2); m[(0,0)] });
    println!("F7 Matrix::square(2)[(0,0)] panics: {}", r.is_err());
    // F8: terminal event drops earlier t_eval points
    let te: Vec<f64> = (1..=9).map(|i| i as f64 * 0.1).collect();
    for m in [Method::DOPRI5, Method::RK23] {
        let s = solve_ivp(&Ramp, 0.0, 1.0, &[0.0], Options::builder().method(m).t_eval(te.clone()).build()).unwrap();
        println!("F8 {:?}: t={:?} status={:?} t_events={:?}", m, s.t, s.status, s.t_events);
    }
    // F9: Radau with NaN rhs
    let s = solve_ivp(&NanAfter, 0.0, 1.0, &[1.0], Options::builder().method(Method::RADAU).max_steps(10000).build()).unwrap();
    println!("F9 Radau NaN rhs: status={:?} last t={} last y={:?} n={}", s.status, s.t.last().unwrap(), s.y.last().unwrap(), s.t.len());
    // F4: RK23 with solout None vs Some
    let f = Lin { calls: Cell::new(0), tmax: Cell::new(f64::MIN) };
    struct Last(f64); impl SolOut for Last { fn solout(&mut self, _: f64, _: &mut f64, y: &mut [f64], _: Option<&StepInterpolant<'_>>) -> ControlFlag { self.0 = y[0]; ControlFlag::Continue } }
    let mut l = Last(0.0);
    let r1 = RK23::builder().build().solve(&f, 0.0, &[1.0], 1.0, 1e-8.into(), 1e-10.into(), Some(&mut l)).unwrap();
    let r2 = RK23::builder().build().solve::<_, Nop>(&f, 0.0, &[1.0], 1.0, 1e-8.into(), 1e-10.into(), None).unwrap();
    println!("F4 RK23 Some: steps={} rej={}  None: steps={} rej={}", r1.steps.accepted, r1.steps.rejected, r2.steps.accepted, r2.steps.rejected);
    let _ = RK4::builder();
    // F3: RK23 NaN hang (run last, under budget 50 accepted steps)
    println!("F3 RK23 with NaN rhs and max_steps=50: starting (expected to hang; killed by timeout)");
    let s = solve_ivp(&NanAfter, 0.0, 1.0, &[1.0], Options::builder().method(Method::RK23).max_steps(50).build()).unwrap();
    println!("F3 returned: {:?}", s.status);
}
