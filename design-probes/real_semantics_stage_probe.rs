use vstd::prelude::*;
use vstd::std_specs::ops::*;
verus! {
pub mod fp { use vstd::prelude::*; use vstd::std_specs::ops::*;
pub broadcast axiom fn f64_add_req(a: f64, b: f64) ensures #[trigger] a.add_req(b);
pub broadcast axiom fn f64_mul_req(a: f64, b: f64) ensures #[trigger] a.mul_req(b);
pub uninterp spec fn R(x: f64) -> real;
pub axiom fn add_obeys() ensures <f64 as AddSpec<f64>>::obeys_add_spec();
pub axiom fn mul_obeys() ensures <f64 as MulSpec<f64>>::obeys_mul_spec();
pub broadcast axiom fn r_add(a: f64, b: f64) ensures R(#[trigger] a.add_spec(b)) == R(a) + R(b);
pub broadcast axiom fn r_mul(a: f64, b: f64) ensures R(#[trigger] a.mul_spec(b)) == R(a) * R(b);
pub broadcast group f64_ops { f64_add_req, f64_mul_req, r_add, r_mul }
}
broadcast use fp::f64_ops;
use fp::R;
pub type Float = f64;

#[verifier::external_body] exec const A31: Float ensures R(A31) == 3real / 40real { 3.0 / 40.0 }
#[verifier::external_body] exec const A32: Float ensures R(A32) == 9real / 40real { 9.0 / 40.0 }

pub open spec fn a31() -> real { 3real / 40real }
pub open spec fn a32() -> real { 9real / 40real }

fn stage3(y: &Vec<f64>, k1: &Vec<f64>, k2: &Vec<f64>, y1: &mut Vec<f64>, h: f64, n: usize)
    requires y.len() == n, k1.len() == n, k2.len() == n, old(y1).len() == n
    ensures final(y1).len() == n,
        forall|j: int| 0 <= j < n ==> R(#[trigger] final(y1)@[j]) == R(y@[j]) + R(h) * (a31() * R(k1@[j]) + a32() * R(k2@[j])),
{
    proof { fp::add_obeys(); fp::mul_obeys(); }
    for i in 0..n
        invariant y.len() == n, k1.len() == n, k2.len() == n, y1.len() == n,
            <f64 as AddSpec<f64>>::obeys_add_spec(), <f64 as MulSpec<f64>>::obeys_mul_spec(),
            forall|j: int| 0 <= j < i ==> R(#[trigger] y1@[j]) == R(y@[j]) + R(h) * (a31() * R(k1@[j]) + a32() * R(k2@[j])),
    {
        y1[i] = y[i] + h * (A31 * k1[i] + A32 * k2[i]);
    }
}

proof fn order1() ensures a31() + a32() == 3real/10real {}
proof fn vac() { assert(false); }
}
fn main() {}
